//! Shared driver for C10 / C09: a small op language over one account (vaults of 2 fungible + 1
//! non-fungible resource), the worktop, named buckets and proofs; ops are translated to raw
//! manifest instructions (no static validation) and executed with the real engine
//! (`LedgerSimulator::execute_transaction_no_commit`, so every case starts from the same ledger).
//! The first failing op is located by bisection over prefixes closed with a clean-up suffix.
#![allow(dead_code)]
use radix_common::prelude::*;
use radix_engine::blueprints::resource::*;
use radix_engine::errors::*;
use radix_engine::transaction::*;
use radix_engine_interface::blueprints::resource::*;
use radix_engine_interface::prelude::*;
use radix_transactions::manifest::*;
use radix_transactions::model::*;
use radix_transactions::prelude::*;
use scrypto_test::prelude::*;
use std::collections::BTreeMap;
use std::collections::BTreeSet;
use vh_common::*;

/// Resources: index 0 = fungible divisibility 18 (recallable, burnable), 1 = fungible
/// divisibility 2 (burnable), 2 = non-fungible with integer ids (recallable, burnable).
pub const NRES: usize = 3;
pub const DIVS: [u8; 2] = [18, 2];
pub const NF: usize = 2;

#[derive(Clone, Debug, PartialEq)]
pub enum Op {
    // account vault
    Withdraw(usize, i128),          // resource, attos
    WithdrawNF(usize, Vec<u64>),    // resource, ids
    AcctBurn(usize, i128),
    AcctBurnNF(usize, Vec<u64>),
    AcctProofAmount(usize, i128),   // proof is pushed to the auth zone
    AcctProofNF(usize, Vec<u64>),
    Recall(usize, i128),            // direct vault access
    RecallNF(usize, Vec<u64>),
    // proofs
    PopAuthZone,
    PushAuthZone(u32),
    CloneProof(u32),
    DropProof(u32),
    DropAllProofs,
    DropNamedProofs,
    DropAuthZoneProofs,
    // worktop / buckets
    TakeFromWorktop(usize, i128),
    TakeNFFromWorktop(usize, Vec<u64>),
    TakeAllFromWorktop(usize),
    ReturnToWorktop(u32),
    BucketProofAmount(u32, i128),
    BucketProofNF(u32, Vec<u64>),
    BucketProofAll(u32),
    BurnBucket(u32),
    Deposit(u32),
    DepositBatch,                   // account.deposit_batch(EntireWorktop)
    AssertContains(usize, i128),
    AssertContainsAny(usize),
    AssertContainsNF(usize, Vec<u64>),
}

#[derive(Clone, Debug, PartialEq, Eq, PartialOrd, Ord)]
pub enum Err {
    Insufficient,        // Vault/BucketError::ResourceError(InsufficientBalance), NF vault MissingId / NotEnoughAmount, MissingNonFungibleLocalId
    WorktopInsufficient, // WorktopError::InsufficientBalance
    Assertion,           // WorktopError::AssertionFailed
    InvalidAmount,       // Vault/BucketError::InvalidAmount
    Locked,              // BucketError::Locked
    EmptyProof,          // ProofError::EmptyProofNotAllowed
    BucketNotFound,
    ProofNotFound,
    AuthZoneEmpty,
    DropNonEmpty,        // (Non)FungibleResourceManagerError::DropNonEmptyBucket
    Orphan,              // KernelError::OrphanedNodes
    Unauthorized,        // AuthError::Unauthorized (account owner role after the signature proofs were dropped)
    Panic,
    Other(String),
}

impl Err {
    pub fn coq(&self) -> &'static str {
        match self {
            Err::Insufficient => "EInsufficient",
            Err::WorktopInsufficient => "EWorktopInsufficient",
            Err::Assertion => "EAssertion",
            Err::InvalidAmount => "EInvalidAmount",
            Err::Locked => "ELocked",
            Err::EmptyProof => "EEmptyProof",
            Err::BucketNotFound => "EBucketNotFound",
            Err::ProofNotFound => "EProofNotFound",
            Err::AuthZoneEmpty => "EAuthZoneEmpty",
            Err::DropNonEmpty => "EDropNonEmpty",
            Err::Orphan => "EOrphan",
            Err::Unauthorized => "EUnauthorized",
            Err::Panic => "EPanic",
            Err::Other(_) => "EOther",
        }
    }
}

pub fn classify(e: &RuntimeError) -> Err {
    use ApplicationError as A;
    match e {
        RuntimeError::ApplicationError(a) => match a {
            A::VaultError(VaultError::ResourceError(ResourceError::InsufficientBalance { .. }))
            | A::BucketError(BucketError::ResourceError(ResourceError::InsufficientBalance { .. }))
            | A::BucketError(BucketError::ResourceError(ResourceError::MissingNonFungibleLocalId(_)))
            | A::NonFungibleVaultError(NonFungibleVaultError::MissingId(_))
            | A::NonFungibleVaultError(NonFungibleVaultError::NotEnoughAmount) => Err::Insufficient,
            A::WorktopError(WorktopError::InsufficientBalance) => Err::WorktopInsufficient,
            A::WorktopError(WorktopError::AssertionFailed(_)) => Err::Assertion,
            A::VaultError(VaultError::InvalidAmount(_)) | A::BucketError(BucketError::InvalidAmount(_)) => Err::InvalidAmount,
            A::BucketError(BucketError::Locked(_)) => Err::Locked,
            A::VaultError(VaultError::ProofError(ProofError::EmptyProofNotAllowed))
            | A::BucketError(BucketError::ProofError(ProofError::EmptyProofNotAllowed)) => Err::EmptyProof,
            A::TransactionProcessorError(TransactionProcessorError::BucketNotFound(_)) => Err::BucketNotFound,
            A::TransactionProcessorError(TransactionProcessorError::ProofNotFound(_)) => Err::ProofNotFound,
            A::TransactionProcessorError(TransactionProcessorError::AuthZoneIsEmpty) => Err::AuthZoneEmpty,
            A::FungibleResourceManagerError(FungibleResourceManagerError::DropNonEmptyBucket)
            | A::NonFungibleResourceManagerError(NonFungibleResourceManagerError::DropNonEmptyBucket) => Err::DropNonEmpty,
            other => Err::Other(format!("{:?}", other)),
        },
        RuntimeError::KernelError(KernelError::OrphanedNodes(_)) => Err::Orphan,
        // dropping a bucket node that a live proof still references
        RuntimeError::KernelError(KernelError::CallFrameError(CallFrameError::DropNodeError(DropNodeError::NodeBorrowed(_)))) => Err::Locked,
        RuntimeError::SystemModuleError(SystemModuleError::AuthError(AuthError::Unauthorized(_))) => Err::Unauthorized,
        other => Err::Other(format!("{:?}", other)),
    }
}

/// Outcome of one execution.
#[derive(Clone, Debug, PartialEq)]
pub enum Exec {
    /// success: account vault balance deltas (fungible attos per resource, NF added/removed ids) and supply deltas
    Success(Deltas),
    Failure(Err),
    Rejected(String),
}

#[derive(Clone, Debug, Default)]
pub struct Deltas {
    pub fung: [i128; 2],
    pub nf_added: BTreeSet<u64>,
    pub nf_removed: BTreeSet<u64>,
    /// from the receipt's Burn*ResourceEvent events (not part of equality / the Coq case)
    pub burned_f: [i128; 2],
    pub burned_n: Vec<u64>,
    /// balance changes of vaults other than the account's three vaults, for the three resources
    pub other_vault_changes: usize,
}

impl PartialEq for Deltas {
    fn eq(&self, o: &Deltas) -> bool {
        self.fung == o.fung && self.nf_added == o.nf_added && self.nf_removed == o.nf_removed
    }
}

pub struct Sim {
    pub ledger: DefaultLedgerSimulator,
    pub pk: Secp256k1PublicKey,
    pub account: ComponentAddress,
    pub res: [ResourceAddress; NRES],
    pub vaults: [NodeId; NRES],
    /// initial account balances: attos for fungibles, ids for the non-fungible
    pub init_fung: [i128; 2],
    pub init_nf: Vec<u64>,
    pub runs: u64,
}

pub const ATTO: i128 = 1;
pub const UNIT: i128 = 1_000_000_000_000_000_000; // 10^18 attos
pub const CENT: i128 = 10_000_000_000_000_000; // 10^16 = unit of a divisibility-2 resource

pub fn dec(attos: i128) -> Decimal {
    Decimal::from_attos(I192::from(attos))
}
pub fn attos_of(d: Decimal) -> i128 {
    let s = d.attos().to_string();
    s.parse::<i128>().expect("amount fits i128")
}
fn ids_of(v: &[u64]) -> Vec<NonFungibleLocalId> {
    v.iter().map(|i| NonFungibleLocalId::integer(*i)).collect()
}
fn id_u64(id: &NonFungibleLocalId) -> u64 {
    match id {
        NonFungibleLocalId::Integer(i) => i.value(),
        _ => u64::MAX,
    }
}

impl Sim {
    pub fn new() -> Sim {
        let mut ledger = LedgerSimulatorBuilder::new().build();
        let (pk, _sk, account) = ledger.new_allocated_account();
        let init_fung = [1000 * UNIT, 500 * UNIT];
        let init_nf: Vec<u64> = (1..=8).collect();
        let mut res = Vec::new();
        for (i, div) in DIVS.iter().enumerate() {
            let roles = FungibleResourceRoles {
                burn_roles: burn_roles! { burner => rule!(allow_all); burner_updater => rule!(deny_all); },
                recall_roles: if i == 0 {
                    recall_roles! { recaller => rule!(allow_all); recaller_updater => rule!(deny_all); }
                } else {
                    None
                },
                ..Default::default()
            };
            let manifest = ManifestBuilder::new()
                .lock_fee_from_faucet()
                .create_fungible_resource(OwnerRole::None, true, *div, roles, metadata!(), Some(dec(init_fung[i])))
                .try_deposit_entire_worktop_or_abort(account, None)
                .build();
            let receipt = ledger.execute_manifest(manifest, vec![]);
            res.push(receipt.expect_commit(true).new_resource_addresses()[0]);
        }
        {
            let roles = NonFungibleResourceRoles {
                burn_roles: burn_roles! { burner => rule!(allow_all); burner_updater => rule!(deny_all); },
                recall_roles: recall_roles! { recaller => rule!(allow_all); recaller_updater => rule!(deny_all); },
                ..Default::default()
            };
            let entries: Vec<(NonFungibleLocalId, ())> = init_nf.iter().map(|i| (NonFungibleLocalId::integer(*i), ())).collect();
            let manifest = ManifestBuilder::new()
                .lock_fee_from_faucet()
                .create_non_fungible_resource(OwnerRole::None, NonFungibleIdType::Integer, true, roles, metadata!(), Some(entries))
                .try_deposit_entire_worktop_or_abort(account, None)
                .build();
            let receipt = ledger.execute_manifest(manifest, vec![]);
            res.push(receipt.expect_commit(true).new_resource_addresses()[0]);
        }
        let res: [ResourceAddress; NRES] = [res[0], res[1], res[2]];
        let vaults = [
            ledger.get_component_vaults(account, res[0])[0],
            ledger.get_component_vaults(account, res[1])[0],
            ledger.get_component_vaults(account, res[2])[0],
        ];
        Sim { ledger, pk, account, res, vaults, init_fung, init_nf, runs: 0 }
    }

    fn call(&self, addr: impl Into<GlobalAddress>, method: &str, args: ManifestValue) -> InstructionV1 {
        InstructionV1::CallMethod(CallMethod {
            address: ManifestGlobalAddress::Static(addr.into()),
            method_name: method.to_string(),
            args,
        })
    }

    pub fn instr(&self, op: &Op) -> InstructionV1 {
        let acc = self.account;
        let r = |i: &usize| self.res[*i];
        match op {
            Op::Withdraw(i, a) => self.call(acc, "withdraw", to_manifest_value_and_unwrap!(&(r(i), dec(*a)))),
            Op::WithdrawNF(i, ids) => self.call(acc, "withdraw_non_fungibles", to_manifest_value_and_unwrap!(&(r(i), ids_of(ids)))),
            Op::AcctBurn(i, a) => self.call(acc, "burn", to_manifest_value_and_unwrap!(&(r(i), dec(*a)))),
            Op::AcctBurnNF(i, ids) => self.call(acc, "burn_non_fungibles", to_manifest_value_and_unwrap!(&(r(i), ids_of(ids)))),
            Op::AcctProofAmount(i, a) => self.call(acc, "create_proof_of_amount", to_manifest_value_and_unwrap!(&(r(i), dec(*a)))),
            Op::AcctProofNF(i, ids) => self.call(acc, "create_proof_of_non_fungibles", to_manifest_value_and_unwrap!(&(r(i), ids_of(ids)))),
            Op::Recall(i, a) => InstructionV1::CallDirectVaultMethod(CallDirectVaultMethod {
                address: InternalAddress::new_or_panic(self.vaults[*i].into()),
                method_name: "recall".to_string(),
                args: to_manifest_value_and_unwrap!(&(dec(*a),)),
            }),
            Op::RecallNF(i, ids) => InstructionV1::CallDirectVaultMethod(CallDirectVaultMethod {
                address: InternalAddress::new_or_panic(self.vaults[*i].into()),
                method_name: "recall_non_fungibles".to_string(),
                args: to_manifest_value_and_unwrap!(&(ids_of(ids),)),
            }),
            Op::PopAuthZone => InstructionV1::PopFromAuthZone(PopFromAuthZone),
            Op::PushAuthZone(p) => InstructionV1::PushToAuthZone(PushToAuthZone { proof_id: ManifestProof(*p) }),
            Op::CloneProof(p) => InstructionV1::CloneProof(CloneProof { proof_id: ManifestProof(*p) }),
            Op::DropProof(p) => InstructionV1::DropProof(DropProof { proof_id: ManifestProof(*p) }),
            Op::DropAllProofs => InstructionV1::DropAllProofs(DropAllProofs),
            Op::DropNamedProofs => InstructionV1::DropNamedProofs(DropNamedProofs),
            Op::DropAuthZoneProofs => InstructionV1::DropAuthZoneProofs(DropAuthZoneProofs),
            Op::TakeFromWorktop(i, a) => InstructionV1::TakeFromWorktop(TakeFromWorktop { resource_address: r(i), amount: dec(*a) }),
            Op::TakeNFFromWorktop(i, ids) => {
                InstructionV1::TakeNonFungiblesFromWorktop(TakeNonFungiblesFromWorktop { resource_address: r(i), ids: ids_of(ids) })
            }
            Op::TakeAllFromWorktop(i) => InstructionV1::TakeAllFromWorktop(TakeAllFromWorktop { resource_address: r(i) }),
            Op::ReturnToWorktop(b) => InstructionV1::ReturnToWorktop(ReturnToWorktop { bucket_id: ManifestBucket(*b) }),
            Op::BucketProofAmount(b, a) => InstructionV1::CreateProofFromBucketOfAmount(CreateProofFromBucketOfAmount {
                bucket_id: ManifestBucket(*b),
                amount: dec(*a),
            }),
            Op::BucketProofNF(b, ids) => InstructionV1::CreateProofFromBucketOfNonFungibles(CreateProofFromBucketOfNonFungibles {
                bucket_id: ManifestBucket(*b),
                ids: ids_of(ids),
            }),
            Op::BucketProofAll(b) => InstructionV1::CreateProofFromBucketOfAll(CreateProofFromBucketOfAll { bucket_id: ManifestBucket(*b) }),
            Op::BurnBucket(b) => InstructionV1::BurnResource(BurnResource { bucket_id: ManifestBucket(*b) }),
            Op::Deposit(b) => self.call(acc, "deposit", to_manifest_value_and_unwrap!(&(ManifestBucket(*b),))),
            Op::DepositBatch => self.call(acc, "deposit_batch", to_manifest_value_and_unwrap!(&(ManifestExpression::EntireWorktop,))),
            Op::AssertContains(i, a) => InstructionV1::AssertWorktopContains(AssertWorktopContains { resource_address: r(i), amount: dec(*a) }),
            Op::AssertContainsAny(i) => InstructionV1::AssertWorktopContainsAny(AssertWorktopContainsAny { resource_address: r(i) }),
            Op::AssertContainsNF(i, ids) => {
                InstructionV1::AssertWorktopContainsNonFungibles(AssertWorktopContainsNonFungibles { resource_address: r(i), ids: ids_of(ids) })
            }
        }
    }

    /// Executes `instrs` (after a faucet fee lock) without committing.
    pub fn exec(&mut self, instrs: Vec<InstructionV1>) -> Exec {
        self.runs += 1;
        let mut all = vec![InstructionV1::CallMethod(CallMethod {
            address: ManifestGlobalAddress::Static(FAUCET.into()),
            method_name: "lock_fee".to_string(),
            args: to_manifest_value_and_unwrap!(&(dec(5000 * UNIT),)),
        })];
        all.extend(instrs);
        let manifest = TransactionManifestV1 { instructions: all, blobs: Default::default(), object_names: ManifestObjectNames::Unknown };
        let nonce = self.ledger.next_transaction_nonce();
        let proofs: BTreeSet<NonFungibleGlobalId> = [NonFungibleGlobalId::from_public_key(&self.pk)].into_iter().collect();
        let executable = match manifest.into_executable_with_proofs(nonce, proofs, self.ledger.transaction_validator()) {
            Ok(e) => e,
            Err(e) => return Exec::Rejected(format!("executable: {}", e)),
        };
        let ledger = &mut self.ledger;
        let receipt = match catch(std::panic::AssertUnwindSafe(|| ledger.execute_transaction_no_commit(executable, ExecutionConfig::for_test_transaction()))) {
            Ok(r) => r,
            Err(_) => return Exec::Failure(Err::Panic),
        };
        match &receipt.result {
            TransactionResult::Commit(c) => match &c.outcome {
                TransactionOutcome::Success(_) => {
                    let mut d = Deltas::default();
                    for (id, data) in &c.application_events {
                        let EventTypeIdentifier(Emitter::Method(node, _), name) = id else { continue };
                        let Some(i) = self.res.iter().position(|r| r.as_node_id() == node) else { continue };
                        if name == "BurnFungibleResourceEvent" {
                            let e: BurnFungibleResourceEvent = scrypto_decode(data).unwrap();
                            d.burned_f[i] += attos_of(e.amount);
                        } else if name == "BurnNonFungibleResourceEvent" {
                            let e: BurnNonFungibleResourceEvent = scrypto_decode(data).unwrap();
                            d.burned_n.extend(e.ids.iter().map(id_u64));
                        }
                    }
                    for (node, (res, ch)) in c.vault_balance_changes() {
                        let Some(i) = self.vaults.iter().position(|v| v == node) else {
                            if self.res.contains(res) {
                                d.other_vault_changes += 1;
                            }
                            continue;
                        };
                        assert_eq!(*res, self.res[i]);
                        match ch {
                            BalanceChange::Fungible(x) => d.fung[i] = attos_of(*x),
                            BalanceChange::NonFungible { added, removed } => {
                                d.nf_added = added.iter().map(id_u64).collect();
                                d.nf_removed = removed.iter().map(id_u64).collect();
                            }
                        }
                    }
                    Exec::Success(d)
                }
                TransactionOutcome::Failure(e) => Exec::Failure(classify(e)),
            },
            TransactionResult::Reject(r) => Exec::Rejected(format!("{:?}", r.reason)),
            TransactionResult::Abort(a) => Exec::Rejected(format!("{:?}", a.reason)),
        }
    }

    /// Clean-up suffix for a prefix whose ops are all assumed to have succeeded: drop every proof,
    /// then deposit every live named bucket and the whole worktop into the account.
    pub fn cleanup(&self, prefix: &[Op]) -> Vec<InstructionV1> {
        let live = live_buckets(prefix);
        // (not DROP_ALL_PROOFS: that would also drop the signature proofs; deposits go through
        // try_deposit_*_or_abort, which needs no owner proof, so the suffix also works after the
        // ops themselves dropped the signature proofs)
        let mut v = vec![
            InstructionV1::DropNamedProofs(DropNamedProofs),
            InstructionV1::DropAuthZoneRegularProofs(DropAuthZoneRegularProofs),
        ];
        let none: Option<ResourceOrNonFungible> = None;
        for b in live {
            v.push(self.call(self.account, "try_deposit_or_abort", to_manifest_value_and_unwrap!(&(ManifestBucket(b), none.clone()))));
        }
        v.push(self.call(self.account, "try_deposit_batch_or_abort", to_manifest_value_and_unwrap!(&(ManifestExpression::EntireWorktop, none))));
        v
    }

    /// Runs the op list as a whole transaction (natural end of transaction, no clean-up) and, when
    /// it fails, bisects for the first failing op. Result: (first failure: (index, class) with
    /// index = ops.len() for a failure at the end of the transaction; final deltas on success).
    pub fn run_case(&mut self, ops: &[Op]) -> CaseResult {
        let full: Vec<InstructionV1> = ops.iter().map(|o| self.instr(o)).collect();
        match self.exec(full) {
            Exec::Success(d) => CaseResult { fail: None, deltas: Some(d), note: None },
            Exec::Rejected(r) => CaseResult { fail: None, deltas: None, note: Some(format!("rejected: {}", r)) },
            Exec::Failure(class) => {
                // smallest k in 1..=n such that prefix(k)+cleanup fails
                let n = ops.len();
                let fails = |sim: &mut Sim, k: usize| -> Exec {
                    let mut v: Vec<InstructionV1> = ops[..k].iter().map(|o| sim.instr(o)).collect();
                    v.extend(sim.cleanup(&ops[..k]));
                    sim.exec(v)
                };
                // invariant: prefix(lo)+cleanup succeeds (lo = 0 trivially), prefix(hi)+cleanup fails or hi = n+1
                let (mut lo, mut hi) = (0usize, n + 1);
                let mut class_at_hi: Option<Err> = None;
                while hi - lo > 1 {
                    let mid = (lo + hi) / 2;
                    match fails(self, mid) {
                        Exec::Success(_) => lo = mid,
                        Exec::Failure(c) => {
                            hi = mid;
                            class_at_hi = Some(c);
                        }
                        Exec::Rejected(r) => {
                            return CaseResult { fail: None, deltas: None, note: Some(format!("rejected in bisection: {}", r)) };
                        }
                    }
                }
                if hi == n + 1 {
                    // every prefix with clean-up succeeds: the failure is at the end of the transaction
                    CaseResult { fail: Some((n, class)), deltas: None, note: None }
                } else {
                    let c = class_at_hi.unwrap();
                    let note = if c != class { Some(format!("class differs: full run {:?}, prefix run {:?}", class, c)) } else { None };
                    CaseResult { fail: Some((hi - 1, c)), deltas: None, note }
                }
            }
        }
    }
}

#[derive(Clone, Debug)]
pub struct CaseResult {
    pub fail: Option<(usize, Err)>,
    pub deltas: Option<Deltas>,
    pub note: Option<String>,
}

/// Names (manifest bucket ids) that are live after `prefix`, assuming every op succeeded:
/// ids are allocated sequentially by the bucket-creating instructions.
pub fn live_buckets(prefix: &[Op]) -> Vec<u32> {
    let mut next = 0u32;
    let mut live: Vec<u32> = Vec::new();
    for op in prefix {
        match op {
            Op::TakeFromWorktop(..) | Op::TakeNFFromWorktop(..) | Op::TakeAllFromWorktop(..) => {
                live.push(next);
                next += 1;
            }
            Op::ReturnToWorktop(b) | Op::BurnBucket(b) | Op::Deposit(b) => live.retain(|x| x != b),
            _ => {}
        }
    }
    live
}

// ------------------------------------------------------------------------------------------------
// Coq printing
// ------------------------------------------------------------------------------------------------
pub fn coq_ids(ids: &[u64]) -> String {
    coq_list(ids.iter().map(|i| format!("{}", i)))
}
pub fn op_coq(op: &Op) -> String {
    match op {
        Op::Withdraw(r, a) => format!("OWithdraw {} {}", r, coq_z(a)),
        Op::WithdrawNF(r, ids) => format!("OWithdrawNF {} {}", r, coq_ids(ids)),
        Op::AcctBurn(r, a) => format!("OAcctBurn {} {}", r, coq_z(a)),
        Op::AcctBurnNF(r, ids) => format!("OAcctBurnNF {} {}", r, coq_ids(ids)),
        Op::AcctProofAmount(r, a) => format!("OAcctProofAmount {} {}", r, coq_z(a)),
        Op::AcctProofNF(r, ids) => format!("OAcctProofNF {} {}", r, coq_ids(ids)),
        Op::Recall(r, a) => format!("ORecall {} {}", r, coq_z(a)),
        Op::RecallNF(r, ids) => format!("ORecallNF {} {}", r, coq_ids(ids)),
        Op::PopAuthZone => "OPopAuthZone".into(),
        Op::PushAuthZone(p) => format!("OPushAuthZone {}", p),
        Op::CloneProof(p) => format!("OCloneProof {}", p),
        Op::DropProof(p) => format!("ODropProof {}", p),
        Op::DropAllProofs => "ODropAllProofs".into(),
        Op::DropNamedProofs => "ODropNamedProofs".into(),
        Op::DropAuthZoneProofs => "ODropAuthZoneProofs".into(),
        Op::TakeFromWorktop(r, a) => format!("OTakeFromWorktop {} {}", r, coq_z(a)),
        Op::TakeNFFromWorktop(r, ids) => format!("OTakeNFFromWorktop {} {}", r, coq_ids(ids)),
        Op::TakeAllFromWorktop(r) => format!("OTakeAllFromWorktop {}", r),
        Op::ReturnToWorktop(b) => format!("OReturnToWorktop {}", b),
        Op::BucketProofAmount(b, a) => format!("OBucketProofAmount {} {}", b, coq_z(a)),
        Op::BucketProofNF(b, ids) => format!("OBucketProofNF {} {}", b, coq_ids(ids)),
        Op::BucketProofAll(b) => format!("OBucketProofAll {}", b),
        Op::BurnBucket(b) => format!("OBurnBucket {}", b),
        Op::Deposit(b) => format!("ODeposit {}", b),
        Op::DepositBatch => "ODepositBatch".into(),
        Op::AssertContains(r, a) => format!("OAssertContains {} {}", r, coq_z(a)),
        Op::AssertContainsAny(r) => format!("OAssertContainsAny {}", r),
        Op::AssertContainsNF(r, ids) => format!("OAssertContainsNF {} {}", r, coq_ids(ids)),
    }
}

/// `(ops, result)` where result = `RFail idx class | ROk d0 d1 added removed`
pub fn case_coq(ops: &[Op], res: &CaseResult) -> String {
    let r = match (&res.fail, &res.deltas) {
        (Some((i, c)), _) => format!("RFail {} {}", i, c.coq()),
        (None, Some(d)) => format!(
            "ROk {} {} {} {}",
            coq_z(d.fung[0]),
            coq_z(d.fung[1]),
            coq_ids(&d.nf_added.iter().cloned().collect::<Vec<_>>()),
            coq_ids(&d.nf_removed.iter().cloned().collect::<Vec<_>>())
        ),
        (None, None) => "RRejected".to_string(),
    };
    format!("({}, {})", coq_list(ops.iter().map(op_coq)), r)
}
/// `(init, ops, result)` for Corr/C10_run.v `case`
pub fn case_coq3(init: &str, ops: &[Op], res: &CaseResult) -> String {
    let c = case_coq(ops, res);
    format!("({}, {}", init, &c[1..])
}

pub fn op_json(ops: &[Op]) -> Vec<String> {
    ops.iter().map(op_coq).collect()
}

pub type Bal = BTreeMap<usize, i128>;

// ------------------------------------------------------------------------------------------------
// Declarative oracle: plain accounting of "objects" (vaults, buckets) holding a total and the live
// proofs on them.  Availability is `total - max(proof amounts)` / `ids not under any proof`; it
// knows nothing about liquid/locked splits or lock counts.  Used (a) to steer generation towards
// boundaries and (b) as the direct property oracle: predicted first failure and final balances.
// ------------------------------------------------------------------------------------------------
#[derive(Clone, Debug, Default)]
pub struct Obj {
    pub res: usize,
    pub amt: i128,
    pub ids: BTreeSet<u64>,
    pub proofs: Vec<(usize, i128, BTreeSet<u64>)>, // (proof uid, amount, ids)
}
impl Obj {
    pub fn max_proof(&self) -> i128 {
        self.proofs.iter().map(|p| p.1).max().unwrap_or(0).max(0)
    }
    pub fn avail(&self) -> i128 {
        self.amt - self.max_proof()
    }
    pub fn proven_ids(&self) -> BTreeSet<u64> {
        self.proofs.iter().flat_map(|p| p.2.iter().cloned()).collect()
    }
    pub fn free_ids(&self) -> BTreeSet<u64> {
        self.ids.difference(&self.proven_ids()).cloned().collect()
    }
    pub fn is_empty(&self) -> bool {
        self.amt == 0 && self.ids.is_empty()
    }
}
#[derive(Clone, Copy, Debug, PartialEq, Eq, PartialOrd, Ord)]
pub enum Cref {
    Vault(usize),
    Obj(usize),
}
#[derive(Clone, Debug)]
pub struct Oracle {
    pub vaults: Vec<Obj>,
    pub objs: BTreeMap<usize, Obj>,
    pub worktop: [Option<usize>; NRES],
    pub named: BTreeMap<u32, usize>,
    pub pnamed: Vec<(u32, Cref, usize)>,
    pub azone: Vec<(Cref, usize)>,
    pub signed: bool,
    pub next_b: u32,
    pub next_p: u32,
    pub next_obj: usize,
    pub next_pr: usize,
    pub burned_f: [i128; 2],
    pub burned_n: BTreeSet<u64>,
    /// set when an op's effect is not determined by plain accounting (which ids a take-by-amount
    /// of a non-fungible picks): predictions stop there
    pub unknown: bool,
}
pub fn unit_of(res: usize) -> i128 {
    if res == 0 {
        1
    } else {
        CENT
    }
}
fn valid_amt(res: usize, a: i128) -> bool {
    a >= 0 && a % unit_of(res) == 0
}
fn set(ids: &[u64]) -> BTreeSet<u64> {
    ids.iter().cloned().collect()
}

impl Oracle {
    pub fn new(init_fung: [i128; 2], init_nf: &[u64]) -> Oracle {
        Oracle {
            vaults: vec![
                Obj { res: 0, amt: init_fung[0], ..Default::default() },
                Obj { res: 1, amt: init_fung[1], ..Default::default() },
                Obj { res: 2, ids: set(init_nf), ..Default::default() },
            ],
            objs: BTreeMap::new(),
            worktop: [None; NRES],
            named: BTreeMap::new(),
            pnamed: Vec::new(),
            azone: Vec::new(),
            signed: true,
            next_b: 0,
            next_p: 0,
            next_obj: 0,
            next_pr: 0,
            burned_f: [0; 2],
            burned_n: BTreeSet::new(),
            unknown: false,
        }
    }
    pub fn obj(&mut self, c: Cref) -> &mut Obj {
        match c {
            Cref::Vault(r) => &mut self.vaults[r],
            Cref::Obj(o) => self.objs.get_mut(&o).expect("live object"),
        }
    }
    pub fn obj_ref(&self, c: Cref) -> &Obj {
        match c {
            Cref::Vault(r) => &self.vaults[r],
            Cref::Obj(o) => self.objs.get(&o).expect("live object"),
        }
    }
    fn new_obj(&mut self, o: Obj) -> usize {
        let id = self.next_obj;
        self.next_obj += 1;
        self.objs.insert(id, o);
        id
    }
    fn name_bucket(&mut self, o: usize) {
        self.named.insert(self.next_b, o);
        self.next_b += 1;
    }
    fn name_proof(&mut self, c: Cref, pr: usize) {
        self.pnamed.push((self.next_p, c, pr));
        self.next_p += 1;
    }
    /// put object `o` on the worktop: an empty object disappears, otherwise it merges into the
    /// worktop's object of the same resource (only allowed when `o` carries no live proof)
    fn worktop_put(&mut self, o: usize) -> Result<(), String> {
        let ob = self.objs.get(&o).unwrap().clone();
        if ob.is_empty() {
            if !ob.proofs.is_empty() {
                return Err("empty bucket with proofs".into());
            }
            self.objs.remove(&o);
            return Ok(());
        }
        match self.worktop[ob.res] {
            None => {
                self.worktop[ob.res] = Some(o);
                Ok(())
            }
            Some(w) => {
                if !ob.proofs.is_empty() {
                    return Err("funds under a live proof would leave their bucket (merge)".into());
                }
                self.objs.remove(&o);
                let wo = self.objs.get_mut(&w).unwrap();
                wo.amt += ob.amt;
                wo.ids.extend(ob.ids);
                Ok(())
            }
        }
    }
    /// remove amount / ids from an object, respecting live proofs
    fn take_f(&mut self, c: Cref, a: i128) -> Result<(), String> {
        let o = self.obj(c);
        if !valid_amt(o.res, a) {
            return Err("invalid amount".into());
        }
        if a > o.avail() {
            return Err(format!("amount {} exceeds total {} - proven {}", a, o.amt, o.max_proof()));
        }
        o.amt -= a;
        Ok(())
    }
    fn take_n(&mut self, c: Cref, ids: &BTreeSet<u64>) -> Result<(), String> {
        let o = self.obj(c);
        if !ids.is_subset(&o.free_ids()) {
            return Err("ids missing or under a live proof".into());
        }
        for i in ids {
            o.ids.remove(i);
        }
        Ok(())
    }
    /// consume a whole object (deposit / burn / end of transaction): no live proof allowed
    fn consume(&mut self, o: usize) -> Result<Obj, String> {
        let ob = self.objs.get(&o).unwrap().clone();
        if !ob.proofs.is_empty() {
            return Err("funds under a live proof would leave their bucket".into());
        }
        self.objs.remove(&o);
        Ok(ob)
    }
    fn deposit(&mut self, o: usize) -> Result<(), String> {
        let ob = self.consume(o)?;
        let v = &mut self.vaults[ob.res];
        v.amt += ob.amt;
        v.ids.extend(ob.ids);
        Ok(())
    }
    fn burn(&mut self, o: usize) -> Result<(), String> {
        let ob = self.consume(o)?;
        if ob.res < 2 {
            self.burned_f[ob.res] += ob.amt;
        } else {
            self.burned_n.extend(ob.ids);
        }
        Ok(())
    }
    fn owner(&self) -> Result<(), String> {
        if self.signed {
            Ok(())
        } else {
            Err("signature proofs were dropped".into())
        }
    }
    fn add_proof_f(&mut self, c: Cref, a: i128) -> Result<usize, String> {
        let o = self.obj(c);
        if o.res == 2 {
            return Err("amount proof on non-fungible".into());
        }
        if !valid_amt(o.res, a) {
            return Err("invalid amount".into());
        }
        if a > o.amt {
            return Err("proof amount exceeds total".into());
        }
        if a == 0 {
            return Err("empty proof".into());
        }
        let pr = self.next_pr;
        self.next_pr += 1;
        self.obj(c).proofs.push((pr, a, BTreeSet::new()));
        Ok(pr)
    }
    fn add_proof_n(&mut self, c: Cref, ids: &BTreeSet<u64>) -> Result<usize, String> {
        let o = self.obj(c);
        if o.res != 2 {
            return Err("id proof on fungible".into());
        }
        if !ids.is_subset(&o.ids) {
            return Err("proof ids not in container".into());
        }
        if ids.is_empty() {
            return Err("empty proof".into());
        }
        let pr = self.next_pr;
        self.next_pr += 1;
        self.obj(c).proofs.push((pr, 0, ids.clone()));
        Ok(pr)
    }
    fn drop_pr(&mut self, c: Cref, pr: usize) {
        self.obj(c).proofs.retain(|p| p.0 != pr);
    }
    fn split(&mut self, res: usize, a: i128, ids: BTreeSet<u64>) -> usize {
        self.new_obj(Obj { res, amt: a, ids, proofs: vec![] })
    }

    pub fn step(&mut self, op: &Op) -> Result<(), String> {
        match op {
            Op::Withdraw(r, a) | Op::Recall(r, a) | Op::AcctBurn(r, a) => {
                if !matches!(op, Op::Recall(..)) {
                    self.owner()?;
                }
                if *r == 2 {
                    return Err("by-amount on non-fungible vault (not generated)".into());
                }
                self.take_f(Cref::Vault(*r), *a)?;
                let o = self.split(*r, *a, BTreeSet::new());
                if matches!(op, Op::AcctBurn(..)) {
                    self.burn(o)
                } else {
                    self.worktop_put(o)
                }
            }
            Op::WithdrawNF(r, ids) | Op::RecallNF(r, ids) | Op::AcctBurnNF(r, ids) => {
                if !matches!(op, Op::RecallNF(..)) {
                    self.owner()?;
                }
                if *r != 2 {
                    return Err("ids on fungible".into());
                }
                let ids = set(ids);
                self.take_n(Cref::Vault(*r), &ids)?;
                let o = self.split(*r, 0, ids);
                if matches!(op, Op::AcctBurnNF(..)) {
                    self.burn(o)
                } else {
                    self.worktop_put(o)
                }
            }
            Op::AcctProofAmount(r, a) => {
                self.owner()?;
                let pr = self.add_proof_f(Cref::Vault(*r), *a)?;
                self.azone.push((Cref::Vault(*r), pr));
                Ok(())
            }
            Op::AcctProofNF(r, ids) => {
                self.owner()?;
                let pr = self.add_proof_n(Cref::Vault(*r), &set(ids))?;
                self.azone.push((Cref::Vault(*r), pr));
                Ok(())
            }
            Op::PopAuthZone => {
                let (c, pr) = self.azone.pop().ok_or("auth zone empty")?;
                self.name_proof(c, pr);
                Ok(())
            }
            Op::PushAuthZone(p) => {
                let i = self.pnamed.iter().position(|x| x.0 == *p).ok_or("no such proof")?;
                let (_, c, pr) = self.pnamed.remove(i);
                self.azone.push((c, pr));
                Ok(())
            }
            Op::CloneProof(p) => {
                let (_, c, pr) = self.pnamed.iter().find(|x| x.0 == *p).cloned().ok_or("no such proof")?;
                let (_, a, ids) = self.obj_ref(c).proofs.iter().find(|x| x.0 == pr).cloned().unwrap();
                let npr = self.next_pr;
                self.next_pr += 1;
                self.obj(c).proofs.push((npr, a, ids));
                self.name_proof(c, npr);
                Ok(())
            }
            Op::DropProof(p) => {
                let i = self.pnamed.iter().position(|x| x.0 == *p).ok_or("no such proof")?;
                let (_, c, pr) = self.pnamed.remove(i);
                self.drop_pr(c, pr);
                Ok(())
            }
            Op::DropNamedProofs | Op::DropAllProofs | Op::DropAuthZoneProofs => {
                if !matches!(op, Op::DropAuthZoneProofs) {
                    for (_, c, pr) in std::mem::take(&mut self.pnamed) {
                        self.drop_pr(c, pr);
                    }
                }
                if !matches!(op, Op::DropNamedProofs) {
                    for (c, pr) in std::mem::take(&mut self.azone) {
                        self.drop_pr(c, pr);
                    }
                    self.signed = false;
                }
                Ok(())
            }
            Op::TakeFromWorktop(r, a) => {
                if *a == 0 {
                    let o = self.split(*r, 0, BTreeSet::new());
                    self.name_bucket(o);
                    return Ok(());
                }
                let w = self.worktop[*r].ok_or("worktop has none")?;
                let wo = self.objs.get(&w).unwrap().clone();
                let total = if *r == 2 { wo.ids.len() as i128 * UNIT } else { wo.amt };
                if *a > total {
                    return Err("more than the worktop holds".into());
                }
                if *a == total {
                    self.worktop[*r] = None;
                    self.name_bucket(w);
                    return Ok(());
                }
                if *r == 2 {
                    if *a < 0 || *a % UNIT != 0 {
                        return Err("invalid amount".into());
                    }
                    let n = (*a / UNIT) as usize;
                    if n > wo.free_ids().len() {
                        return Err("ids under proof".into());
                    }
                    self.unknown = true; // which ids are taken is an ordering detail
                    return Ok(());
                }
                self.take_f(Cref::Obj(w), *a)?;
                let o = self.split(*r, *a, BTreeSet::new());
                self.name_bucket(o);
                Ok(())
            }
            Op::TakeNFFromWorktop(r, ids) => {
                if ids.is_empty() {
                    let o = self.split(*r, 0, BTreeSet::new());
                    self.name_bucket(o);
                    return Ok(());
                }
                if *r != 2 {
                    return Err("ids on fungible".into());
                }
                let w = self.worktop[*r].ok_or("worktop has none")?;
                let wo = self.objs.get(&w).unwrap().clone();
                let ids = set(ids);
                if !ids.is_subset(&wo.ids) {
                    return Err("ids not on worktop".into());
                }
                if ids.len() == wo.ids.len() {
                    self.worktop[*r] = None;
                    self.name_bucket(w);
                    return Ok(());
                }
                self.take_n(Cref::Obj(w), &ids)?;
                let o = self.split(*r, 0, ids);
                self.name_bucket(o);
                Ok(())
            }
            Op::TakeAllFromWorktop(r) => {
                match self.worktop[*r].take() {
                    Some(w) => self.name_bucket(w),
                    None => {
                        let o = self.split(*r, 0, BTreeSet::new());
                        self.name_bucket(o);
                    }
                }
                Ok(())
            }
            Op::ReturnToWorktop(b) => {
                let o = self.named.remove(b).ok_or("no such bucket")?;
                self.worktop_put(o)
            }
            Op::BucketProofAmount(b, a) => {
                let o = *self.named.get(b).ok_or("no such bucket")?;
                let pr = self.add_proof_f(Cref::Obj(o), *a)?;
                self.name_proof(Cref::Obj(o), pr);
                Ok(())
            }
            Op::BucketProofNF(b, ids) => {
                let o = *self.named.get(b).ok_or("no such bucket")?;
                let pr = self.add_proof_n(Cref::Obj(o), &set(ids))?;
                self.name_proof(Cref::Obj(o), pr);
                Ok(())
            }
            Op::BucketProofAll(b) => {
                let o = *self.named.get(b).ok_or("no such bucket")?;
                let ob = self.objs.get(&o).unwrap().clone();
                let pr = if ob.res == 2 { self.add_proof_n(Cref::Obj(o), &ob.ids)? } else { self.add_proof_f(Cref::Obj(o), ob.amt)? };
                self.name_proof(Cref::Obj(o), pr);
                Ok(())
            }
            Op::BurnBucket(b) => {
                let o = self.named.remove(b).ok_or("no such bucket")?;
                self.burn(o)
            }
            Op::Deposit(b) => {
                let o = self.named.remove(b).ok_or("no such bucket")?;
                self.owner()?;
                self.deposit(o)
            }
            Op::DepositBatch => {
                let ws: Vec<usize> = self.worktop.iter_mut().filter_map(|w| w.take()).collect();
                self.owner()?;
                for w in ws {
                    self.deposit(w)?;
                }
                Ok(())
            }
            Op::AssertContains(r, a) => {
                let total = self.worktop_total(*r);
                if total < *a {
                    Err("assertion".into())
                } else {
                    Ok(())
                }
            }
            Op::AssertContainsAny(r) => {
                if self.worktop_total(*r) == 0 {
                    Err("assertion".into())
                } else {
                    Ok(())
                }
            }
            Op::AssertContainsNF(r, ids) => {
                let have = self.worktop[*r].map(|w| self.objs.get(&w).unwrap().ids.clone()).unwrap_or_default();
                if set(ids).is_subset(&have) {
                    Ok(())
                } else {
                    Err("assertion".into())
                }
            }
        }
    }
    pub fn worktop_total(&self, r: usize) -> i128 {
        match self.worktop[r] {
            None => 0,
            Some(w) => {
                let o = self.objs.get(&w).unwrap();
                if r == 2 {
                    o.ids.len() as i128 * UNIT
                } else {
                    o.amt
                }
            }
        }
    }
    /// end of transaction: everything taken must have been deposited, burned or returned, i.e.
    /// no non-empty bucket may remain anywhere and no bucket at all may remain named; worktop
    /// buckets are dropped before the remaining proofs are
    pub fn finish(&mut self) -> Result<(), String> {
        for r in 0..NRES {
            if let Some(w) = self.worktop[r].take() {
                let ob = self.consume(w)?;
                if !ob.is_empty() {
                    return Err("resources left on the worktop".into());
                }
            }
        }
        if !self.named.is_empty() {
            return Err("bucket left over".into());
        }
        Ok(())
    }
    pub fn deltas(&self, init_fung: [i128; 2], init_nf: &[u64]) -> Deltas {
        let init: BTreeSet<u64> = set(init_nf);
        Deltas {
            fung: [self.vaults[0].amt - init_fung[0], self.vaults[1].amt - init_fung[1]],
            nf_added: self.vaults[2].ids.difference(&init).cloned().collect(),
            nf_removed: init.difference(&self.vaults[2].ids).cloned().collect(),
            ..Default::default()
        }
    }
}

/// Oracle verdict for a whole case: first failing index (ops.len() = end) or final deltas;
/// None when the oracle could not decide (unknown).
pub fn oracle_predict(init_fung: [i128; 2], init_nf: &[u64], ops: &[Op]) -> Option<(Option<(usize, String)>, Option<Deltas>, Oracle)> {
    let mut o = Oracle::new(init_fung, init_nf);
    for (i, op) in ops.iter().enumerate() {
        if let Err(e) = o.step(op) {
            return Some((Some((i, e)), None, o));
        }
        if o.unknown {
            return None;
        }
    }
    if let Err(e) = o.finish() {
        return Some((Some((ops.len(), e)), None, o));
    }
    let d = o.deltas(init_fung, init_nf);
    Some((None, Some(d), o))
}

// ------------------------------------------------------------------------------------------------
// Deterministic "proof order" family: 3-4 live proofs on ONE container over the amount multisets
// {a,a,b}, {a,b,b}, {a,b,c}, {a,a,a,b} (a<b<c), created in every order (equal amounts alternately by
// a second create and by a clone), then one or two proofs dropped in every order (LIFO and
// non-LIFO), then: a removal of exactly total-max, of total-max+1 step, of total-second_max, and a
// new proof of the whole amount followed by dropping everything (final balance must be unchanged).
// Containers: account vault (withdraw / burn / recall in rotation) and a bucket (split off the
// worktop); plus the non-fungible analogue over overlapping id sets.
// ------------------------------------------------------------------------------------------------
fn permutations<T: Clone + PartialEq>(xs: &[T]) -> Vec<Vec<T>> {
    if xs.len() <= 1 {
        return vec![xs.to_vec()];
    }
    let mut out: Vec<Vec<T>> = Vec::new();
    for i in 0..xs.len() {
        let mut rest = xs.to_vec();
        let x = rest.remove(i);
        for mut p in permutations(&rest) {
            p.insert(0, x.clone());
            if !out.contains(&p) {
                out.push(p);
            }
        }
    }
    out
}
/// all ordered selections of 1 or 2 distinct indices out of k
fn drop_orders(k: usize) -> Vec<Vec<usize>> {
    let mut v = Vec::new();
    for i in 0..k {
        v.push(vec![i]);
    }
    for i in 0..k {
        for j in 0..k {
            if i != j {
                v.push(vec![i, j]);
            }
        }
    }
    v
}

pub fn proof_order_family(vault: bool, multisets: &[Vec<i128>]) -> Vec<(&'static str, Vec<Op>)> {
    use Op::*;
    let mut out: Vec<(&'static str, Vec<Op>)> = Vec::new();
    let total: i128 = if vault { 1000 * UNIT } else { 10 * UNIT };
    let scale: i128 = if vault { 100 * UNIT } else { UNIT };
    let mut n = 0usize;
    for ms in multisets {
        for perm in permutations(ms) {
            for drops in drop_orders(perm.len()) {
                // create: proof i has amount perm[i] * scale and manifest name i
                let mut pre: Vec<Op> = if vault { vec![] } else { vec![Withdraw(0, total), TakeFromWorktop(0, total)] };
                for (i, a) in perm.iter().enumerate() {
                    let earlier = perm[..i].iter().position(|x| x == a);
                    match earlier {
                        Some(e) if (n + i) % 2 == 1 => pre.push(CloneProof(e as u32)),
                        _ => {
                            if vault {
                                pre.push(AcctProofAmount(0, a * scale));
                                pre.push(PopAuthZone);
                            } else {
                                pre.push(BucketProofAmount(0, a * scale));
                            }
                        }
                    }
                }
                for d in &drops {
                    pre.push(DropProof(*d as u32));
                }
                let mut remaining: Vec<i128> = perm.iter().enumerate().filter(|(i, _)| !drops.contains(i)).map(|(_, a)| *a * scale).collect();
                remaining.sort();
                let max = *remaining.last().unwrap();
                let second: i128 = remaining.iter().cloned().filter(|x| *x < max).max().unwrap_or(0);
                let step = 1i128;
                for (fi, x) in [total - max, total - max + step, total - second].iter().enumerate() {
                    let mut ops = pre.clone();
                    if vault {
                        ops.push(match (n + fi) % 3 {
                            0 => Withdraw(0, *x),
                            1 => Recall(0, *x),
                            _ => AcctBurn(0, *x),
                        });
                        ops.push(DropNamedProofs);
                        ops.push(DepositBatch);
                    } else {
                        ops.push(ReturnToWorktop(0));
                        ops.push(TakeFromWorktop(0, *x));
                        ops.push(DropNamedProofs);
                        ops.push(Deposit(1));
                        ops.push(DepositBatch);
                    }
                    out.push((if vault { "ord_vault_removal" } else { "ord_bucket_removal" }, ops));
                }
                // a new proof in the perturbed state, then everything dropped: balances unchanged
                let mut ops = pre.clone();
                if vault {
                    ops.push(AcctProofAmount(0, total));
                    ops.push(PopAuthZone);
                    ops.push(DropNamedProofs);
                    ops.push(Withdraw(0, total));
                    ops.push(DepositBatch);
                } else {
                    ops.push(BucketProofAmount(0, total));
                    ops.push(DropNamedProofs);
                    ops.push(Deposit(0));
                }
                out.push((if vault { "ord_vault_new_proof" } else { "ord_bucket_new_proof" }, ops));
                n += 1;
            }
        }
    }
    out
}

/// non-fungible analogue: overlapping id sets, every creation order, every drop order of 1-2
/// proofs, then a removal of one id that must be free and of one that must still be locked
pub fn proof_order_family_nf() -> Vec<(&'static str, Vec<Op>)> {
    use Op::*;
    let a: Vec<u64> = vec![1, 2];
    let b: Vec<u64> = vec![2, 3];
    let c: Vec<u64> = vec![3, 4, 5];
    let multisets: Vec<Vec<Vec<u64>>> = vec![vec![a.clone(), a.clone(), b.clone()], vec![a.clone(), b.clone(), b.clone()], vec![a.clone(), b.clone(), c.clone()]];
    let mut out: Vec<(&'static str, Vec<Op>)> = Vec::new();
    let mut n = 0usize;
    for ms in &multisets {
        for perm in permutations(ms) {
            for drops in drop_orders(perm.len()) {
                let mut pre: Vec<Op> = Vec::new();
                for (i, ids) in perm.iter().enumerate() {
                    let earlier = perm[..i].iter().position(|x| x == ids);
                    match earlier {
                        Some(e) if (n + i) % 2 == 1 => pre.push(CloneProof(e as u32)),
                        _ => {
                            pre.push(AcctProofNF(2, ids.clone()));
                            pre.push(PopAuthZone);
                        }
                    }
                }
                for d in &drops {
                    pre.push(DropProof(*d as u32));
                }
                let still: BTreeSet<u64> = perm.iter().enumerate().filter(|(i, _)| !drops.contains(i)).flat_map(|(_, ids)| ids.iter().cloned()).collect();
                let freed: Vec<u64> = perm.iter().enumerate().filter(|(i, _)| drops.contains(i)).flat_map(|(_, ids)| ids.iter().cloned()).filter(|x| !still.contains(x)).collect();
                let mut targets: Vec<Vec<u64>> = vec![if n % 2 == 0 { vec![*still.iter().next().unwrap()] } else { vec![8, *still.iter().last().unwrap()] }];
                if let Some(f) = freed.first() {
                    targets.push(vec![*f]);
                } else {
                    targets.push(vec![*still.iter().last().unwrap()]);
                }
                for (fi, ids) in targets.into_iter().enumerate() {
                    let mut ops = pre.clone();
                    ops.push(match (n + fi) % 3 {
                        0 => WithdrawNF(2, ids),
                        1 => RecallNF(2, ids),
                        _ => AcctBurnNF(2, ids),
                    });
                    ops.push(DropNamedProofs);
                    ops.push(DepositBatch);
                    out.push(("ord_nf_removal", ops));
                }
                n += 1;
            }
        }
    }
    out
}

pub fn class_floors(report: &mut Report, bnd: &[(&'static str, Vec<Op>)]) {
    let mut per_class: BTreeMap<&str, u64> = Default::default();
    for (c, _) in bnd {
        *per_class.entry(*c).or_insert(0) += 1;
    }
    for (c, n) in per_class {
        report.floor(c, n);
    }
}
