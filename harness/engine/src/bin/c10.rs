//! C10 correspondence harness: random interleavings of proof creation (account vault and bucket
//! containers, by amount / by ids / of all), clone, drop, withdraw, burn, recall, take, return and
//! deposit, executed as real transactions by the engine; the Coq model (Model/C09_Worktop.v over
//! Model/C10_ProofLock.v) is evaluated on the same op lists.
//! Direct oracle: declarative accounting (`txsim::Oracle`): a removal succeeds iff it fits in
//! `total - max(live proof amounts)` (ids: not under any live proof), whole containers can only be
//! consumed without live proofs; compared with the engine's first failing step and final balances.
#[path = "../txsim.rs"]
mod txsim;
use serde_json::json;
use txsim::*;
use vh_common::*;

struct Gen<'a> {
    rng: &'a mut Rng,
    o: Oracle,
    ops: Vec<Op>,
}

impl<'a> Gen<'a> {
    fn amount_near(&mut self, res: usize, pivot: i128, total: i128) -> i128 {
        let u = unit_of(res);
        let big = if res == 0 { UNIT } else { CENT };
        match self.rng.below(12) {
            0 | 1 | 2 => pivot,
            3 => pivot + u,
            4 => pivot - u,
            5 => pivot + big,
            6 => (pivot - big).max(0),
            7 => {
                let k = (pivot / big).max(1);
                (self.rng.below(k as u64 + 1) as i128) * big
            }
            8 => total,
            9 => big * (1 + self.rng.below(20) as i128),
            10 => match self.rng.below(4) {
                0 => 0,
                1 => -u,
                2 => pivot + 1, // one atto: invalid for divisibility 2
                _ => total + u,
            },
            _ => {
                let k = (total / big).max(1);
                (self.rng.below(k as u64 + 1) as i128) * big
            }
        }
    }
    fn some_ids(&mut self, from: &[u64], allow_bad: bool) -> Vec<u64> {
        let mut pool: Vec<u64> = from.to_vec();
        if allow_bad && self.rng.chance(1, 8) {
            pool.push(*self.rng.pick(&[1u64, 2, 3, 4, 5, 6, 7, 8, 9]));
            pool.sort();
            pool.dedup();
        }
        if pool.is_empty() {
            return if self.rng.chance(1, 2) { vec![] } else { vec![self.rng.range(1, 9)] };
        }
        self.rng.shuffle(&mut pool);
        let n = match self.rng.below(6) {
            0 => pool.len(),
            1 => 0,
            _ => 1 + self.rng.usize_below(pool.len().min(3)),
        };
        pool.truncate(n);
        pool
    }
    fn named_bucket(&mut self, bad_den: u64) -> u32 {
        let names: Vec<u32> = self.o.named.keys().cloned().collect();
        if names.is_empty() || self.rng.chance(1, bad_den) {
            self.rng.below(self.o.next_b as u64 + 2) as u32
        } else {
            *self.rng.pick(&names)
        }
    }
    fn named_proof(&mut self, bad_den: u64) -> u32 {
        let names: Vec<u32> = self.o.pnamed.iter().map(|x| x.0).collect();
        if names.is_empty() || self.rng.chance(1, bad_den) {
            self.rng.below(self.o.next_p as u64 + 2) as u32
        } else {
            *self.rng.pick(&names)
        }
    }
    fn next_op(&mut self) -> Op {
        let r = self.rng.usize_below(NRES);
        let v = self.o.vaults[r].clone();
        let free: Vec<u64> = v.free_ids().into_iter().collect();
        let all: Vec<u64> = v.ids.iter().cloned().collect();
        let has_bucket = !self.o.named.is_empty();
        let has_proof = !self.o.pnamed.is_empty();
        // a named bucket with a live proof: try to move it out from under the proof
        let locked: Vec<u32> = self.o.named.iter().filter(|(_, o)| !self.o.objs[*o].proofs.is_empty()).map(|(b, _)| *b).collect();
        if !locked.is_empty() && self.rng.chance(1, 5) {
            let b = *self.rng.pick(&locked);
            return match self.rng.below(3) {
                0 => Op::BurnBucket(b),
                1 => Op::Deposit(b),
                _ => Op::ReturnToWorktop(b),
            };
        }
        // steer towards bucket-with-proof situations
        let on_worktop: Vec<usize> = (0..NRES).filter(|r| self.o.worktop[*r].is_some()).collect();
        if !on_worktop.is_empty() && self.o.named.len() < 2 && self.rng.chance(1, 4) {
            let r = *self.rng.pick(&on_worktop);
            let total = self.o.worktop_total(r);
            return if r == 2 || self.rng.chance(1, 2) { Op::TakeAllFromWorktop(r) } else { Op::TakeFromWorktop(r, self.amount_near(r, total / 2 / UNIT * UNIT, total)) };
        }
        let unlocked: Vec<u32> = self.o.named.iter().filter(|(_, o)| self.o.objs[*o].proofs.is_empty() && !self.o.objs[*o].is_empty()).map(|(b, _)| *b).collect();
        if !unlocked.is_empty() && self.rng.chance(1, 4) {
            return Op::BucketProofAll(*self.rng.pick(&unlocked));
        }
        let mut k = self.rng.below(100);
        // redirect choices that need a named proof / bucket when there is none
        if (48..64).contains(&k) && !has_proof {
            k = if self.o.azone.is_empty() { self.rng.below(40) } else { 44 };
        }
        if (76..96).contains(&k) && !has_bucket {
            k = if self.rng.chance(1, 2) { 70 } else { self.rng.below(40) };
        }
        if k < 18 {
            // proof on the vault
            if r == 2 {
                Op::AcctProofNF(r, self.some_ids(&all, true))
            } else {
                let pivot = if v.proofs.is_empty() || self.rng.chance(1, 2) { v.amt } else { v.max_proof() };
                Op::AcctProofAmount(r, self.amount_near(r, pivot, v.amt))
            }
        } else if k < 40 {
            // removal from the vault, aimed at the availability boundary
            let kind = self.rng.below(if r == 1 { 2 } else { 3 });
            if r == 2 {
                let from = if self.rng.chance(3, 4) { free } else { all };
                let ids = self.some_ids(&from, true);
                match kind {
                    0 => Op::WithdrawNF(r, ids),
                    1 => Op::AcctBurnNF(r, ids),
                    _ => Op::RecallNF(r, ids),
                }
            } else {
                let a = self.amount_near(r, v.avail(), v.amt);
                match kind {
                    0 => Op::Withdraw(r, a),
                    1 => Op::AcctBurn(r, a),
                    _ => Op::Recall(r, a),
                }
            }
        } else if k < 48 {
            Op::PopAuthZone
        } else if k < 54 {
            Op::CloneProof(self.named_proof(25))
        } else if k < 62 {
            Op::DropProof(self.named_proof(25))
        } else if k < 64 {
            Op::PushAuthZone(self.named_proof(25))
        } else if k < 66 {
            match self.rng.below(8) {
                0 => Op::DropAllProofs,
                1 => Op::DropAuthZoneProofs,
                _ => Op::DropNamedProofs,
            }
        } else if k < 76 {
            // take from the worktop
            let total = self.o.worktop_total(r);
            if r == 2 {
                let have: Vec<u64> = self.o.worktop[r].map(|w| self.o.objs[&w].ids.iter().cloned().collect()).unwrap_or_default();
                if self.rng.chance(1, 4) {
                    Op::TakeAllFromWorktop(r)
                } else {
                    Op::TakeNFFromWorktop(r, self.some_ids(&have, true))
                }
            } else {
                let avail = self.o.worktop[r].map(|w| self.o.objs[&w].avail()).unwrap_or(0);
                match self.rng.below(5) {
                    0 => Op::TakeAllFromWorktop(r),
                    1 => Op::TakeFromWorktop(r, total),
                    _ => Op::TakeFromWorktop(r, self.amount_near(r, avail, total)),
                }
            }
        } else if k < 86 {
            // proof on a bucket
            let b = self.named_bucket(25);
            match self.o.named.get(&b).map(|o| self.o.objs[o].clone()) {
                Some(ob) if ob.res == 2 => {
                    if self.rng.chance(1, 3) {
                        Op::BucketProofAll(b)
                    } else {
                        let ids: Vec<u64> = ob.ids.iter().cloned().collect();
                        Op::BucketProofNF(b, self.some_ids(&ids, true))
                    }
                }
                Some(ob) => {
                    if self.rng.chance(1, 3) {
                        Op::BucketProofAll(b)
                    } else {
                        let pivot = if ob.proofs.is_empty() || self.rng.chance(1, 2) { ob.amt } else { ob.max_proof() };
                        Op::BucketProofAmount(b, self.amount_near(ob.res, pivot, ob.amt))
                    }
                }
                None => Op::BucketProofAll(b),
            }
        } else if k < 96 {
            let b = self.named_bucket(25);
            match self.rng.below(4) {
                0 => Op::BurnBucket(b),
                1 => Op::Deposit(b),
                _ => Op::ReturnToWorktop(b),
            }
        } else {
            Op::DepositBatch
        }
    }
}


/// Deterministic boundary family (identical for every seed): overlapping proofs of equal and of
/// different amounts dropped in both orders, clones, amounts exactly at / one unit beyond every
/// comparison (total, total - max proof, divisibility unit, zero, negative), overlapping id proofs,
/// buckets under proofs moved / split / merged / consumed / left over.
fn boundary_cases() -> Vec<(&'static str, Vec<Op>)> {
    use Op::*;
    let t0 = 1000 * UNIT;
    let t1 = 500 * UNIT;
    let mut v: Vec<(&'static str, Vec<Op>)> = Vec::new();
    let tidy = |mut ops: Vec<Op>| {
        ops.push(DepositBatch);
        ops
    };
    // two proofs of the same amount: dropping one must keep the amount locked
    for (drops, w) in [(1, 600 * UNIT), (1, 600 * UNIT + 1), (2, t0), (2, t0 + 1), (0, 600 * UNIT), (0, 600 * UNIT + 1)] {
        let mut ops = vec![AcctProofAmount(0, 400 * UNIT), AcctProofAmount(0, 400 * UNIT), PopAuthZone, PopAuthZone];
        for d in 0..drops {
            ops.push(DropProof(d));
        }
        ops.push(Withdraw(0, w));
        v.push(("bnd_same_amount", tidy(ops)));
    }
    // different amounts: the locked maximum must be recomputed from the remaining proofs
    for (first, second) in [(300 * UNIT, 700 * UNIT), (700 * UNIT, 300 * UNIT)] {
        for drop_big in [true, false] {
            for over in [0i128, 1] {
                // after Pop, Pop: proof 0 = second, proof 1 = first
                let (big_name, small_name) = if second > first { (0u32, 1u32) } else { (1, 0) };
                let (dropped, remaining) = if drop_big { (big_name, first.min(second)) } else { (small_name, first.max(second)) };
                let ops = vec![AcctProofAmount(0, first), AcctProofAmount(0, second), PopAuthZone, PopAuthZone, DropProof(dropped), Withdraw(0, t0 - remaining + over)];
                v.push(("bnd_max_recompute", tidy(ops)));
            }
        }
    }
    for over in [0i128, 1] {
        v.push(("bnd_max_recompute", tidy(vec![AcctProofAmount(0, 200 * UNIT), AcctProofAmount(0, 500 * UNIT), AcctProofAmount(0, 500 * UNIT), PopAuthZone, DropProof(0), Withdraw(0, 500 * UNIT + over)])));
        v.push(("bnd_max_recompute", tidy(vec![AcctProofAmount(0, 200 * UNIT), AcctProofAmount(0, 500 * UNIT), PopAuthZone, DropProof(0), PopAuthZone, DropProof(1), AcctProofAmount(0, 100 * UNIT), Withdraw(0, 900 * UNIT + over)])));
        // clone, drop the original
        v.push(("bnd_clone", tidy(vec![AcctProofAmount(0, 400 * UNIT), PopAuthZone, CloneProof(0), DropProof(0), Withdraw(0, 600 * UNIT + over)])));
        v.push(("bnd_clone", tidy(vec![AcctProofAmount(0, 400 * UNIT), PopAuthZone, CloneProof(0), CloneProof(1), DropProof(0), DropProof(2), DropProof(1), Withdraw(0, t0 + over)])));
        v.push(("bnd_clone", tidy(vec![AcctProofAmount(0, 400 * UNIT), PopAuthZone, CloneProof(0), PushAuthZone(1), DropProof(0), PopAuthZone, DropProof(2), Recall(0, t0 + over)])));
        // removals exactly at total - max(proofs)
        v.push(("bnd_removal", tidy(vec![AcctProofAmount(0, 999 * UNIT), Withdraw(0, UNIT + over)])));
        v.push(("bnd_removal", vec![AcctProofAmount(0, 999 * UNIT), AcctBurn(0, UNIT + over)]));
        v.push(("bnd_removal", tidy(vec![AcctProofAmount(0, 999 * UNIT), Recall(0, UNIT + over)])));
        v.push(("bnd_removal", tidy(vec![AcctProofAmount(0, t0), Withdraw(0, over)])));
        v.push(("bnd_removal", tidy(vec![Withdraw(0, 400 * UNIT), AcctProofAmount(0, 600 * UNIT + over)])));
        v.push(("bnd_removal", tidy(vec![AcctProofAmount(1, 499 * UNIT), Withdraw(1, UNIT + over * CENT)])));
        v.push(("bnd_removal", tidy(vec![AcctProofAmount(1, t1 - CENT), Withdraw(1, CENT + over)])));
    }
    // proof amounts: total, total + unit, zero, negative, divisibility
    for a in [t0, t0 + 1, t0 - 1, 0, -1, 1] {
        v.push(("bnd_proof_amount", vec![AcctProofAmount(0, a)]));
    }
    for a in [t1, t1 + CENT, t1 - CENT, CENT, CENT - 1, CENT + 1, 1, 0, -CENT, 2 * CENT] {
        v.push(("bnd_proof_amount", vec![AcctProofAmount(1, a)]));
        v.push(("bnd_proof_amount", tidy(vec![Withdraw(1, a)])));
    }
    // non-fungible: overlapping id proofs
    let nf: Vec<(Vec<Op>, Vec<u64>)> = vec![
        (vec![AcctProofNF(2, vec![1, 2]), AcctProofNF(2, vec![2, 3])], vec![4]),
        (vec![AcctProofNF(2, vec![1, 2]), AcctProofNF(2, vec![2, 3])], vec![2]),
        (vec![AcctProofNF(2, vec![1, 2]), AcctProofNF(2, vec![2, 3])], vec![4, 1]),
        (vec![AcctProofNF(2, vec![1, 2]), AcctProofNF(2, vec![2, 3]), PopAuthZone, DropProof(0)], vec![3]),
        (vec![AcctProofNF(2, vec![1, 2]), AcctProofNF(2, vec![2, 3]), PopAuthZone, DropProof(0)], vec![2]),
        (vec![AcctProofNF(2, vec![1, 2]), AcctProofNF(2, vec![2, 3]), PopAuthZone, PopAuthZone, DropProof(1)], vec![1]),
        (vec![AcctProofNF(2, vec![1, 2]), AcctProofNF(2, vec![2, 3]), PopAuthZone, PopAuthZone, DropProof(1)], vec![2]),
        (vec![AcctProofNF(2, vec![1, 2]), AcctProofNF(2, vec![2, 3]), PopAuthZone, PopAuthZone, DropProof(1), DropProof(0)], vec![2, 1, 3]),
        (vec![AcctProofNF(2, vec![5]), AcctProofNF(2, vec![5]), PopAuthZone, DropProof(0)], vec![5]),
        (vec![AcctProofNF(2, vec![5]), AcctProofNF(2, vec![5]), PopAuthZone, DropProof(0), PopAuthZone, DropProof(1)], vec![5]),
        (vec![AcctProofNF(2, vec![5]), PopAuthZone, CloneProof(0), DropProof(0)], vec![5]),
        (vec![AcctProofNF(2, vec![1, 2, 3, 4, 5, 6, 7, 8])], vec![8]),
        (vec![AcctProofNF(2, vec![1, 2, 3, 4, 5, 6, 7, 8]), PopAuthZone, DropProof(0)], vec![8, 1]),
    ];
    for (pre, ids) in nf {
        for kind in 0..3 {
            let mut ops = pre.clone();
            ops.push(match kind {
                0 => WithdrawNF(2, ids.clone()),
                1 => RecallNF(2, ids.clone()),
                _ => AcctBurnNF(2, ids.clone()),
            });
            v.push(("bnd_nf_proofs", tidy(ops)));
        }
    }
    for ids in [vec![], vec![9], vec![1, 9], vec![8]] {
        v.push(("bnd_nf_proofs", vec![AcctProofNF(2, ids)]));
    }
    // buckets under proofs
    let b0 = vec![Withdraw(0, 10 * UNIT), TakeFromWorktop(0, 10 * UNIT)];
    let with = |extra: Vec<Op>| {
        let mut o = b0.clone();
        o.extend(extra);
        o
    };
    for over in [0i128, 1] {
        v.push(("bnd_bucket", with(vec![BucketProofAmount(0, 6 * UNIT), ReturnToWorktop(0), TakeFromWorktop(0, 4 * UNIT + over), DropNamedProofs, Deposit(1), DepositBatch])));
        v.push(("bnd_bucket", with(vec![BucketProofAmount(0, 10 * UNIT + over), DropNamedProofs, Deposit(0)])));
        v.push(("bnd_bucket", with(vec![BucketProofAll(0), ReturnToWorktop(0), TakeFromWorktop(0, 10 * UNIT + over), DropNamedProofs, Deposit(1)])));
    }
    v.push(("bnd_bucket", with(vec![BucketProofAll(0), Deposit(0)])));
    v.push(("bnd_bucket", with(vec![BucketProofAll(0), BurnBucket(0)])));
    v.push(("bnd_bucket", with(vec![BucketProofAll(0), ReturnToWorktop(0)])));
    v.push(("bnd_bucket", with(vec![BucketProofAll(0), ReturnToWorktop(0), DropNamedProofs])));
    v.push(("bnd_bucket", with(vec![BucketProofAll(0), ReturnToWorktop(0), DropNamedProofs, DepositBatch])));
    v.push(("bnd_bucket", with(vec![BucketProofAll(0), ReturnToWorktop(0), DepositBatch])));
    v.push(("bnd_bucket", vec![Withdraw(0, 10 * UNIT), TakeFromWorktop(0, 4 * UNIT), BucketProofAll(0), ReturnToWorktop(0)]));
    v.push(("bnd_bucket", with(vec![BucketProofAll(0), CloneProof(0), DropProof(0), Deposit(0)])));
    v.push(("bnd_bucket", with(vec![BucketProofAll(0), CloneProof(0), DropProof(0), DropProof(1), Deposit(0)])));
    v.push(("bnd_bucket", with(vec![BucketProofAmount(0, 3 * UNIT), BucketProofAmount(0, 3 * UNIT), DropProof(0), Deposit(0)])));
    v.push(("bnd_bucket", with(vec![BucketProofAmount(0, 3 * UNIT), BucketProofAmount(0, 7 * UNIT), DropProof(1), ReturnToWorktop(0), TakeFromWorktop(0, 7 * UNIT), TakeFromWorktop(0, 1), DropNamedProofs, DepositBatch, Deposit(1)])));
    v.push(("bnd_bucket", vec![TakeFromWorktop(0, 0), BucketProofAll(0)]));
    v.push(("bnd_bucket", vec![WithdrawNF(2, vec![1, 2, 3]), TakeAllFromWorktop(2), BucketProofNF(0, vec![2]), ReturnToWorktop(0), TakeNFFromWorktop(2, vec![1, 3]), DropNamedProofs, Deposit(1), DepositBatch]));
    v.push(("bnd_bucket", vec![WithdrawNF(2, vec![1, 2, 3]), TakeAllFromWorktop(2), BucketProofNF(0, vec![2]), ReturnToWorktop(0), TakeNFFromWorktop(2, vec![2])]));
    v.push(("bnd_bucket", vec![WithdrawNF(2, vec![1, 2, 3]), TakeAllFromWorktop(2), BucketProofNF(0, vec![2]), ReturnToWorktop(0), TakeFromWorktop(2, 2 * UNIT), TakeFromWorktop(2, UNIT)]));
    v.push(("bnd_bucket", vec![WithdrawNF(2, vec![1, 2, 3]), TakeAllFromWorktop(2), BucketProofAll(0), BucketProofNF(0, vec![4]), Deposit(0)]));
    v
}

fn gen_case(rng: &mut Rng, init_fung: [i128; 2], init_nf: &[u64]) -> Vec<Op> {
    let len = if rng.chance(1, 8) { rng.range(1, 5) } else { rng.range(6, 28) } as usize;
    let tidy = rng.chance(3, 4);
    let mut g = Gen { rng, o: Oracle::new(init_fung, init_nf), ops: Vec::new() };
    for _ in 0..len {
        let op = g.next_op();
        let mut trial = g.o.clone();
        let ok = trial.step(&op).is_ok() && !trial.unknown;
        // keep most predicted failures out of the middle of a run (they end it), but let some in
        let on_locked = matches!(&op, Op::BurnBucket(b) | Op::Deposit(b) | Op::ReturnToWorktop(b) if g.o.named.get(b).map(|o| !g.o.objs[o].proofs.is_empty()).unwrap_or(false));
        if !ok && !on_locked && !g.rng.chance(1, 4) {
            continue;
        }
        g.ops.push(op.clone());
        if !ok {
            return g.ops;
        }
        g.o = trial;
    }
    if tidy {
        // a proper ending: drop proofs (keeping the signature), deposit everything
        g.ops.push(Op::DropNamedProofs);
        while !g.o.azone.is_empty() {
            g.ops.push(Op::PopAuthZone);
            let _ = g.o.step(&Op::PopAuthZone);
            let p = g.o.pnamed.last().unwrap().0;
            g.ops.push(Op::DropProof(p));
            let _ = g.o.step(&Op::DropProof(p));
        }
        let names: Vec<u32> = g.o.named.keys().cloned().collect();
        for b in names {
            g.ops.push(if g.rng.chance(1, 2) { Op::Deposit(b) } else { Op::ReturnToWorktop(b) });
        }
        g.ops.push(Op::DepositBatch);
    }
    g.ops
}

fn main() {
    let args = Args::parse();
    let mut report = Report::new(
        "C10",
        args.seed,
        "random manifests (6..28 ops) over an account holding 2 fungibles (divisibility 18 and 2) and 8 non-fungibles: \
         proofs on vaults and buckets by amount / ids / all, clone, drop, withdraw, burn, recall, take, return, deposit, \
         amounts aimed at total - max(proofs) +/- one unit; non-trivial = a removal or consumption was attempted while \
         a proof on the same container was alive; distinct by canonical text of the op list",
    );
    let mut cw = CaseWriter::new("RV.Corr.C10_run RV.Model.C10_ProofLock RV.Model.C09_Worktop", "check");
    let root = Rng::new(args.seed);
    let mut sim = Sim::new();
    let (init_fung, init_nf) = (sim.init_fung, sim.init_nf.clone());
    let init_coq = format!("({}, {}, {})", coq_z(init_fung[0]), coq_z(init_fung[1]), coq_ids(&init_nf));
    let mut bnd = boundary_cases();
    let (a, b, c) = (2i128, 3i128, 5i128);
    let ms = vec![vec![a, a, b], vec![a, b, b], vec![a, b, c], vec![a, a, a, b]];
    bnd.extend(proof_order_family(true, &ms));
    bnd.extend(proof_order_family(false, &[ms[0].clone(), ms[2].clone()]));
    bnd.extend(proof_order_family_nf());
    for i in 0..(args.cases + bnd.len()) {
        let mut rng = root.fork(i as u64);
        let ops = match bnd.get(i) {
            Some((class, ops)) => {
                report.count(class);
                ops.clone()
            }
            None => {
                report.count("random_cases");
                gen_case(&mut rng, init_fung, &init_nf)
            }
        };
        let res = sim.run_case(&ops);
        let canon = op_json(&ops).join(";");
        // non-trivial: some removal / consumption op executed while a proof was alive on that container
        let mut o = Oracle::new(init_fung, &init_nf);
        let mut under_proof = false;
        let mut proofs_made = 0u64;
        for op in &ops {
            let live = o.vaults.iter().any(|v| !v.proofs.is_empty()) || o.objs.values().any(|b| !b.proofs.is_empty());
            if live
                && matches!(
                    op,
                    Op::Withdraw(..) | Op::WithdrawNF(..) | Op::AcctBurn(..) | Op::AcctBurnNF(..) | Op::Recall(..) | Op::RecallNF(..)
                        | Op::TakeFromWorktop(..) | Op::TakeNFFromWorktop(..) | Op::ReturnToWorktop(..) | Op::BurnBucket(..) | Op::Deposit(..) | Op::DepositBatch
                )
            {
                under_proof = true;
            }
            if o.step(op).is_err() {
                break;
            }
            if matches!(op, Op::AcctProofAmount(..) | Op::AcctProofNF(..) | Op::BucketProofAmount(..) | Op::BucketProofNF(..) | Op::BucketProofAll(..) | Op::CloneProof(..)) {
                proofs_made += 1;
            }
        }
        report.case(&canon, under_proof);
        report.count_n("ops_total", ops.len() as u64);
        report.count_n("proofs_created", proofs_made);
        match &res.fail {
            None => report.count("tx_success"),
            Some((idx, c)) => {
                report.count("tx_failure");
                report.count(&format!("fail_{}", c.coq()));
                if *idx == ops.len() {
                    report.count("fail_at_end_of_transaction");
                }
                if let Err::Other(s) = c {
                    report.notes.push(format!("case {}: unclassified error {}", i, s.chars().take(300).collect::<String>()));
                }
            }
        }
        if let Some(n) = &res.note {
            report.notes.push(format!("case {}: {}", i, n));
            report.count("notes");
        }
        // direct oracle
        match oracle_predict(init_fung, &init_nf, &ops) {
            None => report.count("oracle_undecided"),
            Some((pfail, pd, _)) => {
                let input = json!({"ops": op_json(&ops), "engine": format!("{:?} {:?}", res.fail, res.deltas)});
                match (&pfail, &res.fail) {
                    (None, None) => {
                        if pd != res.deltas {
                            report.oracle_failure(i, "", &format!("final balances differ: expected {:?}", pd), input);
                        }
                    }
                    (Some((pi, why)), Some((ei, _))) => {
                        if pi != ei {
                            report.oracle_failure(i, "", &format!("first failing step: expected {} ({}), engine {}", pi, why, ei), input);
                        }
                    }
                    (Some((pi, why)), None) => {
                        report.oracle_failure(i, "", &format!("engine accepted a transaction that must fail at step {} ({})", pi, why), input);
                    }
                    (None, Some((ei, c))) => {
                        report.oracle_failure(i, "", &format!("engine failed at step {} ({:?}) a transaction that must succeed", ei, c), input);
                    }
                }
            }
        }
        if i < 3 {
            report.sample(json!({"ops": op_json(&ops), "engine": format!("{:?} {:?}", res.fail, res.deltas)}));
        }
        cw.push(case_coq3(&init_coq, &ops, &res));
    }
    report.extra.insert("engine_executions".into(), json!(sim.runs));
    report.floor("tx_success", (args.cases as u64) / 5);
    report.floor("tx_failure", (args.cases as u64) / 10);
    report.floor("proofs_created", args.cases as u64);
    report.floor("fail_ELocked", (args.cases as u64) / 100);
    class_floors(&mut report, &bnd);
    cw.write(&args.out, args.shards).unwrap();
    report.write(&args.out).unwrap();
}
