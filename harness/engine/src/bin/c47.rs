//! C47 correspondence harness: host access to WASM linear memory is bounds-checked.
//!
//! Layer A (this file, `Host*` cases): a WAT module generated from the static scan of wasmi.rs
//! (c47_scan.rs) imports every host function that takes a pointer and exports one forwarder per host
//! function; it runs in the real `WasmiEngine`/`WasmiInstance::invoke_export` with a recording
//! `WasmRuntime` (so the bytes the host read out of the memory are observed exactly) and arbitrary
//! (ptr,len) values around the memory size / u32 boundaries.  The memory is filled with a pattern and
//! dumped through the `dump` export after every call.
//! Layer B (c47_engine_probe.rs, `CBufTx` / `CBufPtr` cases): the REAL ScryptoRuntime buffer table
//! inside real transactions (prebuilt test blueprint system_wasm_buffers on a LedgerSimulator):
//! buffer_consume with every small id, ids never handed out, u32 boundary ids (exactly one id — the
//! one just allocated — succeeds; already consumed ids and unknown ids fail with BufferNotFound(id)),
//! and consumption into pointers beyond the largest allowed memory (MemoryAccessError).
//! Direct oracle (independent of the Coq model, exact u64 arithmetic): no panic; error iff some
//! range leaves the memory; Ok => the runtime received exactly memory[ptr..ptr+len) for every pair;
//! a write lands exactly at [ptr, ptr+len) and every other byte of the memory is unchanged.
#![allow(unused_variables)]
#[path = "../c47_scan.rs"]
mod c47_scan;
#[path = "../c47_engine_probe.rs"]
mod engine_probe;
#[path = "../c47_real_runtime.rs"]
mod real_runtime;
use c47_scan::*;
use radix_common::crypto::Hash;
use radix_engine::errors::InvokeError;
use radix_engine::vm::wasm::*;
use radix_engine_interface::api::actor_api::EventFlags;
use radix_engine_interface::api::ActorRefHandle;
use radix_engine_interface::blueprints::package::CodeHash;
use radix_engine_interface::types::*;
use serde_json::json;
use std::cell::RefCell;
use std::collections::BTreeMap;
use std::fmt::Write as _;
use std::rc::Rc;
use vh_common::*;

const PAGE: u64 = 65536;

// ------------------------------------------------------------------------------------------------
// recording runtime
// ------------------------------------------------------------------------------------------------
#[derive(Default)]
struct Seen {
    calls: Vec<(String, Vec<Vec<u8>>)>,
    bufs: BTreeMap<u32, Vec<u8>>,
}
struct RecRuntime {
    seen: Rc<RefCell<Seen>>,
}
impl RecRuntime {
    fn rec(&mut self, name: &str, vs: Vec<Vec<u8>>) {
        self.seen.borrow_mut().calls.push((name.to_string(), vs));
    }
}
impl WasmRuntime for RecRuntime {
    fn allocate_buffer(&mut self, buffer: Vec<u8>) -> Result<Buffer, InvokeError<WasmRuntimeError>> {
        Err(InvokeError::SelfError(WasmRuntimeError::NotImplemented))
    }
    fn buffer_consume(&mut self, buffer_id: BufferId) -> Result<Vec<u8>, InvokeError<WasmRuntimeError>> {
        self.seen
            .borrow_mut()
            .bufs
            .remove(&buffer_id)
            .ok_or(InvokeError::SelfError(WasmRuntimeError::BufferNotFound(buffer_id)))
    }
    fn object_call(&mut self, receiver: Vec<u8>, ident: Vec<u8>, args: Vec<u8>) -> Result<Buffer, InvokeError<WasmRuntimeError>> {
        self.rec("object_call", vec![receiver, ident, args]);
        Ok(Buffer::new(0, 0))
    }
    fn object_call_module(&mut self, receiver: Vec<u8>, module_id: u32, ident: Vec<u8>, args: Vec<u8>) -> Result<Buffer, InvokeError<WasmRuntimeError>> {
        self.rec("object_call_module", vec![receiver, ident, args]);
        Ok(Buffer::new(0, 0))
    }
    fn object_call_direct(&mut self, receiver: Vec<u8>, ident: Vec<u8>, args: Vec<u8>) -> Result<Buffer, InvokeError<WasmRuntimeError>> {
        self.rec("object_call_direct", vec![receiver, ident, args]);
        Ok(Buffer::new(0, 0))
    }
    fn blueprint_call(&mut self, package_address: Vec<u8>, blueprint_name: Vec<u8>, ident: Vec<u8>, args: Vec<u8>) -> Result<Buffer, InvokeError<WasmRuntimeError>> {
        self.rec("blueprint_call", vec![package_address, blueprint_name, ident, args]);
        Ok(Buffer::new(0, 0))
    }
    fn object_new(&mut self, blueprint_name: Vec<u8>, object_states: Vec<u8>) -> Result<Buffer, InvokeError<WasmRuntimeError>> {
        self.rec("object_new", vec![blueprint_name, object_states]);
        Ok(Buffer::new(0, 0))
    }
    fn address_allocate(&mut self, package_address: Vec<u8>, blueprint_name: Vec<u8>) -> Result<Buffer, InvokeError<WasmRuntimeError>> {
        self.rec("address_allocate", vec![package_address, blueprint_name]);
        Ok(Buffer::new(0, 0))
    }
    fn address_get_reservation_address(&mut self, node_id: Vec<u8>) -> Result<Buffer, InvokeError<WasmRuntimeError>> {
        self.rec("address_get_reservation_address", vec![node_id]);
        Ok(Buffer::new(0, 0))
    }
    fn globalize_object(&mut self, node_id: Vec<u8>, modules: Vec<u8>, address: Vec<u8>) -> Result<Buffer, InvokeError<WasmRuntimeError>> {
        self.rec("globalize_object", vec![node_id, modules, address]);
        Ok(Buffer::new(0, 0))
    }
    fn key_value_store_new(&mut self, schema: Vec<u8>) -> Result<Buffer, InvokeError<WasmRuntimeError>> {
        self.rec("key_value_store_new", vec![schema]);
        Ok(Buffer::new(0, 0))
    }
    fn key_value_store_open_entry(&mut self, node_id: Vec<u8>, key: Vec<u8>, flags: u32) -> Result<SubstateHandle, InvokeError<WasmRuntimeError>> {
        self.rec("key_value_store_open_entry", vec![node_id, key]);
        Ok(0)
    }
    fn key_value_entry_get(&mut self, handle: u32) -> Result<Buffer, InvokeError<WasmRuntimeError>> {
        self.rec("key_value_entry_get", vec![]);
        Ok(Buffer::new(0, 0))
    }
    fn key_value_entry_set(&mut self, handle: u32, data: Vec<u8>) -> Result<(), InvokeError<WasmRuntimeError>> {
        self.rec("key_value_entry_set", vec![data]);
        Ok(())
    }
    fn key_value_entry_remove(&mut self, handle: u32) -> Result<Buffer, InvokeError<WasmRuntimeError>> {
        self.rec("key_value_entry_remove", vec![]);
        Ok(Buffer::new(0, 0))
    }
    fn key_value_entry_close(&mut self, handle: u32) -> Result<(), InvokeError<WasmRuntimeError>> {
        self.rec("key_value_entry_close", vec![]);
        Ok(())
    }
    fn key_value_store_remove_entry(&mut self, node_id: Vec<u8>, key: Vec<u8>) -> Result<Buffer, InvokeError<WasmRuntimeError>> {
        self.rec("key_value_store_remove_entry", vec![node_id, key]);
        Ok(Buffer::new(0, 0))
    }
    fn instance_of(&mut self, object_id: Vec<u8>, package_address: Vec<u8>, blueprint_name: Vec<u8>) -> Result<u32, InvokeError<WasmRuntimeError>> {
        self.rec("instance_of", vec![object_id, package_address, blueprint_name]);
        Ok(0)
    }
    fn blueprint_id(&mut self, object_id: Vec<u8>) -> Result<Buffer, InvokeError<WasmRuntimeError>> {
        self.rec("blueprint_id", vec![object_id]);
        Ok(Buffer::new(0, 0))
    }
    fn get_outer_object(&mut self, component_id: Vec<u8>) -> Result<Buffer, InvokeError<WasmRuntimeError>> {
        self.rec("get_outer_object", vec![component_id]);
        Ok(Buffer::new(0, 0))
    }
    fn actor_open_field(&mut self, object_handle: u32, field: u8, flags: u32) -> Result<SubstateHandle, InvokeError<WasmRuntimeError>> {
        self.rec("actor_open_field", vec![]);
        Ok(0)
    }
    fn field_entry_read(&mut self, handle: SubstateHandle) -> Result<Buffer, InvokeError<WasmRuntimeError>> {
        self.rec("field_entry_read", vec![]);
        Ok(Buffer::new(0, 0))
    }
    fn field_entry_write(&mut self, handle: SubstateHandle, data: Vec<u8>) -> Result<(), InvokeError<WasmRuntimeError>> {
        self.rec("field_entry_write", vec![data]);
        Ok(())
    }
    fn field_entry_close(&mut self, handle: SubstateHandle) -> Result<(), InvokeError<WasmRuntimeError>> {
        self.rec("field_entry_close", vec![]);
        Ok(())
    }
    fn actor_get_node_id(&mut self, actor_ref_handle: ActorRefHandle) -> Result<Buffer, InvokeError<WasmRuntimeError>> {
        self.rec("actor_get_node_id", vec![]);
        Ok(Buffer::new(0, 0))
    }
    fn actor_get_package_address(&mut self) -> Result<Buffer, InvokeError<WasmRuntimeError>> {
        self.rec("actor_get_package_address", vec![]);
        Ok(Buffer::new(0, 0))
    }
    fn actor_get_blueprint_name(&mut self) -> Result<Buffer, InvokeError<WasmRuntimeError>> {
        self.rec("actor_get_blueprint_name", vec![]);
        Ok(Buffer::new(0, 0))
    }
    fn consume_wasm_execution_units(&mut self, n: u32) -> Result<(), InvokeError<WasmRuntimeError>> {
        self.rec("consume_wasm_execution_units", vec![]);
        Ok(())
    }
    fn costing_get_execution_cost_unit_limit(&mut self) -> Result<u32, InvokeError<WasmRuntimeError>> {
        self.rec("costing_get_execution_cost_unit_limit", vec![]);
        Ok(0)
    }
    fn costing_get_execution_cost_unit_price(&mut self) -> Result<Buffer, InvokeError<WasmRuntimeError>> {
        self.rec("costing_get_execution_cost_unit_price", vec![]);
        Ok(Buffer::new(0, 0))
    }
    fn costing_get_finalization_cost_unit_limit(&mut self) -> Result<u32, InvokeError<WasmRuntimeError>> {
        self.rec("costing_get_finalization_cost_unit_limit", vec![]);
        Ok(0)
    }
    fn costing_get_finalization_cost_unit_price(&mut self) -> Result<Buffer, InvokeError<WasmRuntimeError>> {
        self.rec("costing_get_finalization_cost_unit_price", vec![]);
        Ok(Buffer::new(0, 0))
    }
    fn costing_get_usd_price(&mut self) -> Result<Buffer, InvokeError<WasmRuntimeError>> {
        self.rec("costing_get_usd_price", vec![]);
        Ok(Buffer::new(0, 0))
    }
    fn costing_get_tip_percentage(&mut self) -> Result<u32, InvokeError<WasmRuntimeError>> {
        self.rec("costing_get_tip_percentage", vec![]);
        Ok(0)
    }
    fn costing_get_fee_balance(&mut self) -> Result<Buffer, InvokeError<WasmRuntimeError>> {
        self.rec("costing_get_fee_balance", vec![]);
        Ok(Buffer::new(0, 0))
    }
    fn actor_emit_event(&mut self, event_name: Vec<u8>, event_payload: Vec<u8>, event_flags: EventFlags) -> Result<(), InvokeError<WasmRuntimeError>> {
        self.rec("actor_emit_event", vec![event_name, event_payload]);
        Ok(())
    }
    fn sys_log(&mut self, level: Vec<u8>, message: Vec<u8>) -> Result<(), InvokeError<WasmRuntimeError>> {
        self.rec("sys_log", vec![level, message]);
        Ok(())
    }
    fn sys_bech32_encode_address(&mut self, address: Vec<u8>) -> Result<Buffer, InvokeError<WasmRuntimeError>> {
        self.rec("sys_bech32_encode_address", vec![address]);
        Ok(Buffer::new(0, 0))
    }
    fn sys_get_transaction_hash(&mut self) -> Result<Buffer, InvokeError<WasmRuntimeError>> {
        self.rec("sys_get_transaction_hash", vec![]);
        Ok(Buffer::new(0, 0))
    }
    fn sys_generate_ruid(&mut self) -> Result<Buffer, InvokeError<WasmRuntimeError>> {
        self.rec("sys_generate_ruid", vec![]);
        Ok(Buffer::new(0, 0))
    }
    fn sys_panic(&mut self, message: Vec<u8>) -> Result<(), InvokeError<WasmRuntimeError>> {
        self.rec("sys_panic", vec![message]);
        Ok(())
    }
    fn crypto_utils_bls12381_v1_verify(&mut self, message: Vec<u8>, public_key: Vec<u8>, signature: Vec<u8>) -> Result<u32, InvokeError<WasmRuntimeError>> {
        self.rec("crypto_utils_bls12381_v1_verify", vec![message, public_key, signature]);
        Ok(0)
    }
    fn crypto_utils_bls12381_v1_aggregate_verify(&mut self, pub_keys_and_msgs: Vec<u8>, signatures: Vec<u8>) -> Result<u32, InvokeError<WasmRuntimeError>> {
        self.rec("crypto_utils_bls12381_v1_aggregate_verify", vec![pub_keys_and_msgs, signatures]);
        Ok(0)
    }
    fn crypto_utils_bls12381_v1_fast_aggregate_verify(&mut self, message: Vec<u8>, public_keys: Vec<u8>, signatures: Vec<u8>) -> Result<u32, InvokeError<WasmRuntimeError>> {
        self.rec("crypto_utils_bls12381_v1_fast_aggregate_verify", vec![message, public_keys, signatures]);
        Ok(0)
    }
    fn crypto_utils_bls12381_g2_signature_aggregate(&mut self, signatures: Vec<u8>) -> Result<Buffer, InvokeError<WasmRuntimeError>> {
        self.rec("crypto_utils_bls12381_g2_signature_aggregate", vec![signatures]);
        Ok(Buffer::new(0, 0))
    }
    fn crypto_utils_keccak256_hash(&mut self, data: Vec<u8>) -> Result<Buffer, InvokeError<WasmRuntimeError>> {
        self.rec("crypto_utils_keccak256_hash", vec![data]);
        Ok(Buffer::new(0, 0))
    }
    fn crypto_utils_blake2b_256_hash(&mut self, data: Vec<u8>) -> Result<Buffer, InvokeError<WasmRuntimeError>> {
        self.rec("crypto_utils_blake2b_256_hash", vec![data]);
        Ok(Buffer::new(0, 0))
    }
    fn crypto_utils_ed25519_verify(&mut self, message: Vec<u8>, public_key: Vec<u8>, signature: Vec<u8>) -> Result<u32, InvokeError<WasmRuntimeError>> {
        self.rec("crypto_utils_ed25519_verify", vec![message, public_key, signature]);
        Ok(0)
    }
    fn crypto_utils_secp256k1_ecdsa_verify(&mut self, message: Vec<u8>, public_key: Vec<u8>, signature: Vec<u8>) -> Result<u32, InvokeError<WasmRuntimeError>> {
        self.rec("crypto_utils_secp256k1_ecdsa_verify", vec![message, public_key, signature]);
        Ok(0)
    }
    fn crypto_utils_secp256k1_ecdsa_verify_and_key_recover(&mut self, message: Vec<u8>, signature: Vec<u8>) -> Result<Buffer, InvokeError<WasmRuntimeError>> {
        self.rec("crypto_utils_secp256k1_ecdsa_verify_and_key_recover", vec![message, signature]);
        Ok(Buffer::new(0, 0))
    }
    fn crypto_utils_secp256k1_ecdsa_verify_and_key_recover_uncompressed(&mut self, message: Vec<u8>, signature: Vec<u8>) -> Result<Buffer, InvokeError<WasmRuntimeError>> {
        self.rec("crypto_utils_secp256k1_ecdsa_verify_and_key_recover_uncompressed", vec![message, signature]);
        Ok(Buffer::new(0, 0))
    }
}

// ------------------------------------------------------------------------------------------------
// the forwarding module
// ------------------------------------------------------------------------------------------------
#[derive(Clone, Debug)]
struct HostFn {
    import: String,
    native: NativeFn,
    wasm_params: Vec<&'static str>, // i32 / i64 per native parameter
    has_result: bool,
    /// the host function returns an i64 (a Buffer: id << 32 | len)
    returns_i64: bool,
    /// the runtime method receives the vectors read (false for the test-only read function)
    visible: bool,
}

fn wasm_ty(t: &str) -> &'static str {
    match t {
        "u32" | "BufferId" => "i32",
        "u64" => "i64",
        other => panic!("unexpected host parameter type {}", other),
    }
}

fn host_fns(scan: &Scan) -> Vec<HostFn> {
    let mut v = Vec::new();
    for im in &scan.imports {
        let c = scan.closure_of(&im.var).unwrap_or_else(|| panic!("import {} not defined by a closure", im.import_name));
        let n = scan.native_of(&c.callee).unwrap_or_else(|| panic!("closure {} calls unknown native {}", c.var, c.callee));
        if n.ptr_params.is_empty() {
            continue;
        }
        v.push(HostFn {
            import: im.import_name.clone(),
            native: n.clone(),
            wasm_params: n.params.iter().map(|(_, t)| wasm_ty(t)).collect(),
            has_result: c.ret != "()",
            returns_i64: c.ret == "u64",
            visible: !im.cfg_test,
        });
    }
    v
}

fn build_wat(fns: &[HostFn], scan: &Scan, pages: u64) -> String {
    let mut s = String::from("(module\n");
    for (i, f) in fns.iter().enumerate() {
        let c = scan.closure_of(&scan.imports.iter().find(|im| im.import_name == f.import).unwrap().var).unwrap();
        let res = match c.ret.as_str() {
            "()" => "".to_string(),
            "u32" => " (result i32)".to_string(),
            "u64" => " (result i64)".to_string(),
            o => panic!("unexpected result type {}", o),
        };
        let _ = writeln!(s, "  (import \"env\" \"{}\" (func $h{} (param {}){}))", f.import, i, f.wasm_params.join(" "), res);
    }
    let _ = writeln!(s, "  (memory $0 {})\n  (export \"memory\" (memory $0))", pages);
    // fill the whole memory with byte(i) = (i*167 + i/251 + seed) mod 256
    s.push_str(
        r#"  (func $init (param $seed i64) (result i64)
    (local $i i32) (local $n i32)
    (local.set $n (i32.mul (memory.size) (i32.const 65536)))
    (block $done (loop $l
      (br_if $done (i32.ge_u (local.get $i) (local.get $n)))
      (i32.store8 (local.get $i)
        (i32.add (i32.add (i32.mul (local.get $i) (i32.const 167)) (i32.div_u (local.get $i) (i32.const 251)))
                 (i32.wrap_i64 (local.get $seed))))
      (local.set $i (i32.add (local.get $i) (i32.const 1)))
      (br $l)))
    (i64.const 0))
  (func $grow (param $p i64) (result i64)
    (drop (memory.grow (i32.wrap_i64 (local.get $p))))
    (i64.const 0))
  (func $dump (result i64)
    (i64.extend_i32_u (i32.mul (memory.size) (i32.const 65536))))
  (func $ret (param $v i64) (result i64) (local.get $v))
  (export "init" (func $init))
  (export "grow" (func $grow))
  (export "dump" (func $dump))
  (export "ret" (func $ret))
"#,
    );
    for (i, f) in fns.iter().enumerate() {
        let _ = write!(s, "  (func $f{} ", i);
        for _ in &f.wasm_params {
            s.push_str("(param i64) ");
        }
        s.push_str("(result i64)\n    ");
        for (k, t) in f.wasm_params.iter().enumerate() {
            if *t == "i32" {
                let _ = write!(s, "(i32.wrap_i64 (local.get {})) ", k);
            } else {
                let _ = write!(s, "(local.get {}) ", k);
            }
        }
        let _ = write!(s, "(call $h{})", i);
        if f.has_result {
            s.push_str(" drop");
        }
        let _ = writeln!(s, "\n    (i64.const 0))\n  (export \"f{}\" (func $f{}))", i, i);
    }
    // r{i}: same call, the returned i64 (Buffer) is stored at the address given by an extra parameter
    for (i, f) in fns.iter().enumerate() {
        if !f.returns_i64 {
            continue;
        }
        let _ = write!(s, "  (func $r{} ", i);
        for _ in &f.wasm_params {
            s.push_str("(param i64) ");
        }
        let n = f.wasm_params.len();
        let _ = write!(s, "(param i64) (result i64)\n    (i64.store (i32.wrap_i64 (local.get {})) (call $h{} ", n, i);
        for (k, t) in f.wasm_params.iter().enumerate() {
            if *t == "i32" {
                let _ = write!(s, "(i32.wrap_i64 (local.get {})) ", k);
            } else {
                let _ = write!(s, "(local.get {}) ", k);
            }
        }
        let _ = writeln!(s, "))\n    (i64.const 0))\n  (export \"r{}\" (func $r{}))", i, i);
    }
    s.push_str(")\n");
    s
}

// ------------------------------------------------------------------------------------------------
// patterns, digests
// ------------------------------------------------------------------------------------------------
fn pat_byte(seed: u64, i: u64) -> u8 {
    ((i * 167 + i / 251 + seed) % 256) as u8
}
fn dat_byte(t: u64, j: u64) -> u8 {
    ((j * 3 + j / 256 + t) % 256) as u8
}
fn digest_coq(bs: &[u8]) -> String {
    let mut h: u64 = 0;
    for b in bs {
        h = (h * 31 + *b as u64) % 4294967296;
    }
    let first: Vec<u8> = bs.iter().take(16).cloned().collect();
    let last: Vec<u8> = bs.iter().rev().take(16).cloned().collect();
    format!("({}, {}, {}, {})", bs.len(), h, coq_bytes(&first), coq_bytes(&last))
}
fn mem_sum(bs: &[u8]) -> u64 {
    let mut h: u64 = 0;
    for (i, b) in bs.iter().enumerate() {
        h = (h + (*b as u64) * ((i as u64 % 251) + 1)) % 4294967296;
    }
    h
}

#[derive(Clone, Debug, PartialEq)]
enum Obs {
    Ok,
    Mae,
    NotFound(u32),
    Other(String),
    Panic,
}
fn classify(r: Result<Result<Vec<u8>, InvokeError<WasmRuntimeError>>, String>) -> (Obs, Option<Vec<u8>>) {
    match r {
        Err(_) => (Obs::Panic, None),
        Ok(Ok(v)) => (Obs::Ok, Some(v)),
        Ok(Err(InvokeError::SelfError(WasmRuntimeError::MemoryAccessError))) => (Obs::Mae, None),
        Ok(Err(InvokeError::SelfError(WasmRuntimeError::BufferNotFound(id)))) => (Obs::NotFound(id), None),
        Ok(Err(e)) => (Obs::Other(format!("{:?}", e).chars().take(120).collect()), None),
    }
}
fn obs_coq(o: &Obs, digests: &[String]) -> String {
    match o {
        Obs::Ok => format!("ObsOk {}", coq_list(digests.iter().cloned())),
        Obs::Mae => "ObsErr MemoryAccessError".to_string(),
        Obs::NotFound(id) => format!("ObsErr (BufferNotFound {})", id),
        Obs::Other(_) => "ObsOther".to_string(),
        Obs::Panic => "ObsPanic".to_string(),
    }
}

// ------------------------------------------------------------------------------------------------
// generator
// ------------------------------------------------------------------------------------------------
/// a (ptr,len) pair; `class` names the generator class for the distribution report
fn gen_pair(rng: &mut Rng, m: u64, boundary: bool) -> (u32, u32, &'static str) {
    let max = u32::MAX as u64;
    if !boundary {
        let ptr = rng.below(m);
        let len = rng.below((m - ptr).min(200) + 1);
        return (ptr as u32, len as u32, "inside_small");
    }
    let (p, l, c): (u64, u64, &'static str) = match rng.below(16) {
        0 => {
            let p = rng.below(m + 1);
            (p, m - p, "end_exact")
        }
        1 => {
            let p = rng.below(m + 1);
            (p, m - p + 1, "end_plus_1")
        }
        2 => (m, 0, "ptr_m_len_0"),
        3 => (m, 1, "ptr_m_len_1"),
        4 => (m + 1, 0, "ptr_m_plus_1_len_0"),
        5 => (0, m, "whole"),
        6 => (0, m + 1, "whole_plus_1"),
        7 => {
            // ptr + len = 2^32 - 1, 2^32, 2^32 + 1
            let r = rng.range(1, max);
            let p = *rng.pick(&[1u64, m - 1, m, m + 1, max, 1 << 31, r]);
            let total = (1u64 << 32) + rng.below(3) - 1;
            (p, (total - p).min(max), "sum_near_2_32")
        }
        8 => (max, *rng.pick(&[0u64, 1, 2, max]), "ptr_u32_max"),
        9 => (*rng.pick(&[0u64, 1, m - 1, m]), max, "len_u32_max"),
        10 => {
            let k = rng.range(0, m / PAGE + 1);
            (k * PAGE, *rng.pick(&[0u64, 1, PAGE, PAGE + 1, PAGE - 1]), "page_multiple")
        }
        11 => (m - 1, *rng.pick(&[0u64, 1, 2]), "last_byte"),
        12 => (rng.below(max + 1), rng.below(max + 1), "random_u32"),
        13 => {
            let p = rng.below(m);
            (p, (m - p) + rng.below(5), "end_plus_small")
        }
        14 => (0, 0, "zero_zero"),
        _ => {
            let p = rng.below(m);
            (p, rng.below(m - p + 1), "inside_large")
        }
    };
    (p.min(max) as u32, l.min(max) as u32, c)
}


// ------------------------------------------------------------------------------------------------
// case plans
// ------------------------------------------------------------------------------------------------
#[derive(Clone, Debug)]
enum Plan {
    /// host function `fi` with its (ptr,len) pairs in read order
    Read { fi: usize, pairs: Vec<(u32, u32)>, classes: Vec<String> },
    /// the i64 returned by the export
    Ret { p: u32, l: u32, class: String },
    /// buffer_consume(id, dest) with the runtime holding `data` under id (or not), or the test-only write of `len` zeros
    Write { use_test: bool, dest: u32, len: u32, id: u32, present: bool, class: String, data: Vec<u8>, data_coq: String },
}
#[derive(Clone, Debug)]
struct Cfg {
    init_pages: u64,
    grow: u64,
    seed: u64,
    plan: Plan,
    /// class name of a deterministic boundary case
    det: Option<String>,
}

/// a host function that reads buffers: (ptr,len) pairs by SIGNATURE (pointer parameter followed by its
/// length parameter), not by what the body does with them — the oracle demands that the runtime
/// receives memory[ptr..ptr+len) for exactly these pairs, in this order
fn is_reader(f: &HostFn) -> bool {
    !f.native.sig_pairs.is_empty() && f.native.writes.is_empty()
}

fn random_cfg(rng: &mut Rng, fns: &[HostFn], consume_idx: Option<usize>, test_write_idx: Option<usize>) -> Cfg {
    // memory: initial pages 1..3, grown by 0..2
    let init_pages = rng.range(1, 3);
    let grow = if rng.chance(1, 3) { rng.range(1, 2) } else { 0 };
    let m = (init_pages + grow) * PAGE;
    let seed = rng.below(256);
    let kind = rng.below(100);
    let plan = if kind < 62 || consume_idx.is_none() {
        let readers: Vec<usize> = (0..fns.len()).filter(|k| is_reader(&fns[*k])).collect();
        let fi = *rng.pick(&readers);
        let npairs = fns[fi].native.sig_pairs.len();
        let all_inside = rng.chance(1, 4);
        let bad = rng.usize_below(npairs);
        let mut pairs = Vec::new();
        let mut classes = Vec::new();
        for k in 0..npairs {
            let boundary = !all_inside && (k == bad || rng.chance(1, 6));
            let (p, l, c) = gen_pair(rng, m, boundary);
            pairs.push((p, l));
            classes.push(c.to_string());
        }
        Plan::Read { fi, pairs, classes }
    } else if kind < 72 {
        let bd = !rng.chance(1, 4);
        let (p, l, c) = gen_pair(rng, m, bd);
        Plan::Ret { p, l, class: c.to_string() }
    } else {
        let use_test = test_write_idx.is_some() && rng.chance(1, 4);
        let bd = !rng.chance(1, 4);
        let (p, l, c) = gen_pair(rng, m, bd);
        // buffers are host-made: keep them allocatable (<= m + 70000 bytes)
        let (dest, len) = (p, (l as u64).min(m + 70000) as u32);
        let id = rng.below(5) as u32;
        let present = use_test || !rng.chance(1, 8);
        let tag = rng.below(256);
        let bytes = if len <= 40 && !use_test { Some(rng.bytes(len as usize)) } else { None };
        write_plan(use_test, dest, len, id, present, c, tag, bytes)
    };
    Cfg { init_pages, grow, seed, plan, det: None }
}

fn write_plan(use_test: bool, dest: u32, len: u32, id: u32, present: bool, class: &str, tag: u64, explicit: Option<Vec<u8>>) -> Plan {
    let (data, data_coq) = if use_test {
        (vec![0u8; len as usize], format!("DZero {}", len))
    } else if let Some(b) = explicit {
        let c = format!("DBytes {}", coq_bytes(&b));
        (b, c)
    } else {
        ((0..len as u64).map(|j| dat_byte(tag, j)).collect(), format!("DPat {} {}", tag, len))
    };
    Plan::Write { use_test, dest, len, id, present, class: class.to_string(), data, data_coq }
}

/// The deterministic boundary family: identical for every seed, one class name per kind of case,
/// a floor on every class.  It walks the comparisons of read_memory / write_memory / read_slice /
/// consume_buffer: equality and +-1 at the memory size (for each memory size incl. grown memories,
/// where the bound must follow the CURRENT size), empty ranges at size and size+1, first/last byte,
/// u32 extremes and ptr+len around 2^32, and every (ptr,len) pair of every host function at the exact
/// end (Ok) and one byte beyond (error) with distinct lengths per pair.
fn det_family(fns: &[HostFn], consume_idx: Option<usize>, test_write_idx: Option<usize>) -> Vec<Cfg> {
    let mut v: Vec<Cfg> = Vec::new();
    let max = u32::MAX as u64;
    let mems: [(u64, u64); 5] = [(1, 0), (2, 0), (3, 0), (1, 1), (2, 2)];
    let single = (0..fns.len()).find(|k| is_reader(&fns[*k]) && fns[*k].native.sig_pairs.len() == 1 && fns[*k].visible).expect("a single-pair host function");
    let mut seedc = 0u64;
    let mut push = |v: &mut Vec<Cfg>, mem: (u64, u64), plan: Plan, class: &str| {
        seedc += 1;
        v.push(Cfg { init_pages: mem.0, grow: mem.1, seed: (seedc * 37) % 256, plan, det: Some(format!("det_{}", class)) });
    };
    // ---- read_memory through a single-pair host function, every memory size
    for mem in mems {
        let m = (mem.0 + mem.1) * PAGE;
        let mut rd: Vec<(u64, u64, &str)> = vec![
            (m - 7, 7, "read_end_exact"),
            (m - 7, 8, "read_end_plus_1"),
            (m - 7, 6, "read_end_minus_1"),
            (m, 0, "read_empty_at_size"),
            (m + 1, 0, "read_empty_at_size_plus_1"),
            (m, 1, "read_ptr_eq_size_len_1"),
            (0, 0, "read_empty_at_0"),
            (0, 1, "read_first_byte"),
            (m - 1, 1, "read_last_byte"),
            (m - 1, 2, "read_last_byte_plus_1"),
            (0, m, "read_whole_memory"),
            (0, m + 1, "read_whole_memory_plus_1"),
            (1, m - 1, "read_whole_memory_from_1"),
            (max, 0, "read_ptr_u32_max_len_0"),
            (max, 1, "read_ptr_u32_max_len_1"),
            (0, max, "read_len_u32_max_ptr_0"),
            (max, max, "read_ptr_and_len_u32_max"),
            (m, max - m, "read_sum_2_32_minus_1"),
            (m - 1, (1u64 << 32) - (m - 1), "read_sum_2_32"),
            (1, max, "read_sum_2_32_ptr_1"),
            (m - 1, (1u64 << 32) - (m - 1) + 1, "read_sum_2_32_plus_1"),
            (PAGE, 0, "read_page_multiple_len_0"),
        ];
        if mem.1 > 0 {
            let init = mem.0 * PAGE;
            rd.push((init, 1, "read_grown_first_byte_of_grown_part"));
            rd.push((init - 3, 6, "read_grown_straddles_old_end"));
            rd.push((init, m - init, "read_grown_whole_grown_part"));
            rd.push((init, m - init + 1, "read_grown_whole_grown_part_plus_1"));
        } else {
            // the same pointer that is valid after memory.grow is invalid without it
            rd.push((m, 1, "read_ungrown_first_byte_beyond"));
        }
        for (p, l, c) in rd {
            push(&mut v, mem, Plan::Read { fi: single, pairs: vec![(p as u32, l as u32)], classes: vec![c.to_string()] }, c);
        }
    }
    // ---- every (ptr,len) pair of every host function at the exact end and one beyond; the other
    // pairs are inside with pairwise distinct lengths (a pair read with another pair's length shows)
    for (fi, f) in fns.iter().enumerate() {
        if !is_reader(f) {
            continue;
        }
        let n = f.native.sig_pairs.len();
        for k in 0..n {
            for plus in [0u64, 1] {
                let m = PAGE;
                let mut pairs = Vec::new();
                for j in 0..n {
                    if j == k {
                        let l = 11 + j as u64;
                        pairs.push(((m - l + plus) as u32, l as u32));
                    } else {
                        pairs.push((100 * (j as u32 + 1), 3 + j as u32));
                    }
                }
                let c = if plus == 0 { "fn_pair_end_exact" } else { "fn_pair_end_plus_1" };
                push(&mut v, (1, 0), Plan::Read { fi, pairs, classes: vec![c.to_string(); n] }, c);
            }
        }
        if n >= 2 {
            // all pairs at the exact end at once; and only the LAST pair empty at size+1
            let m = 2 * PAGE;
            let pairs: Vec<(u32, u32)> = (0..n).map(|j| ((m - 5 - j as u64) as u32, 5 + j as u32)).collect();
            push(&mut v, (1, 1), Plan::Read { fi, pairs, classes: vec!["fn_all_pairs_end_exact".to_string(); n] }, "fn_all_pairs_end_exact");
            let mut pairs: Vec<(u32, u32)> = (0..n).map(|j| (7 * j as u32, 2 + j as u32)).collect();
            pairs[n - 1] = ((m + 1) as u32, 0);
            push(&mut v, (1, 1), Plan::Read { fi, pairs, classes: vec!["fn_last_pair_empty_at_size_plus_1".to_string(); n] }, "fn_last_pair_empty_at_size_plus_1");
        }
    }
    // ---- read_slice: the i64 returned by the export, ptr in the high half, len in the low half
    for mem in [(1u64, 0u64), (1, 1), (3, 0)] {
        let m = (mem.0 + mem.1) * PAGE;
        for (p, l, c) in [
            (m - 5, 5, "ret_end_exact"),
            (m - 5, 6, "ret_end_plus_1"),
            (m, 0, "ret_empty_at_size"),
            (m + 1, 0, "ret_empty_at_size_plus_1"),
            (0, 0, "ret_zero"),
            (0, 1, "ret_first_byte"),
            (m - 1, 1, "ret_last_byte"),
            (5, 3, "ret_small_asymmetric"),
            (3, 5, "ret_small_asymmetric_swapped"),
            (1u64 << 31, 0, "ret_sign_bit_ptr"),
            (0, 1u64 << 31, "ret_sign_bit_len"),
            (max, max, "ret_all_ones"),
            (m - 1, (1u64 << 32) - (m - 1), "ret_sum_2_32"),
        ] {
            push(&mut v, mem, Plan::Ret { p: p as u32, l: l as u32, class: c.to_string() }, c);
        }
    }
    // ---- write_memory through buffer_consume (the runtime holds the buffer under id 3)
    if consume_idx.is_some() {
        for mem in [(1u64, 0u64), (2, 0), (1, 1)] {
            let m = (mem.0 + mem.1) * PAGE;
            let mut wr: Vec<(u64, u64, &str)> = vec![
                (m - 9, 9, "write_end_exact"),
                (m - 9, 10, "write_end_plus_1"),
                (m - 9, 8, "write_end_minus_1"),
                (m, 0, "write_empty_at_size"),
                (m + 1, 0, "write_empty_at_size_plus_1"),
                (0, 0, "write_empty_at_0"),
                (0, 1, "write_first_byte"),
                (m - 1, 1, "write_last_byte"),
                (m - 1, 2, "write_last_byte_plus_1"),
                (m, 1, "write_dest_eq_size_len_1"),
                (0, m, "write_whole_memory"),
                (0, m + 1, "write_whole_memory_plus_1"),
                (max, 0, "write_dest_u32_max_len_0"),
                (max, 1, "write_dest_u32_max_len_1"),
                (max - 4, 5, "write_dest_plus_len_2_32"),
                (m - 300, 300, "write_end_exact_300"),
                (m - 300, 301, "write_end_plus_1_300"),
            ];
            if mem.1 > 0 {
                let init = mem.0 * PAGE;
                wr.push((init, 4, "write_grown_first_bytes_of_grown_part"));
                wr.push((init - 2, 4, "write_grown_straddles_old_end"));
            }
            for (d, l, c) in wr {
                let bytes = if l <= 40 { Some((0..l).map(|j| (0xA0 + j) as u8).collect()) } else { None };
                push(&mut v, mem, write_plan(false, d as u32, l as u32, 3, true, c, 17, bytes), c);
            }
            push(&mut v, mem, write_plan(false, 16, 4, 2, false, "write_unknown_buffer_id", 0, Some(vec![1, 2, 3, 4])), "write_unknown_buffer_id");
        }
    }
    if test_write_idx.is_some() {
        let m = PAGE;
        for (d, l, c) in [
            (m - 6, 6, "testwrite_end_exact"),
            (m - 6, 7, "testwrite_end_plus_1"),
            (m, 0, "testwrite_empty_at_size"),
            (m + 1, 0, "testwrite_empty_at_size_plus_1"),
        ] {
            push(&mut v, (1, 0), write_plan(true, d as u32, l as u32, 0, true, c, 0, None), c);
        }
    }
    v
}


// ------------------------------------------------------------------------------------------------
// layer C types: steps on the real ScryptoRuntime
// ------------------------------------------------------------------------------------------------
#[derive(Clone, Debug)]
enum RData {
    Bytes(Vec<u8>),
    Pat(u64, u64),
}
impl RData {
    fn bytes(&self) -> Vec<u8> {
        match self {
            RData::Bytes(b) => b.clone(),
            RData::Pat(t, n) => (0..*n).map(|j| dat_byte(*t, j)).collect(),
        }
    }
    fn coq(&self) -> String {
        match self {
            RData::Bytes(b) => format!("DBytes {}", coq_bytes(b)),
            RData::Pat(t, n) => format!("DPat {} {}", t, n),
        }
    }
}
#[derive(Clone, Debug)]
enum RStep {
    /// runtime.allocate_buffer(data) called directly
    Alloc(RData),
    /// runtime.buffer_consume(id) called directly
    Consume(u32),
    /// hash host function (index into hash_fns) on memory[ptr..ptr+len) through wasmi; the returned i64 is stored at `scratch`
    Hash(usize, u32, u32, u32),
    /// the host function buffer_consume(id, dest) through wasmi
    HostConsume(u32, u32),
}
#[derive(Clone, Debug, PartialEq)]
enum ROut {
    Alloc(u64, u32, u32), // raw value, Buffer::id(), Buffer::len()
    Data(Vec<u8>),
    Ok,
    TooMany,
    NotFound(u32),
    Mae,
    Other(String),
    Panic,
}
impl ROut {
    fn short(&self) -> String {
        match self {
            ROut::Data(d) => format!("Data(len {}, {:?}..)", d.len(), &d[..d.len().min(8)]),
            o => format!("{:?}", o),
        }
    }
    fn coq(&self) -> String {
        match self {
            ROut::Alloc(raw, id, len) => format!("ROAlloc {} {} {}", raw, id, len),
            ROut::Data(d) => format!("ROData {}", digest_coq(d)),
            ROut::Ok => "ROOk".into(),
            ROut::TooMany => "ROErr TooManyBuffers".into(),
            ROut::NotFound(id) => format!("ROErr (BufferNotFound {})", id),
            ROut::Mae => "ROErr MemoryAccessError".into(),
            ROut::Other(_) => "ROOther".into(),
            ROut::Panic => "ROPanic".into(),
        }
    }
}
fn rerr(e: InvokeError<WasmRuntimeError>) -> ROut {
    match e {
        InvokeError::SelfError(WasmRuntimeError::TooManyBuffers) => ROut::TooMany,
        InvokeError::SelfError(WasmRuntimeError::BufferNotFound(id)) => ROut::NotFound(id),
        InvokeError::SelfError(WasmRuntimeError::MemoryAccessError) => ROut::Mae,
        other => ROut::Other(format!("{:?}", other).chars().take(120).collect()),
    }
}

struct Inst {
    inst: WasmiInstance,
    seen: Rc<RefCell<Seen>>,
    rt: Box<dyn WasmRuntime>,
}
impl Inst {
    fn call(&mut self, name: &str, args: Vec<u64>) -> (Obs, Option<Vec<u8>>) {
        let inst = &mut self.inst;
        let rt = &mut self.rt;
        let r = catch(std::panic::AssertUnwindSafe(|| inst.invoke_export(name, args.into_iter().map(Buffer).collect(), rt)));
        classify(r)
    }
}

fn main() {
    let args = Args::parse();
    let mut report = Report::new(
        "C47",
        args.seed,
        "one host call per case through a forwarding WAT module in the real WasmiEngine with a recording runtime: every pointer-taking host function of wasmi.rs (from the static scan), \
         buffer_consume (write path), the export return slice (read_slice) and the test-only write function; (ptr,len) at memory-size / u32 / page boundaries, memories of 1..5 pages incl. grown ones; \
         non-trivial = at least one boundary pair (not plain inside_small); distinct by function + memory size + arguments",
    );
    let mut cw = CaseWriter::new("RV.Corr.C47_run RV.Model.C47_HostMem", "check");
    let scan = scan();
    let fns = host_fns(&scan);
    assert!(fns.len() >= 20, "scan found only {} pointer-taking host functions", fns.len());
    let engine = WasmiEngine::default();
    let mut codes: BTreeMap<u64, Vec<u8>> = BTreeMap::new();
    for pages in 1..=3u64 {
        let wat_text = build_wat(&fns, &scan, pages);
        codes.insert(pages, wat::parse_str(&wat_text).unwrap_or_else(|e| panic!("wat: {}\n{}", e, wat_text)));
    }
    report.extra.insert("host_functions_forwarded".into(), json!(fns.iter().map(|f| f.import.clone()).collect::<Vec<_>>()));
    let root = Rng::new(args.seed);
    // vm_compute needs ~30 us per byte of a vector it has to build: vectors above 4096 bytes are
    // evaluated inside Coq only within this budget (the oracle below checks all of them)
    let mut coq_budget: u64 = if args.tier == "thorough" { 2_000_000 } else { 40_000 };
    let consume_idx = fns.iter().position(|f| !f.native.writes.is_empty() && f.visible);
    let test_write_idx = fns.iter().position(|f| !f.native.writes.is_empty() && !f.visible);


    // ---- the cases: the deterministic boundary family (identical for every seed) first, then the random stream
    let mut cfgs: Vec<Cfg> = det_family(&fns, consume_idx, test_write_idx);
    let det_count = cfgs.len();
    let mut det_floor: BTreeMap<String, u64> = BTreeMap::new();
    for c in &cfgs {
        *det_floor.entry(c.det.clone().unwrap()).or_insert(0) += 1;
    }
    for i in 0..args.cases {
        let mut rng = root.fork(i as u64);
        cfgs.push(random_cfg(&mut rng, &fns, consume_idx, test_write_idx));
    }
    report.extra.insert("deterministic_boundary_cases".into(), json!(det_count));

    for (i, cfg) in cfgs.iter().enumerate() {
        // window sampling randomness (the deterministic family uses a fixed stream)
        let mut rng = if i < det_count { Rng::new(47).fork(i as u64) } else { root.fork((i - det_count) as u64).fork(77) };
        let (init_pages, grow, seed) = (cfg.init_pages, cfg.grow, cfg.seed);
        let pages = init_pages + grow;
        let m = pages * PAGE;
        let seen = Rc::new(RefCell::new(Seen::default()));
        let mut hash = [0u8; 32];
        hash[0] = init_pages as u8;
        let inst = engine.instantiate(CodeHash(Hash(hash)), &codes[&init_pages]);
        let mut it = Inst { inst, seen: seen.clone(), rt: Box::new(RecRuntime { seen: seen.clone() }) };
        if grow > 0 {
            assert_eq!(it.call("grow", vec![grow]).0, Obs::Ok);
        }
        assert_eq!(it.call("init", vec![seed]).0, Obs::Ok);
        let pre: Vec<u8> = (0..m).map(|j| pat_byte(seed, j)).collect();
        let input_base = json!({"case": i, "pages": pages, "grown": grow, "seed": seed, "class": cfg.det});
        {
            let (o, d) = it.call("dump", vec![]);
            if o != Obs::Ok || d.as_deref() != Some(&pre[..]) {
                report.oracle_failure(i, "", "memory dump (read_slice of the whole memory) differs from the pattern the module wrote", input_base.clone());
            }
        }
        report.count(&format!("pages_{}", pages));
        if let Some(c) = &cfg.det {
            report.count(c);
        }
        let det_tag = cfg.det.clone().unwrap_or_default();

        let (canon, nontrivial, case_term, what): (String, bool, String, Option<(String, serde_json::Value)>);
        let coq_cost: u64;
        let mut expect_post = pre.clone();
        match &cfg.plan {
            Plan::Read { fi, pairs, classes } => {
                let fi = *fi;
                let f = &fns[fi];
                let mut argv = vec![0u64; f.native.params.len()];
                for (k, (pi, li)) in f.native.sig_pairs.iter().enumerate() {
                    argv[*pi] = pairs[k].0 as u64;
                    argv[*li] = pairs[k].1 as u64;
                }
                seen.borrow_mut().calls.clear();
                let (o, _) = it.call(&format!("f{}", fi), argv.clone());
                let calls = std::mem::take(&mut seen.borrow_mut().calls);
                for c in classes {
                    report.count(&format!("pair_{}", c));
                }
                report.count(&format!("fn_{}", f.import));
                // oracle
                let in_range = |p: u32, l: u32| (p as u64) + (l as u64) <= m;
                let all_in = pairs.iter().all(|(p, l)| in_range(*p, *l));
                let input = json!({"case": i, "class": det_tag, "fn": f.import, "pages": pages, "grown": grow, "seed": seed, "pairs": pairs, "outcome": format!("{:?}", o)});
                let mut w: Option<String> = None;
                match (&o, all_in) {
                    (Obs::Panic, _) => w = Some("host function panicked".into()),
                    (Obs::Ok, false) => w = Some("call succeeded although a (ptr,len) range leaves the memory".into()),
                    (Obs::Mae, true) => w = Some("MemoryAccessError although every range is inside the memory".into()),
                    (Obs::Ok, true) => {
                        if f.visible {
                            let expect: Vec<Vec<u8>> = pairs.iter().map(|(p, l)| pre[*p as usize..(*p as usize + *l as usize)].to_vec()).collect();
                            if calls.len() != 1 || calls[0].1 != expect {
                                w = Some("the runtime did not receive exactly memory[ptr..ptr+len) for every pair".into());
                            }
                        }
                    }
                    (Obs::Mae, false) => {
                        if !calls.is_empty() {
                            w = Some("runtime was called although the access failed".into());
                        }
                    }
                    (other, _) => w = Some(format!("unexpected outcome {:?}", other)),
                }
                report.count(match &o {
                    Obs::Ok => "read_ok",
                    Obs::Mae => "read_mae",
                    _ => "read_other",
                });
                let digests: Vec<String> = if f.visible && o == Obs::Ok && calls.len() == 1 { calls[0].1.iter().map(|v| digest_coq(v)).collect() } else { vec![] };
                coq_cost = if o == Obs::Ok { pairs.iter().map(|(_, l)| *l as u64).sum() } else { 0 };
                canon = format!("{}|{}|{:?}", f.import, m, pairs);
                nontrivial = classes.iter().any(|c| c != "inside_small");
                case_term = format!(
                    "CHost {}%string {} {} {} {} ({})",
                    coq_string(&f.import),
                    coq_bool(f.visible),
                    pages,
                    seed,
                    coq_list(pairs.iter().map(|(p, l)| format!("({}, {})", p, l))),
                    obs_coq(&o, &digests)
                );
                what = w.map(|x| (x, input));
            }
            Plan::Ret { p, l, class } => {
                let (p, l) = (*p, *l);
                let v = ((p as u64) << 32) | l as u64;
                let (o, d) = it.call("ret", vec![v]);
                report.count(&format!("pair_{}", class));
                report.count("fn_<return slice>");
                let inr = (p as u64) + (l as u64) <= m;
                let input = json!({"case": i, "class": det_tag, "fn": "return slice", "pages": pages, "grown": grow, "seed": seed, "pairs": [(p, l)], "outcome": format!("{:?}", o)});
                let w = match (&o, inr) {
                    (Obs::Panic, _) => Some("invoke_export panicked reading the returned slice".to_string()),
                    (Obs::Ok, true) => {
                        if d.as_deref() != Some(&pre[p as usize..p as usize + l as usize]) {
                            Some("returned bytes differ from memory[ptr..ptr+len)".to_string())
                        } else {
                            None
                        }
                    }
                    (Obs::Mae, false) => None,
                    (Obs::Ok, false) => Some("slice outside the memory was read".to_string()),
                    (Obs::Mae, true) => Some("MemoryAccessError for a slice inside the memory".to_string()),
                    (other, _) => Some(format!("unexpected outcome {:?}", other)),
                };
                report.count(match &o {
                    Obs::Ok => "read_ok",
                    Obs::Mae => "read_mae",
                    _ => "read_other",
                });
                let digests: Vec<String> = d.iter().map(|v| digest_coq(v)).collect();
                coq_cost = if o == Obs::Ok { l as u64 } else { 0 };
                canon = format!("ret|{}|{},{}", m, p, l);
                nontrivial = class != "inside_small";
                case_term = format!("CReturn {} {} {} ({})", pages, seed, v, obs_coq(&o, &digests));
                what = w.map(|x| (x, input));
            }
            Plan::Write { use_test, dest, len, id, present, class, data, data_coq } => {
                let (use_test, dest, len, id, present) = (*use_test, *dest, *len, *id, *present);
                let fi = if use_test { test_write_idx.unwrap() } else { consume_idx.unwrap() };
                let f = &fns[fi];
                let mut argv = vec![0u64; f.native.params.len()];
                if use_test {
                    argv[f.native.writes[0]] = dest as u64;
                    let li = f.native.len_params[0];
                    argv[li] = len as u64;
                } else {
                    argv[f.native.writes[0]] = dest as u64;
                    let idp = (0..f.native.params.len()).find(|k| *k != f.native.writes[0]).expect("buffer id parameter");
                    argv[idp] = id as u64;
                    if present {
                        seen.borrow_mut().bufs.insert(id, data.clone());
                    }
                }
                let (o, _) = it.call(&format!("f{}", fi), argv.clone());
                report.count(&format!("pair_{}", class));
                report.count(&format!("fn_{}", f.import));
                let inr = (dest as u64) + (len as u64) <= m;
                let input = json!({"case": i, "class": det_tag, "fn": f.import, "pages": pages, "grown": grow, "seed": seed, "dest": dest, "len": len, "buffer_id": id, "buffer_present": present, "outcome": format!("{:?}", o)});
                let mut w = match (&o, present, inr) {
                    (Obs::Panic, _, _) => Some("host function panicked".to_string()),
                    (Obs::NotFound(x), false, _) if *x == id => None,
                    (Obs::Ok, true, true) => {
                        expect_post[dest as usize..dest as usize + len as usize].copy_from_slice(data);
                        None
                    }
                    (Obs::Mae, true, false) => None,
                    (Obs::Ok, true, false) => Some("write outside the memory succeeded".to_string()),
                    (Obs::Mae, true, true) => Some("MemoryAccessError for a range inside the memory".to_string()),
                    (other, _, _) => Some(format!("unexpected outcome {:?}", other)),
                };
                if !use_test && present && seen.borrow().bufs.contains_key(&id) {
                    w = w.or(Some("buffer_consume was not called for a present buffer".to_string()));
                }
                report.count(match &o {
                    Obs::Ok => "write_ok",
                    Obs::Mae => "write_mae",
                    Obs::NotFound(_) => "write_buffer_not_found",
                    _ => "write_other",
                });
                coq_cost = len as u64;
                canon = format!("{}|{}|{},{},{},{}", f.import, m, dest, len, id, present);
                nontrivial = class != "inside_small";
                // the post-state digest is appended below (needs the dump)
                case_term = format!(
                    "CWrite {}%string {} {} {} {} {} ({}) ({})",
                    coq_string(&f.import),
                    pages,
                    seed,
                    if use_test { "None".to_string() } else { format!("(Some {})", id) },
                    coq_bool(present),
                    dest,
                    data_coq,
                    obs_coq(&o, &[])
                );
                what = w.map(|x| (x, input));
            }
        }
        seen.borrow_mut().bufs.clear();

        // memory after the call: everything outside a successful write is unchanged
        let (po, post) = it.call("dump", vec![]);
        let mut post_fail = None;
        let post = match (po, post) {
            (Obs::Ok, Some(p)) => p,
            (o, _) => {
                post_fail = Some(format!("memory dump after the call failed: {:?}", o));
                expect_post.clone()
            }
        };
        if post_fail.is_none() && post != expect_post {
            let first = post.iter().zip(expect_post.iter()).position(|(a, b)| a != b);
            post_fail = Some(format!("memory after the call differs from the expected memory (size {} vs {}, first difference at {:?})", post.len(), expect_post.len(), first));
        }
        report.case(&canon, nontrivial);
        if let Some((w, input)) = what {
            report.oracle_failure(i, "", &w, input);
        } else if let Some(w) = post_fail {
            report.oracle_failure(i, "", &w, input_base.clone());
        }
        // window of the observed post memory for the model comparison
        let mut idxs: Vec<u64> = vec![0, 1, m - 2, m - 1];
        for _ in 0..6 {
            idxs.push(rng.below(m));
        }
        if let Plan::Write { dest, len, .. } = &cfg.plan {
            // around the destination range
            let (d, l) = (*dest as u64, *len as u64);
            for k in 0..6u64 {
                for base in [d, d + l] {
                    if base + k < m {
                        idxs.push(base + k);
                    }
                    if base >= k + 1 && base - k - 1 < m {
                        idxs.push(base - k - 1);
                    }
                }
            }
            if l > 12 {
                for _ in 0..6 {
                    let x = d + rng.below(l);
                    if x < m {
                        idxs.push(x);
                    }
                }
            }
        }
        idxs.sort();
        idxs.dedup();
        let window = coq_list(idxs.iter().filter(|x| (**x as usize) < post.len()).map(|x| format!("({}, {})", x, post[*x as usize])));
        if coq_cost <= 4096 || coq_cost <= coq_budget {
            if coq_cost > 4096 {
                coq_budget -= coq_cost;
                report.count("coq_large_vectors_evaluated");
            }
            cw.push(format!("({}, ({}, {}, {}))", case_term, post.len(), mem_sum(&post), window));
        } else {
            report.count("coq_skipped_large_vectors_oracle_only");
        }
        if i < 3 || (i >= det_count && i < det_count + 2) {
            report.sample(json!({"case": case_term.chars().take(300).collect::<String>()}));
        }
    }
    for (c, n) in &det_floor {
        report.floor(c, *n);
    }

    // ---- layer B: the real ScryptoRuntime buffer table inside transactions ----
    {
        use engine_probe::{Outcome, Probe};
        let max_pages = radix_common::constants::MAX_MEMORY_SIZE_IN_PAGES as u64;
        let rounds = if args.tier == "thorough" { 4 } else { 1 };
        let obs_of = |o: &Outcome| match o {
            Outcome::Ok => "ObsOk []".to_string(),
            Outcome::NotFound(id) => format!("ObsErr (BufferNotFound {})", id),
            Outcome::TooManyBuffers => "ObsErr TooManyBuffers".to_string(),
            Outcome::MemoryAccessError => "ObsErr MemoryAccessError".to_string(),
            Outcome::Other(_) => "ObsOther".to_string(),
        };
        let mut idx = args.cases;
        for round in 0..rounds {
            let mut rng = root.fork(1_000_000 + round as u64);
            let mut p = Probe::new();
            // the KV entry value: the buffer kv_entry_read allocates holds it (sizes around the
            // SBOR length-prefix boundaries and a large one)
            let vlen = *rng.pick(&[0usize, 1, 127, 128, 1000, 16383, 16384, 70_000]);
            let st = p.store_value(vlen);
            if st != Outcome::Ok {
                report.oracle_failure(idx, "", &format!("engine probe: storing a {}-byte value failed: {:?}", vlen, st), json!({"vlen": vlen}));
                continue;
            }
            // ids: every small id, ids never handed out, u32 boundaries
            let mut ids: Vec<u32> = (0..=12).collect();
            ids.extend([31, 32, 33, 255, 65536, 0x7fff_ffff, 0x8000_0000, u32::MAX - 1, u32::MAX]);
            for _ in 0..3 {
                ids.push(rng.next_u32());
            }
            let outs: Vec<(u32, Outcome)> = ids.iter().map(|id| (*id, p.consume_id(*id))).collect();
            let oks: Vec<u32> = outs.iter().filter(|(_, o)| *o == Outcome::Ok).map(|(id, _)| *id).collect();
            let input = json!({"vlen": vlen, "outcomes": outs.iter().map(|(id, o)| format!("{} -> {:?}", id, o)).collect::<Vec<_>>()});
            // oracle: exactly one id is live (the buffer just allocated); every other id — consumed
            // earlier in the frame or never handed out — fails with BufferNotFound carrying that id
            if oks.len() != 1 {
                report.oracle_failure(idx, "", &format!("engine probe: {} ids were accepted by buffer_consume after one allocation: {:?}", oks.len(), oks), input.clone());
                continue;
            }
            let prior = oks[0];
            for (id, o) in &outs {
                let want = if *id == prior { Outcome::Ok } else { Outcome::NotFound(*id) };
                if *o != want {
                    report.oracle_failure(idx, "", &format!("engine probe: buffer_consume({}) with live id {} gave {:?}", id, prior, o), input.clone());
                }
                report.count(if *id == prior { "engine_consume_live_id" } else if *id < prior { "engine_consume_already_consumed_id" } else { "engine_consume_unknown_id" });
                cw.push(format!("(CBufTx {} 4 {} ({}), (0, 0, []))", prior, id, obs_of(o)));
                report.case(&format!("buftx|{}|{}|{}", vlen, prior, id), *id != prior);
                idx += 1;
            }
            // pointers beyond the largest memory the validator allows: MemoryAccessError, no panic
            let m = max_pages * PAGE;
            let mut dests: Vec<u64> = vec![m, m + 1, 1 << 31, u32::MAX as u64 - 1, u32::MAX as u64];
            dests.push(m + rng.below((1u64 << 32) - m));
            for d in dests {
                let o = p.consume_to(d as u32);
                if o != Outcome::MemoryAccessError {
                    report.oracle_failure(idx, "", &format!("engine probe: buffer_consume into pointer {} (memory <= {} bytes) gave {:?}", d, m, o), json!({"vlen": vlen, "dest": d}));
                }
                report.count("engine_consume_ptr_beyond_memory");
                cw.push(format!("(CBufPtr {} 4 {} {} 1 ({}), (0, 0, []))", prior, max_pages, d, obs_of(&o)));
                report.case(&format!("bufptr|{}|{}", vlen, d), true);
                idx += 1;
            }
            report.extra.insert(format!("engine_probe_round_{}", round), json!({"value_len": vlen, "live_id": prior, "transactions": p.runs}));
        }
        // ---- deterministic buffer-table scripts in the real ScryptoRuntime (max 4 live buffers;
        // the frame starts with the argument buffer id 0 live)
        {
            use engine_probe::{SOp, ScriptProbe, ALLOC_LEN, ARGS_LEN};
            use SOp::{Alloc as A, Consume as C};
            let d = 1024u32;
            let mp = PAGE as u32; // the script module has one page
            let scripts: Vec<(&str, Vec<SOp>)> = vec![
                ("script_double_consume", vec![C(0, d), C(0, d)]),
                ("script_consume_once_ok", vec![C(0, d)]),
                ("script_unknown_id_next", vec![C(1, d)]),
                ("script_unknown_id_far", vec![C(7, d)]),
                ("script_unknown_id_u32_max", vec![C(u32::MAX, d)]),
                ("script_live_max_minus_1", vec![A, A]),
                ("script_live_exactly_max", vec![A, A, A]),
                ("script_live_max_plus_1", vec![A, A, A, A]),
                ("script_consume_frees_slot", vec![A, A, A, C(2, d), A]),
                ("script_consume_frees_one_slot_only", vec![A, A, A, C(2, d), A, A]),
                ("script_ids_not_reused", vec![A, C(1, d), A, C(2, d), A, C(3, d), A, C(4, d), A, C(5, d), C(1, d)]),
                ("script_total_allocations_beyond_max", vec![C(0, d), A, C(1, d), A, C(2, d), A, C(3, d), A, C(4, d), A, C(5, d)]),
                ("script_consume_order_middle_first", vec![A, A, A, C(1, d), C(3, d), C(2, d), C(0, d)]),
                ("script_consume_order_first_first", vec![A, A, A, C(0, d), C(3, d), C(1, d), C(2, d)]),
                ("script_consume_last_twice", vec![A, A, A, C(3, d), C(3, d)]),
                ("script_consume_moved_entry_after_swap_remove", vec![A, A, A, C(0, d), C(3, d), C(3, d)]),
                ("script_write_end_exact", vec![A, C(1, mp - ALLOC_LEN as u32)]),
                ("script_write_end_plus_1", vec![A, C(1, mp - ALLOC_LEN as u32 + 1)]),
                ("script_args_write_end_exact", vec![C(0, mp - ARGS_LEN as u32)]),
                ("script_args_write_end_plus_1", vec![C(0, mp - ARGS_LEN as u32 + 1)]),
                ("script_write_dest_eq_size", vec![C(0, mp)]),
                ("script_write_dest_u32_max", vec![C(0, u32::MAX)]),
                ("script_failed_lookup_before_limit", vec![A, A, A, C(9, d)]),
            ];
            let mut sp = ScriptProbe::new(&scripts.iter().map(|(_, o)| o.clone()).collect::<Vec<_>>());
            for (k, (class, ops)) in scripts.iter().enumerate() {
                let o = sp.run(k);
                // oracle: plain replay of the property (ids consecutive from 0, live from allocation to the
                // first consume, at most 4 live, a write must fit the one-page memory)
                let mut live: BTreeMap<u32, u64> = BTreeMap::new();
                live.insert(0, ARGS_LEN);
                let mut next = 1u32;
                let mut want = Outcome::Ok;
                for op in ops {
                    match op {
                        SOp::Alloc => {
                            if live.len() >= 4 {
                                want = Outcome::TooManyBuffers;
                                break;
                            }
                            live.insert(next, ALLOC_LEN);
                            next += 1;
                        }
                        SOp::Consume(id, dest) => match live.remove(id) {
                            None => {
                                want = Outcome::NotFound(*id);
                                break;
                            }
                            Some(len) => {
                                if *dest as u64 + len > PAGE {
                                    want = Outcome::MemoryAccessError;
                                    break;
                                }
                            }
                        },
                    }
                }
                if o != want {
                    report.oracle_failure(idx, "", &format!("engine script {}: observed {:?}, the buffer-table property demands {:?}", class, o, want), json!({"class": class, "ops": format!("{:?}", ops)}));
                }
                report.count(&format!("det_{}", class));
                report.floor(&format!("det_{}", class), 1);
                let ops_coq = coq_list(ops.iter().map(|op| match op {
                    SOp::Alloc => format!("SA {}", ALLOC_LEN),
                    SOp::Consume(id, dest) => format!("SC {} {}", id, dest),
                }));
                cw.push(format!("(CBufScript 4 1 {} {} ({}), (0, 0, []))", ARGS_LEN, ops_coq, obs_of(&o)));
                report.case(&format!("script|{}", class), true);
                idx += 1;
            }
            report.extra.insert("engine_script_transactions".into(), json!(sp.runs));
        }
        report.floor("engine_consume_live_id", 1);
        report.floor("engine_consume_unknown_id", 10);
        report.floor("engine_consume_ptr_beyond_memory", 5);
    }
    // ---- layer C: the REAL ScryptoRuntime (on a real SystemService) — its buffer table driven directly
    // with arbitrary histories for every ScryptoVmVersion (limit 32 / 32 / 4), and the complete return
    // path of the hash host functions through wasmi: memory -> runtime -> allocate_buffer -> i64 to WASM
    // -> buffer_consume -> write_memory
    {
        use radix_engine::vm::ScryptoVmVersion;
        let host = real_runtime::RealRuntimeHost::new();
        let hash_fns: Vec<(usize, &str)> = fns
            .iter()
            .enumerate()
            .filter_map(|(i, f)| match f.import.as_str() {
                "crypto_utils_blake2b_256_hash" => Some((i, "blake2b")),
                "crypto_utils_keccak256_hash" => Some((i, "keccak")),
                _ => None,
            })
            .collect();
        assert_eq!(hash_fns.len(), 2, "hash host functions not found in the scan");
        let cidx = consume_idx.expect("buffer_consume host function");
        let versions = [(ScryptoVmVersion::V1_0, 32u64), (ScryptoVmVersion::V1_1, 32), (ScryptoVmVersion::V1_2, 4)];
        let m1 = PAGE;
        let big = |n: u64| RData::Pat(9, n);
        let mut fam: Vec<(String, usize, Vec<RStep>)> = Vec::new(); // class, version index, steps
        for (vi, (_, max)) in versions.iter().enumerate() {
            let max = *max;
            let allocs = |k: u64| -> Vec<RStep> { (0..k).map(|j| RStep::Alloc(RData::Bytes(vec![j as u8; (j % 5) as usize]))).collect() };
            let mut t = |name: &str, steps: Vec<RStep>| fam.push((format!("real_{}", name), vi, steps));
            t("fill_to_max_minus_1", allocs(max - 1));
            t("fill_to_exactly_max", allocs(max));
            t("fill_to_max_plus_1_and_plus_2", { let mut v = allocs(max); v.push(RStep::Alloc(RData::Bytes(vec![1]))); v.push(RStep::Alloc(RData::Bytes(vec![]))); v });
            t("consume_after_too_many_then_alloc", { let mut v = allocs(max); v.extend([RStep::Alloc(RData::Bytes(vec![1])), RStep::Consume(0), RStep::Consume(0), RStep::Alloc(RData::Bytes(vec![7, 7])), RStep::Alloc(RData::Bytes(vec![8])), RStep::Consume(max as u32), RStep::Consume(max as u32 + 1)]); v });
            t("zero_length_buffer", vec![RStep::Alloc(RData::Bytes(vec![])), RStep::Consume(0), RStep::Consume(0)]);
            t("zero_length_host_consume_at_size_and_size_plus_1", vec![RStep::Alloc(RData::Bytes(vec![])), RStep::Alloc(RData::Bytes(vec![])), RStep::Alloc(RData::Bytes(vec![])), RStep::HostConsume(0, m1 as u32), RStep::HostConsume(1, m1 as u32 + 1), RStep::HostConsume(2, 0), RStep::Consume(1)]);
            t("large_buffer", vec![RStep::Alloc(big(5_000)), RStep::Alloc(big(1)), RStep::Consume(0), RStep::Consume(1)]);
            t("unknown_ids_on_empty_table", vec![RStep::Consume(0), RStep::Consume(1), RStep::Consume(u32::MAX), RStep::HostConsume(0, 16), RStep::HostConsume(u32::MAX, 16)]);
            t("swap_remove_orders", vec![RStep::Alloc(RData::Bytes(vec![0])), RStep::Alloc(RData::Bytes(vec![1])), RStep::Alloc(RData::Bytes(vec![2])), RStep::Alloc(RData::Bytes(vec![3])), RStep::Consume(0), RStep::Consume(3), RStep::Consume(3), RStep::Consume(1), RStep::Consume(2), RStep::Consume(2)]);
            t("ids_not_reused", (0..(2 * max + 3)).flat_map(|j| vec![RStep::Alloc(RData::Bytes(vec![j as u8])), RStep::Consume(j as u32)]).chain([RStep::Consume(0), RStep::Consume(max as u32)]).collect());
            t("host_consume_end_exact_and_plus_1", vec![RStep::Alloc(RData::Pat(3, 300)), RStep::Alloc(RData::Pat(4, 300)), RStep::HostConsume(0, (m1 - 300) as u32), RStep::HostConsume(1, (m1 - 299) as u32), RStep::Consume(1), RStep::Consume(0)]);
            for (hi, hname) in [(0usize, hash_fns[0].1), (1usize, hash_fns[1].1)] {
                let mut t = |name: &str, steps: Vec<RStep>| fam.push((format!("real_ret_{}_{}", hname, name), vi, steps));
                t("table_empty_then_consume", vec![RStep::Hash(hi, 100, 50, 8), RStep::HostConsume(0, 2000), RStep::Consume(0)]);
                t("table_max_minus_1", { let mut v = allocs(max - 1); v.push(RStep::Hash(hi, 0, 1, 64)); v.push(RStep::Consume(max as u32 - 1)); v });
                t("table_full_too_many", { let mut v = allocs(max); v.push(RStep::Hash(hi, 0, 1, 64)); v.push(RStep::Consume(max as u32)); v.push(RStep::Consume(0)); v.push(RStep::Hash(hi, 0, 1, 64)); v });
                t("after_consumed_ids", vec![RStep::Alloc(RData::Bytes(vec![1])), RStep::Consume(0), RStep::Alloc(RData::Bytes(vec![2])), RStep::Consume(1), RStep::Hash(hi, 5, 5, 128), RStep::Consume(2)]);
                t("source_end_exact_and_plus_1", vec![RStep::Hash(hi, (m1 - 10) as u32, 10, 8), RStep::Hash(hi, (m1 - 10) as u32, 11, 16), RStep::Consume(0), RStep::Consume(1)]);
                t("source_empty_at_size_and_plus_1", vec![RStep::Hash(hi, m1 as u32, 0, 8), RStep::Hash(hi, m1 as u32 + 1, 0, 16), RStep::Consume(0), RStep::Consume(1)]);
                t("consume_end_exact", vec![RStep::Hash(hi, 0, 3, 8), RStep::HostConsume(0, (m1 - 32) as u32), RStep::Consume(0)]);
                t("consume_end_plus_1_buffer_is_gone", vec![RStep::Hash(hi, 0, 3, 8), RStep::HostConsume(0, (m1 - 31) as u32), RStep::Consume(0), RStep::HostConsume(0, 0)]);
                t("dest_overlaps_source_and_scratch", vec![RStep::Hash(hi, 0, 40, 16), RStep::HostConsume(0, 8), RStep::Hash(hi, 0, 40, 16)]);
                t("large_source", vec![RStep::Hash(hi, 100, 4000, 8), RStep::Consume(0)]);
            }
        }
        let det_real = fam.len();
        let nrand = if args.tier == "thorough" { 400 } else { 30 };
        for k in 0..nrand {
            let mut rng = root.fork(2_000_000 + k as u64);
            let vi = rng.usize_below(3);
            let max = versions[vi].1;
            let len = rng.range(5, 60) as usize;
            let mut steps = Vec::new();
            let mut issued = 0u32;
            for _ in 0..len {
                let r = rng.below(100);
                if r < 40 {
                    let d = match rng.below(10) {
                        0 => RData::Bytes(vec![]),
                        1 => RData::Pat(rng.below(256), rng.range(41, 1500)),
                        _ => {
                            let n = rng.below(12) as usize;
                            RData::Bytes(rng.bytes(n))
                        }
                    };
                    steps.push(RStep::Alloc(d));
                    issued += 1;
                } else if r < 65 {
                    steps.push(RStep::Consume(rng.below(issued as u64 + 2) as u32));
                } else if r < 80 {
                    let bd = rng.chance(1, 2);
                    let (p, l, _) = gen_pair(&mut rng, m1, bd);
                    // in-range sources are kept short (vm_compute builds the vector read)
                    let l = if p as u64 + l as u64 <= m1 { l.min(1500) } else { l };
                    steps.push(RStep::Hash(rng.usize_below(2), p, l, (8 * rng.below(100)) as u32));
                    issued += 1;
                } else {
                    let bd = rng.chance(1, 2);
                    let (p, _, _) = gen_pair(&mut rng, m1, bd);
                    steps.push(RStep::HostConsume(rng.below(issued as u64 + 2) as u32, p));
                }
                if max == 4 && rng.chance(1, 6) {
                    // stay near the limit
                    steps.push(RStep::Alloc(RData::Bytes(vec![9])));
                    issued += 1;
                }
            }
            fam.push(("real_random_history".to_string(), vi, steps));
        }
        let mut idx = 3_000_000usize;
        let mut hash1 = [0u8; 32];
        hash1[0] = 1;
        for (ci, (class, vi, steps)) in fam.iter().enumerate() {
            let (version, max) = versions[*vi];
            let seed = (ci as u64 * 29) % 256;
            let mut mem: Vec<u8> = (0..m1).map(|j| pat_byte(seed, j)).collect();
            // the implementation
            let mut inst = engine.instantiate(CodeHash(Hash(hash1)), &codes[&1]);
            let nofail: Vec<u64> = vec![seed];
            let (outs, final_mem): (Vec<ROut>, Option<Vec<u8>>) = host.with_runtime(version, |rt| {
                let r0 = catch(std::panic::AssertUnwindSafe(|| inst.invoke_export("init", nofail.iter().map(|x| Buffer(*x)).collect(), rt)));
                assert!(matches!(r0, Ok(Ok(_))), "init failed");
                let mut outs = Vec::new();
                for st in steps {
                    let o = match st {
                        RStep::Alloc(d) => match catch(std::panic::AssertUnwindSafe(|| rt.allocate_buffer(d.bytes()))) {
                            Err(_) => ROut::Panic,
                            Ok(Ok(b)) => ROut::Alloc(b.0, b.id(), b.len()),
                            Ok(Err(e)) => rerr(e),
                        },
                        RStep::Consume(id) => match catch(std::panic::AssertUnwindSafe(|| rt.buffer_consume(*id))) {
                            Err(_) => ROut::Panic,
                            Ok(Ok(v)) => ROut::Data(v),
                            Ok(Err(e)) => rerr(e),
                        },
                        RStep::Hash(hi, p, l, scratch) => {
                            let fi = hash_fns[*hi].0;
                            let a = vec![*p as u64, *l as u64, *scratch as u64];
                            match catch(std::panic::AssertUnwindSafe(|| inst.invoke_export(&format!("r{}", fi), a.iter().map(|x| Buffer(*x)).collect(), rt))) {
                                Err(_) => ROut::Panic,
                                Ok(Ok(_)) => {
                                    // the i64 the host returned was stored by the module at `scratch`
                                    match catch(std::panic::AssertUnwindSafe(|| inst.invoke_export("ret", vec![Buffer(((*scratch as u64) << 32) | 8)], rt))) {
                                        Ok(Ok(b)) if b.len() == 8 => {
                                            let v = u64::from_le_bytes(b.try_into().unwrap());
                                            ROut::Alloc(v, (v >> 32) as u32, (v & 0xffff_ffff) as u32)
                                        }
                                        _ => ROut::Other("cannot read back the returned value".into()),
                                    }
                                }
                                Ok(Err(e)) => rerr(e),
                            }
                        }
                        RStep::HostConsume(id, dest) => {
                            let a = vec![*id as u64, *dest as u64];
                            match catch(std::panic::AssertUnwindSafe(|| inst.invoke_export(&format!("f{}", cidx), a.iter().map(|x| Buffer(*x)).collect(), rt))) {
                                Err(_) => ROut::Panic,
                                Ok(Ok(_)) => ROut::Ok,
                                Ok(Err(e)) => rerr(e),
                            }
                        }
                    };
                    let stop = o == ROut::Panic;
                    outs.push(o);
                    if stop {
                        break;
                    }
                }
                let fm = match catch(std::panic::AssertUnwindSafe(|| inst.invoke_export("dump", vec![], rt))) {
                    Ok(Ok(v)) => Some(v),
                    _ => None,
                };
                (outs, fm)
            });
            // oracle: the property replayed with a plain map and a plain byte vector
            let mut live: BTreeMap<u32, Vec<u8>> = BTreeMap::new();
            let mut next = 0u32;
            let mut touched: Vec<u64> = Vec::new();
            let mut fail: Option<String> = None;
            for (k, (st, o)) in steps.iter().zip(outs.iter()).enumerate() {
                let want = match st {
                    RStep::Alloc(d) => {
                        if live.len() as u64 >= max {
                            ROut::TooMany
                        } else {
                            let b = d.bytes();
                            let id = next;
                            next += 1;
                            let w = ROut::Alloc(((id as u64) << 32) | b.len() as u64, id, b.len() as u32);
                            live.insert(id, b);
                            w
                        }
                    }
                    RStep::Consume(id) => match live.remove(id) {
                        Some(b) => ROut::Data(b),
                        None => ROut::NotFound(*id),
                    },
                    RStep::Hash(hi, p, l, scratch) => {
                        if *p as u64 + *l as u64 > m1 {
                            ROut::Mae
                        } else if live.len() as u64 >= max {
                            ROut::TooMany
                        } else {
                            let src = &mem[*p as usize..*p as usize + *l as usize];
                            let h: Vec<u8> = if hash_fns[*hi].1 == "blake2b" { radix_common::crypto::blake2b_256_hash(src).to_vec() } else { radix_common::crypto::keccak256_hash(src).to_vec() };
                            let id = next;
                            next += 1;
                            let v = ((id as u64) << 32) | h.len() as u64;
                            live.insert(id, h);
                            mem[*scratch as usize..*scratch as usize + 8].copy_from_slice(&v.to_le_bytes());
                            touched.extend(*scratch as u64..*scratch as u64 + 8);
                            ROut::Alloc(v, id, 32)
                        }
                    }
                    RStep::HostConsume(id, dest) => match live.remove(id) {
                        None => ROut::NotFound(*id),
                        Some(b) => {
                            if *dest as u64 + b.len() as u64 > m1 {
                                ROut::Mae
                            } else {
                                mem[*dest as usize..*dest as usize + b.len()].copy_from_slice(&b);
                                touched.extend([*dest as u64, *dest as u64 + b.len() as u64]);
                                ROut::Ok
                            }
                        }
                    },
                };
                if *o != want && fail.is_none() {
                    fail = Some(format!("step {} ({:?}): observed {}, the property demands {}", k, st, o.short(), want.short()));
                }
            }
            if fail.is_none() && final_mem.as_deref() != Some(&mem[..]) {
                let first = final_mem.as_ref().and_then(|fm| fm.iter().zip(mem.iter()).position(|(a, b)| a != b));
                fail = Some(format!("memory after the script differs from the expected memory (first difference at {:?})", first));
            }
            if let Some(w) = fail {
                report.oracle_failure(idx, "", &format!("real ScryptoRuntime, {} (limit {}): {}", class, max, w), json!({"class": class, "max": max, "steps": format!("{:?}", steps).chars().take(600).collect::<String>()}));
            }
            let det_class = format!("det_{}", class);
            if ci < det_real {
                report.count(&det_class);
            } else {
                report.count("real_random_history");
            }
            for o in &outs {
                report.count(match o {
                    ROut::Alloc(..) => "real_out_alloc",
                    ROut::Data(_) => "real_out_data",
                    ROut::Ok => "real_out_host_consume_ok",
                    ROut::TooMany => "real_out_too_many_buffers",
                    ROut::NotFound(_) => "real_out_buffer_not_found",
                    ROut::Mae => "real_out_memory_access_error",
                    _ => "real_out_other",
                });
            }
            // Coq case
            let fm = final_mem.unwrap_or_else(|| mem.clone());
            let mut idxs: Vec<u64> = vec![0, 1, m1 - 2, m1 - 1];
            for t in &touched {
                for d in 0..3u64 {
                    idxs.push(t + d);
                    idxs.push(t.saturating_sub(d));
                }
            }
            idxs.retain(|x| *x < m1);
            idxs.sort();
            idxs.dedup();
            let window = coq_list(idxs.iter().map(|x| format!("({}, {})", x, fm[*x as usize])));
            // hash results for the model: replay once more to collect them in step order
            let mut results: Vec<String> = Vec::new();
            {
                let mut mem2: Vec<u8> = (0..m1).map(|j| pat_byte(seed, j)).collect();
                let mut live2: BTreeMap<u32, Vec<u8>> = BTreeMap::new();
                let mut next2 = 0u32;
                for st in steps.iter().take(outs.len()) {
                    match st {
                        RStep::Alloc(d) => {
                            if (live2.len() as u64) < max {
                                live2.insert(next2, d.bytes());
                                next2 += 1;
                            }
                            results.push(format!("RAlloc ({})", d.coq()));
                        }
                        RStep::Consume(id) => {
                            live2.remove(id);
                            results.push(format!("RConsume {}", id));
                        }
                        RStep::Hash(hi, p, l, scratch) => {
                            let inr = *p as u64 + *l as u64 <= m1;
                            let h: Vec<u8> = if inr {
                                let src = &mem2[*p as usize..*p as usize + *l as usize];
                                if hash_fns[*hi].1 == "blake2b" { radix_common::crypto::blake2b_256_hash(src).to_vec() } else { radix_common::crypto::keccak256_hash(src).to_vec() }
                            } else {
                                vec![]
                            };
                            if inr && (live2.len() as u64) < max {
                                let v = ((next2 as u64) << 32) | 32;
                                live2.insert(next2, h.clone());
                                next2 += 1;
                                mem2[*scratch as usize..*scratch as usize + 8].copy_from_slice(&v.to_le_bytes());
                            }
                            results.push(format!("RHash {} {} {} {}", p, l, scratch, coq_bytes(&h)));
                        }
                        RStep::HostConsume(id, dest) => {
                            if let Some(b) = live2.remove(id) {
                                if *dest as u64 + b.len() as u64 <= m1 {
                                    mem2[*dest as usize..*dest as usize + b.len()].copy_from_slice(&b);
                                }
                            }
                            results.push(format!("RHostConsume {} {}", id, dest));
                        }
                    }
                }
            }
            let outs_coq = coq_list(outs.iter().map(|o| o.coq()));
            cw.push(format!("(CReal {} 1 {} {} {}, ({}, 0, {}))", max, seed, coq_list(results.into_iter()), outs_coq, fm.len(), window));
            report.case(&format!("real|{}|{}|{}", class, vi, ci), true);
            idx += 1;
        }
        let mut per_class: BTreeMap<String, u64> = BTreeMap::new();
        for (class, _, _) in fam.iter().take(det_real) {
            *per_class.entry(format!("det_{}", class)).or_insert(0) += 1;
        }
        for (c, n) in &per_class {
            report.floor(c, *n);
        }
        report.floor("real_random_history", nrand as u64);
        report.floor("real_out_too_many_buffers", 10);
        report.floor("real_out_buffer_not_found", 10);
        report.floor("real_out_memory_access_error", 6);
        report.extra.insert("real_runtime_cases".into(), json!({"deterministic": det_real, "random": nrand}));
    }
    let n = args.cases as u64;
    report.floor("read_ok", n / 20);
    report.floor("read_mae", n / 10);
    report.floor("write_ok", n / 60);
    report.floor("write_mae", n / 60);
    report.floor("pair_sum_near_2_32", n / 100);
    report.floor("pair_end_exact", n / 100);
    report.floor("pair_end_plus_1", n / 100);
    cw.write(&args.out, args.shards).unwrap();
    report.write(&args.out).unwrap();
}
