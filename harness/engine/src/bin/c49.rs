//! C49 correspondence harness: execution limits.
//!
//! Three kinds of cases
//!  * direct: a `LimitsModule` (process_substate_key / process_substate_value /
//!    process_io_access) and a `SystemModuleMixer` (add_log / checked_add_event /
//!    assert_can_add_event / add_event_unchecked / set_panic_message) built from a random
//!    `LimitParameters` are driven call by call with sizes around the configured limits; every
//!    answer (Ok / error variant with its payload / panic) is compared with the Coq model.
//!    Oracle (plain replay, no limit logic): a BTreeMap of the tracked substates gives the exact
//!    heap/track totals; a call must fail iff the relevant size (or total, or count) is above the
//!    configured limit, and the reported `actual` must be that size.
//!  * tx: whole transactions on LedgerSimulator with overridden LimitParameters: a manifest of
//!    calls into the test blueprints `transaction_limits` / `recursion` (logs, events, panic
//!    message, recursion depth, invoke payload, substate value) with parameters at limit-1,
//!    limit, limit+1. The receipt's TransactionLimitsError (or its absence) is compared with the
//!    model run on the abstract event list of the program. Oracle: success => every parameter is
//!    within its limit; all parameters within limits => not failed by a limit; a limit error
//!    names a limit that a parameter of the program really exceeds.
//!  * deterministic boundary family (identical for every seed, generated before the random stream):
//!    hand-written scenarios through the same `run_direct` / `run_tx` paths, one class name each
//!    (`detc_*`), every comparison of the modelled code at limit-1 / limit / limit+1 counted as
//!    `det_*_<relation>` with a floor, plus the heap-drop peak invariant on real transactions.
//!  * boundary: heap / track total limits on real transactions: if a run fails with
//!    `actual = a` under limit L then a > L, the same program under limit a-1 fails with the same
//!    a, and under limit a it does not fail at a any more (`>` not `>=`).
use radix_common::prelude::*;
use radix_engine::errors::*;
use radix_engine::system::system_modules::auth::AuthModule;
use radix_engine::system::system_modules::costing::*;
use radix_engine::system::system_modules::execution_trace::ExecutionTraceModule;
use radix_engine::system::system_modules::kernel_trace::KernelTraceModule;
use radix_engine::system::system_modules::limits::*;
use radix_engine::system::system_modules::transaction_runtime::{Event, TransactionRuntimeModule};
use radix_engine::system::system_modules::{EnabledModules, SystemModuleMixer};
use radix_engine::system::system_type_checker::TypeCheckError;
use radix_engine::track::interface::{CanonicalSubstateKey, IOAccess};
use radix_engine::transaction::*;
use radix_engine_interface::blueprints::package::*;
use radix_engine_interface::prelude::*;
use radix_transactions::prelude::*;
use scrypto_test::prelude::{LedgerSimulator, LedgerSimulatorBuilder, NoExtension};
use serde_json::json;
use std::collections::BTreeMap;
use vh_common::*;

type Ledger = LedgerSimulator<NoExtension, radix_substate_store_impls::memory_db::InMemorySubstateDatabase>;

const TL_WASM: &[u8] = include_bytes!("../../assets/c49/transaction_limits.wasm");
const TL_RPD: &[u8] = include_bytes!("../../assets/c49/transaction_limits.rpd");
const REC_WASM: &[u8] = include_bytes!("../../assets/c49/recursion.wasm");
const REC_RPD: &[u8] = include_bytes!("../../assets/c49/recursion.rpd");

// ------------------------------------------------------------------------------------------------
// canonical outcomes
// ------------------------------------------------------------------------------------------------

#[derive(Clone, Debug, PartialEq, Eq)]
enum Res {
    Ok,
    Err(TransactionLimitsError),
    Panic,
    Other(String),
}

fn lerr_coq(e: &TransactionLimitsError) -> String {
    use TransactionLimitsError::*;
    match e {
        MaxSubstateKeySizeExceeded(n) => format!("KeyExceeded {}", n),
        MaxSubstateSizeExceeded(n) => format!("ValueExceeded {}", n),
        MaxInvokePayloadSizeExceeded(n) => format!("InvokeExceeded {}", n),
        MaxCallDepthLimitReached => "CallDepthReached".into(),
        TrackSubstateSizeExceeded { actual, max } => format!("TrackExceeded {} {}", actual, max),
        HeapSubstateSizeExceeded { actual, max } => format!("HeapExceeded {} {}", actual, max),
        LogSizeTooLarge { actual, max } => format!("LogTooLarge {} {}", actual, max),
        EventSizeTooLarge { actual, max } => format!("EventTooLarge {} {}", actual, max),
        PanicMessageSizeTooLarge { actual, max } => format!("PanicTooLarge {} {}", actual, max),
        TooManyLogs => "TooManyLogs".into(),
        TooManyEvents => "TooManyEvents".into(),
    }
}
fn res_coq(r: &Res) -> String {
    match r {
        Res::Ok => "ROk".into(),
        Res::Err(e) => format!("RErr ({})", lerr_coq(e)),
        Res::Panic => "RPanic".into(),
        Res::Other(_) => "RPanic".into(), // never produced by the direct driver; flagged separately
    }
}
fn of_result(r: Result<Result<(), RuntimeError>, String>) -> Res {
    match r {
        Err(_) => Res::Panic,
        Ok(Ok(())) => Res::Ok,
        Ok(Err(RuntimeError::SystemModuleError(SystemModuleError::TransactionLimitsError(e)))) => Res::Err(e),
        Ok(Err(e)) => Res::Other(format!("{:?}", e)),
    }
}

fn cfg_coq(p: &LimitParameters) -> String {
    format!(
        "(mkConfig {} {} {} {} {} {} {} {} {} {} {})",
        p.max_call_depth,
        p.max_heap_substate_total_bytes,
        p.max_track_substate_total_bytes,
        p.max_substate_key_size,
        p.max_substate_value_size,
        p.max_invoke_input_size,
        p.max_event_size,
        p.max_log_size,
        p.max_panic_message_size,
        p.max_number_of_logs,
        p.max_number_of_events
    )
}
fn cfg_json(p: &LimitParameters) -> serde_json::Value {
    json!(cfg_coq(p))
}

// ------------------------------------------------------------------------------------------------
// direct cases
// ------------------------------------------------------------------------------------------------

#[derive(Clone, Debug)]
enum SKey {
    Map(usize),
    Sorted(usize),
    Field,
}
impl SKey {
    fn real(&self) -> SubstateKey {
        match self {
            SKey::Map(n) => SubstateKey::Map(vec![7u8; *n]),
            SKey::Sorted(n) => SubstateKey::Sorted(([1, 2], vec![9u8; *n])),
            SKey::Field => SubstateKey::Field(3),
        }
    }
    fn coq(&self) -> String {
        match self {
            SKey::Map(n) => format!("(KMap {})", n),
            SKey::Sorted(n) => format!("(KSorted {})", n),
            SKey::Field => "KField".into(),
        }
    }
    /// the size the limit is about (the documented meaning: length of the key bytes)
    fn size(&self) -> usize {
        match self {
            SKey::Map(n) => *n,
            SKey::Sorted(n) => *n + 2,
            SKey::Field => 1,
        }
    }
}

#[derive(Clone, Debug)]
enum DOp {
    Key(SKey),
    Value(usize), // number of raw bytes inside the value; the value length is measured
    Io { heap: bool, key: usize, old: Option<usize>, new: Option<usize> },
    Read(bool),
    Log(usize),
    Event(usize),
    AssertCanAdd,
    AddUnchecked(usize),
    PanicMsg(usize),
}

fn opt_coq(o: &Option<usize>) -> String {
    match o {
        Some(n) => format!("(Some {})", n),
        None => "None".into(),
    }
}

fn around(rng: &mut Rng, pivot: usize, span: usize) -> usize {
    match rng.below(10) {
        0 | 1 | 2 => pivot,
        3 | 4 => pivot.saturating_add(1),
        5 | 6 => pivot.saturating_sub(1),
        7 => pivot.saturating_add(2),
        8 => 0,
        _ => rng.usize_below(span.max(1) * 2 + 2),
    }
}

fn make_mixer(lp: LimitParameters, limits_on: bool, runtime_on: bool) -> SystemModuleMixer {
    let mut enabled = EnabledModules::empty();
    if limits_on {
        enabled |= EnabledModules::LIMITS;
    }
    if runtime_on {
        enabled |= EnabledModules::TRANSACTION_RUNTIME;
    }
    let costing = CostingModule {
        current_depth: 0,
        fee_reserve: SystemLoanFeeReserve::new(
            CostingParameters::babylon_genesis(),
            TransactionCostingParameters { tip: TipSpecifier::None, free_credit_in_xrd: Decimal::ZERO },
            false,
        ),
        fee_table: FeeTable::latest(),
        tx_payload_len: 0,
        tx_num_of_signature_validations: 0,
        config: CostingModuleConfig::babylon_genesis(),
        cost_breakdown: None,
        detailed_cost_breakdown: None,
        on_apply_cost: Default::default(),
    };
    SystemModuleMixer::new(
        enabled,
        KernelTraceModule,
        TransactionRuntimeModule::new(NetworkDefinition::simulator(), hash(b"c49")),
        AuthModule::new(),
        LimitsModule::from_params(lp),
        costing,
        ExecutionTraceModule::new(0),
    )
}

fn some_event(size: usize) -> Event {
    Event {
        type_identifier: EventTypeIdentifier(
            Emitter::Function(BlueprintId::new(&PACKAGE_PACKAGE, "X")),
            "E".to_string(),
        ),
        payload: vec![0u8; size],
        flags: EventFlags::empty(),
    }
}

/// A direct-drive scenario: configuration, enabled-module flags, the canonical keys the IO events
/// refer to (by index) and the call list. Random scenarios come from `gen_direct`, hand-written
/// ones from `det_direct_family`; both are executed by `run_direct`.
struct Scenario {
    lp: LimitParameters,
    limits_on: bool,
    runtime_on: bool,
    pool: Vec<CanonicalSubstateKey>,
    ops: Vec<DOp>,
}

fn direct_case(rng: &mut Rng, report: &mut Report, idx: usize) -> String {
    let sc = gen_direct(rng, report);
    run_direct(&sc, report, idx, None)
}

fn gen_direct(rng: &mut Rng, report: &mut Report) -> Scenario {
    // configuration
    let flavour = rng.below(4);
    let mut lp = LimitParameters::babylon_genesis();
    lp.max_substate_key_size = rng.usize_below(120);
    lp.max_substate_value_size = 8 + rng.usize_below(600);
    lp.max_log_size = rng.usize_below(200);
    lp.max_event_size = rng.usize_below(200);
    lp.max_panic_message_size = rng.usize_below(200);
    lp.max_number_of_logs = rng.usize_below(8);
    lp.max_number_of_events = rng.usize_below(8);
    match flavour {
        0 => {
            // probe: every IO answer reports the heap counter
            lp.max_heap_substate_total_bytes = 0;
            lp.max_track_substate_total_bytes = rng.usize_below(3000);
        }
        1 => {
            // probe: every IO answer reports the track counter
            lp.max_heap_substate_total_bytes = usize::MAX;
            lp.max_track_substate_total_bytes = 0;
        }
        _ => {
            lp.max_heap_substate_total_bytes = rng.usize_below(4000);
            lp.max_track_substate_total_bytes = rng.usize_below(4000);
        }
    }
    let (limits_on, runtime_on) = match rng.below(10) {
        0 => (false, true),
        1 => (true, false),
        2 => (false, false),
        _ => (true, true),
    };
    report.count(&format!("direct_flavour_{}", flavour));

    // key pool: canonical keys of different shapes
    let nkeys = 3 + rng.usize_below(8);
    let pool: Vec<CanonicalSubstateKey> = (0..nkeys)
        .map(|i| {
            let mut id = [0u8; NodeId::LENGTH];
            id[0] = i as u8;
            let sk = match rng.below(3) {
                0 => SubstateKey::Field(i as u8),
                1 => SubstateKey::Map(vec![i as u8; 1 + rng.usize_below(60)]),
                _ => SubstateKey::Sorted(([0, i as u8], vec![i as u8; rng.usize_below(60)])),
            };
            CanonicalSubstateKey { node_id: NodeId(id), partition_number: PartitionNumber(rng.below(4) as u8), substate_key: sk }
        })
        .collect();
    // plain replay stores: key index -> size
    let mut stores: [BTreeMap<usize, usize>; 2] = [BTreeMap::new(), BTreeMap::new()];

    let nops = 10 + rng.usize_below(50);
    let mut ops = Vec::new();
    for _ in 0..nops {
        // the module object itself is only reached through the mixer when LIMITS is enabled
        let k = if limits_on { rng.below(100) } else { 78 + rng.below(22) };
        let op = if k < 55 {
            let heap = rng.bool();
            let key = rng.usize_below(nkeys);
            let cur = stores[heap as usize].get(&key).cloned();
            let klen = pool[key].len();
            let limit = if heap { lp.max_heap_substate_total_bytes } else { lp.max_track_substate_total_bytes };
            let total: usize = stores[heap as usize].iter().map(|(k, s)| pool[*k].len() as u128 + *s as u128).sum::<u128>().min(usize::MAX as u128) as usize;
            // a size that lands the total on the limit
            let fit = limit.saturating_sub(total.saturating_sub(cur.map(|c| c.saturating_add(klen)).unwrap_or(0))).saturating_sub(klen);
            let fresh = |rng: &mut Rng| -> usize {
                if limit < 100_000 && rng.chance(1, 2) {
                    around(rng, fit, 300)
                } else {
                    rng.usize_below(700)
                }
            };
            let r = rng.below(100);
            let (old, new) = match cur {
                None => {
                    if r < 85 {
                        (None, Some(fresh(rng)))
                    } else if r < 92 {
                        (None, None)
                    } else if r < 96 {
                        (Some(rng.usize_below(500)), if rng.bool() { None } else { Some(rng.usize_below(500)) })
                    } else {
                        (None, Some(usize::MAX - rng.usize_below(2000)))
                    }
                }
                Some(c) => {
                    if r < 50 {
                        (Some(c), Some(fresh(rng)))
                    } else if r < 92 {
                        (Some(c), None)
                    } else if r < 96 {
                        (None, Some(rng.usize_below(500)))
                    } else {
                        (Some(c.saturating_add(1 + rng.usize_below(4000))), None)
                    }
                }
            };
            match new {
                Some(n) => {
                    stores[heap as usize].insert(key, n);
                }
                None => {
                    stores[heap as usize].remove(&key);
                }
            }
            DOp::Io { heap, key, old, new }
        } else if k < 60 {
            DOp::Read(rng.bool())
        } else if k < 70 {
            let m = lp.max_substate_key_size;
            DOp::Key(match rng.below(5) {
                0 => SKey::Field,
                1 | 2 => SKey::Map(around(rng, m, 60)),
                _ => SKey::Sorted(around(rng, m.saturating_sub(2), 60)),
            })
        } else if k < 78 {
            DOp::Value(around(rng, lp.max_substate_value_size.saturating_sub(5), 300))
        } else if k < 86 {
            DOp::Log(around(rng, lp.max_log_size, 100))
        } else if k < 93 {
            DOp::Event(around(rng, lp.max_event_size, 100))
        } else if k < 95 {
            DOp::AssertCanAdd
        } else if k < 97 {
            DOp::AddUnchecked(around(rng, lp.max_event_size, 100))
        } else {
            DOp::PanicMsg(around(rng, lp.max_panic_message_size, 100))
        };
        ops.push(op);
    }
    Scenario { lp, limits_on, runtime_on, pool, ops }
}

fn rel(x: u128, limit: usize) -> &'static str {
    let l = limit as u128;
    if x + 1 == l {
        "limit_minus_1"
    } else if x == l {
        "at_limit"
    } else if x == l + 1 {
        "limit_plus_1"
    } else if x < l {
        "below"
    } else {
        "above"
    }
}

/// Runs one scenario on the real LimitsModule / SystemModuleMixer, evaluates the replay oracle on
/// every answer and returns the Coq case. `det` = class name of a deterministic boundary scenario:
/// then every checked comparison is also counted as det_<what>_<relation to its limit>.
fn run_direct(sc: &Scenario, report: &mut Report, idx: usize, det: Option<&str>) -> String {
    let (lp, limits_on, runtime_on, pool, ops) = (sc.lp, sc.limits_on, sc.runtime_on, &sc.pool, &sc.ops);
    let nkeys = pool.len();
    let _ = nkeys;
    if let Some(c) = det {
        report.count(c);
    }
    macro_rules! detcount {
        ($($arg:tt)*) => {
            if det.is_some() {
                report.count(&format!($($arg)*));
            }
        };
    }
    // run the real objects
    let mut module = LimitsModule::from_params(lp);
    let mut mixer = make_mixer(lp, limits_on, runtime_on);
    let mut outs: Vec<Res> = Vec::new();
    let mut coq_ops: Vec<String> = Vec::new();
    // replay state for the oracle
    let mut ostores: [BTreeMap<usize, usize>; 2] = [BTreeMap::new(), BTreeMap::new()];
    let mut o_consistent = true;
    let (mut o_logs, mut o_events) = (0usize, 0usize);
    for (j, op) in ops.iter().enumerate() {
        let (res, coq_op): (Res, String) = match op {
            DOp::Key(k) => {
                let real = k.real();
                let r = of_result(catch(std::panic::AssertUnwindSafe(|| module.process_substate_key(&real))));
                // oracle
                let want_err = k.size() > lp.max_substate_key_size;
                match (&r, want_err) {
                    (Res::Ok, false) => {}
                    (Res::Err(TransactionLimitsError::MaxSubstateKeySizeExceeded(n)), true) if *n == k.size() => {}
                    _ => report.oracle_failure(idx, "", &format!("op {}: key of size {} under max_substate_key_size {} answered {:?}", j, k.size(), lp.max_substate_key_size, r), json!({"cfg": cfg_json(&lp), "op": format!("{:?}", op)})),
                }
                report.count(if want_err { "direct_key_over" } else { "direct_key_within" });
                detcount!("det_key_{}_{}", match k { SKey::Map(_) => "map", SKey::Sorted(_) => "sorted", SKey::Field => "field" }, rel(k.size() as u128, lp.max_substate_key_size));
                (r, format!("OKey {}", k.coq()))
            }
            DOp::Value(raw) => {
                let v = IndexedScryptoValue::from_typed(&vec![0u8; *raw]);
                let len = v.len();
                let r = of_result(catch(std::panic::AssertUnwindSafe(|| module.process_substate_value(&v))));
                let want_err = len > lp.max_substate_value_size;
                match (&r, want_err) {
                    (Res::Ok, false) => {}
                    (Res::Err(TransactionLimitsError::MaxSubstateSizeExceeded(n)), true) if *n == len => {}
                    _ => report.oracle_failure(idx, "", &format!("op {}: value of size {} under max_substate_value_size {} answered {:?}", j, len, lp.max_substate_value_size, r), json!({"cfg": cfg_json(&lp), "op": format!("{:?}", op)})),
                }
                report.count(if want_err { "direct_value_over" } else { "direct_value_within" });
                detcount!("det_value_{}", rel(len as u128, lp.max_substate_value_size));
                (r, format!("OValue {}", len))
            }
            DOp::Io { heap, key, old, new } => {
                let ck = pool[*key].clone();
                let klen = ck.len();
                let io = if *heap {
                    IOAccess::HeapSubstateUpdated { canonical_substate_key: ck, old_size: *old, new_size: *new }
                } else {
                    IOAccess::TrackSubstateUpdated { canonical_substate_key: ck, old_size: *old, new_size: *new }
                };
                let r = of_result(catch(std::panic::AssertUnwindSafe(|| module.process_io_access(&io))));
                // oracle replay
                let st = &mut ostores[*heap as usize];
                if st.get(key).cloned() != *old {
                    o_consistent = false;
                }
                // the intermediate sum (counter + key + new size, before the old size is subtracted) must fit a usize
                let pre: u128 = st.iter().map(|(k, s)| pool[*k].len() as u128 + *s as u128).sum();
                if pre + klen as u128 + new.unwrap_or(0) as u128 > usize::MAX as u128 {
                    o_consistent = false;
                }
                match new {
                    Some(n) => {
                        st.insert(*key, *n);
                    }
                    None => {
                        st.remove(key);
                    }
                }
                if ostores.iter().any(|st| st.iter().map(|(k, s)| pool[*k].len() as u128 + *s as u128).sum::<u128>() > usize::MAX as u128) {
                    o_consistent = false; // not representable: the counters overflow (a panic in the model)
                }
                if o_consistent {
                    io_oracle(&lp, &pool, &ostores, &r, report, idx, j);
                    let total: u128 = ostores[*heap as usize].iter().map(|(k, s)| pool[*k].len() as u128 + *s as u128).sum();
                    let limit = if *heap { lp.max_heap_substate_total_bytes } else { lp.max_track_substate_total_bytes };
                    let trans = match (old, new) {
                        (None, Some(_)) => "insert",
                        (Some(o), Some(n)) if n > o => "grow",
                        (Some(o), Some(n)) if n < o => "shrink",
                        (Some(_), Some(_)) => "same",
                        (Some(_), None) => "remove",
                        (None, None) => "touch",
                    };
                    detcount!("det_{}_{}_{}", if *heap { "heap" } else { "track" }, trans, rel(total, limit));
                    if total == 0 {
                        detcount!("det_{}_{}_to_zero", if *heap { "heap" } else { "track" }, trans);
                    }
                }
                (r, format!("OIo ({} {} {} {})", if *heap { "IoHeap" } else { "IoTrack" }, klen, opt_coq(old), opt_coq(new)))
            }
            DOp::Read(found) => {
                let ck = pool[0].clone();
                let io = if *found { IOAccess::ReadFromDb(ck, 77) } else { IOAccess::ReadFromDbNotFound(ck) };
                let r = of_result(catch(std::panic::AssertUnwindSafe(|| module.process_io_access(&io))));
                if o_consistent {
                    io_oracle(&lp, &pool, &ostores, &r, report, idx, j);
                    let th: u128 = ostores[1].iter().map(|(k, s)| pool[*k].len() as u128 + *s as u128).sum();
                    let tt: u128 = ostores[0].iter().map(|(k, s)| pool[*k].len() as u128 + *s as u128).sum();
                    detcount!("det_read_heap_{}_track_{}", rel(th, lp.max_heap_substate_total_bytes), rel(tt, lp.max_track_substate_total_bytes));
                }
                (r, format!("OIo {}", if *found { "IoRead" } else { "IoReadNotFound" }))
            }
            DOp::Log(n) => {
                let r = of_result(catch(std::panic::AssertUnwindSafe(|| mixer.add_log(Level::Info, "a".repeat(*n)))));
                let want = if !limits_on {
                    Res::Ok
                } else if o_logs >= lp.max_number_of_logs {
                    Res::Err(TransactionLimitsError::TooManyLogs)
                } else if *n > lp.max_log_size {
                    Res::Err(TransactionLimitsError::LogSizeTooLarge { actual: *n, max: lp.max_log_size })
                } else {
                    Res::Ok
                };
                if want == Res::Ok && runtime_on {
                    o_logs += 1;
                }
                if r != want {
                    report.oracle_failure(idx, "", &format!("op {}: log of size {} with {} logs stored answered {:?}, expected {:?}", j, n, o_logs, r, want), json!({"cfg": cfg_json(&lp), "limits_on": limits_on}));
                }
                report.count(if want == Res::Ok { "direct_log_ok" } else { "direct_log_err" });
                if limits_on {
                    detcount!("det_log_count_{}_size_{}", rel(o_logs as u128 - (want == Res::Ok && runtime_on) as u128 + 1, lp.max_number_of_logs), rel(*n as u128, lp.max_log_size));
                } else {
                    detcount!("det_log_limits_off_size_{}", rel(*n as u128, lp.max_log_size));
                }
                (r, format!("OLog {}", n))
            }
            DOp::Event(n) => {
                let r = of_result(catch(std::panic::AssertUnwindSafe(|| mixer.checked_add_event(some_event(*n)))));
                let want = if !limits_on {
                    Res::Ok
                } else if o_events >= lp.max_number_of_events {
                    Res::Err(TransactionLimitsError::TooManyEvents)
                } else if *n > lp.max_event_size {
                    Res::Err(TransactionLimitsError::EventSizeTooLarge { actual: *n, max: lp.max_event_size })
                } else {
                    Res::Ok
                };
                if want == Res::Ok && runtime_on {
                    o_events += 1;
                }
                if r != want {
                    report.oracle_failure(idx, "", &format!("op {}: event of size {} with {} events stored answered {:?}, expected {:?}", j, n, o_events, r, want), json!({"cfg": cfg_json(&lp), "limits_on": limits_on}));
                }
                report.count(if want == Res::Ok { "direct_event_ok" } else { "direct_event_err" });
                if limits_on {
                    detcount!("det_event_count_{}_size_{}", rel(o_events as u128 - (want == Res::Ok && runtime_on) as u128 + 1, lp.max_number_of_events), rel(*n as u128, lp.max_event_size));
                } else {
                    detcount!("det_event_limits_off_size_{}", rel(*n as u128, lp.max_event_size));
                }
                (r, format!("OEvent {}", n))
            }
            DOp::AssertCanAdd => {
                let r = of_result(catch(std::panic::AssertUnwindSafe(|| mixer.assert_can_add_event())));
                let want = if limits_on && o_events >= lp.max_number_of_events { Res::Err(TransactionLimitsError::TooManyEvents) } else { Res::Ok };
                if r != want {
                    report.oracle_failure(idx, "", &format!("op {}: assert_can_add_event with {} events answered {:?}", j, o_events, r), json!({"cfg": cfg_json(&lp)}));
                }
                detcount!("det_assert_can_add_count_{}{}", rel(o_events as u128 + 1, lp.max_number_of_events), if limits_on { "" } else { "_limits_off" });
                (r, "OAssertCanAddEvent".to_string())
            }
            DOp::AddUnchecked(n) => {
                let r = of_result(catch(std::panic::AssertUnwindSafe(|| mixer.add_event_unchecked(some_event(*n)))));
                let want = if limits_on && *n > lp.max_event_size {
                    Res::Err(TransactionLimitsError::EventSizeTooLarge { actual: *n, max: lp.max_event_size })
                } else {
                    Res::Ok
                };
                if want == Res::Ok && runtime_on {
                    o_events += 1;
                }
                if r != want {
                    report.oracle_failure(idx, "", &format!("op {}: add_event_unchecked of size {} answered {:?}", j, n, r), json!({"cfg": cfg_json(&lp)}));
                }
                detcount!("det_add_unchecked_size_{}{}", rel(*n as u128, lp.max_event_size), if limits_on { "" } else { "_limits_off" });
                (r, format!("OAddEventUnchecked {}", n))
            }
            DOp::PanicMsg(n) => {
                let r = of_result(catch(std::panic::AssertUnwindSafe(|| mixer.set_panic_message("p".repeat(*n)))));
                let want = if limits_on && *n > lp.max_panic_message_size {
                    Res::Err(TransactionLimitsError::PanicMessageSizeTooLarge { actual: *n, max: lp.max_panic_message_size })
                } else {
                    Res::Ok
                };
                if r != want {
                    report.oracle_failure(idx, "", &format!("op {}: panic message of size {} answered {:?}", j, n, r), json!({"cfg": cfg_json(&lp)}));
                }
                report.count(if want == Res::Ok { "direct_panicmsg_ok" } else { "direct_panicmsg_err" });
                detcount!("det_panicmsg_size_{}{}", rel(*n as u128, lp.max_panic_message_size), if limits_on { "" } else { "_limits_off" });
                (r, format!("OPanicMsg {}", n))
            }
        };
        if let Res::Other(s) = &res {
            report.oracle_failure(idx, "", &format!("op {}: unexpected error {}", j, s), json!({"cfg": cfg_json(&lp)}));
        }
        match &res {
            Res::Ok => report.count("direct_answers_ok"),
            Res::Err(TransactionLimitsError::HeapSubstateSizeExceeded { .. }) => report.count("direct_heap_exceeded"),
            Res::Err(TransactionLimitsError::TrackSubstateSizeExceeded { .. }) => report.count("direct_track_exceeded"),
            Res::Err(_) => report.count("direct_answers_err"),
            Res::Panic => report.count("direct_answers_panic"),
            Res::Other(_) => report.count("direct_answers_other"),
        }
        let is_panic = res == Res::Panic;
        outs.push(res);
        coq_ops.push(coq_op);
        if is_panic {
            break;
        }
    }
    let (_, runtime, _) = mixer.unpack();
    let canon = format!("{}|{}|{}|{}|{:?}", cfg_coq(&lp), limits_on, runtime_on, coq_ops.join(";"), outs);
    report.case(&canon, outs.iter().any(|r| matches!(r, Res::Err(_))) && outs.iter().any(|r| *r == Res::Ok));
    if runtime.logs.len() != o_logs || runtime.events.len() != o_events {
        report.oracle_failure(idx, "", &format!("stored logs/events {} / {} differ from the accepted ones {} / {}", runtime.logs.len(), runtime.events.len(), o_logs, o_events), json!({"cfg": cfg_json(&lp)}));
    }
    if limits_on && runtime_on && (runtime.logs.len() > lp.max_number_of_logs) {
        report.oracle_failure(idx, "", "more logs stored than max_number_of_logs", json!({"cfg": cfg_json(&lp)}));
    }
    if idx < 2 {
        report.sample(json!({"cfg": cfg_coq(&lp), "ops": coq_ops.iter().take(12).collect::<Vec<_>>(), "outs": outs.iter().take(12).map(res_coq).collect::<Vec<_>>()}));
    }
    format!(
        "CDirect {} (mkFlags {} {}) {} {} {} {}",
        cfg_coq(&lp),
        coq_bool(limits_on),
        coq_bool(runtime_on),
        coq_list(coq_ops),
        coq_list(outs.iter().map(res_coq)),
        runtime.logs.len(),
        runtime.events.len()
    )
}


// ------------------------------------------------------------------------------------------------
// deterministic boundary family (identical for every seed), direct drive
// ------------------------------------------------------------------------------------------------

/// fixed key pool: canonical key lengths 32 (Field), 35 (Map of 4 bytes), 36 (Sorted, 3 bytes), 31 (empty Map)
fn det_pool() -> Vec<CanonicalSubstateKey> {
    let node = |b: u8| {
        let mut id = [0u8; NodeId::LENGTH];
        id[0] = b;
        NodeId(id)
    };
    vec![
        CanonicalSubstateKey { node_id: node(1), partition_number: PartitionNumber(0), substate_key: SubstateKey::Field(0) },
        CanonicalSubstateKey { node_id: node(2), partition_number: PartitionNumber(1), substate_key: SubstateKey::Map(vec![1, 2, 3, 4]) },
        CanonicalSubstateKey { node_id: node(3), partition_number: PartitionNumber(2), substate_key: SubstateKey::Sorted(([0, 1], vec![5, 6, 7])) },
        CanonicalSubstateKey { node_id: node(4), partition_number: PartitionNumber(3), substate_key: SubstateKey::Map(vec![]) },
    ]
}

fn det_direct_family() -> Vec<(String, Scenario)> {
    let base = || {
        let mut lp = LimitParameters::babylon_genesis();
        lp.max_heap_substate_total_bytes = 1_000_000;
        lp.max_track_substate_total_bytes = 1_000_000;
        lp
    };
    let sc = |lp: LimitParameters, limits_on: bool, runtime_on: bool, ops: Vec<DOp>| Scenario { lp, limits_on, runtime_on, pool: det_pool(), ops };
    let mut v: Vec<(String, Scenario)> = Vec::new();
    let pool = det_pool();
    assert!(pool[0].len() == 32 && pool[1].len() == 35 && pool[2].len() == 36 && pool[3].len() == 31);

    // --- process_substate_key: every key shape against limits 0..3 (Map len, Sorted len + 2, Field 1)
    for l in 0..=3usize {
        let mut lp = base();
        lp.max_substate_key_size = l;
        let ops = vec![
            DOp::Key(SKey::Map(0)),
            DOp::Key(SKey::Map(1)),
            DOp::Key(SKey::Map(2)),
            DOp::Key(SKey::Map(3)),
            DOp::Key(SKey::Map(4)),
            DOp::Key(SKey::Sorted(0)),
            DOp::Key(SKey::Sorted(1)),
            DOp::Key(SKey::Sorted(2)),
            DOp::Key(SKey::Field),
        ];
        v.push((format!("detc_key_limit_{}", l), sc(lp, true, true, ops)));
    }
    // --- process_substate_value: value.len() = raw + 3 + len(varint(raw)): raw 0 -> 4, 1 -> 5, 2 -> 6, 127 -> 131, 128 -> 133
    for l in [0usize, 3, 4, 5, 6, 130, 131, 132, 133] {
        let mut lp = base();
        lp.max_substate_value_size = l;
        let ops = vec![DOp::Value(0), DOp::Value(1), DOp::Value(2), DOp::Value(126), DOp::Value(127), DOp::Value(128)];
        v.push((format!("detc_value_limit_{}", l), sc(lp, true, true, ops)));
    }
    // --- process_io_access, one arm at a time (a mutant may touch only one arm)
    for heap in [true, false] {
        let arm = if heap { "heap" } else { "track" };
        let io = |key: usize, old: Option<usize>, new: Option<usize>| DOp::Io { heap, key, old, new };
        let with = |l: usize| {
            let mut lp = base();
            if heap {
                lp.max_heap_substate_total_bytes = l;
            } else {
                lp.max_track_substate_total_bytes = l;
                lp.max_heap_substate_total_bytes = usize::MAX;
            }
            lp
        };
        // limit 100, key 0 (32 bytes): insert to limit-1, grow to the limit, grow to limit+1, shrink back to the
        // limit, remove to 0, insert landing exactly on the limit, remove, insert landing on limit+1
        v.push((
            format!("detc_{}_exact_insert_grow_shrink_remove", arm),
            sc(
                with(100),
                true,
                true,
                vec![
                    io(0, None, Some(67)),
                    io(0, Some(67), Some(68)),
                    DOp::Read(true),
                    io(0, Some(68), Some(69)),
                    DOp::Read(false),
                    io(0, Some(69), Some(68)),
                    io(0, Some(68), Some(68)),
                    io(0, Some(68), None),
                    DOp::Read(true),
                    io(0, None, Some(68)),
                    io(0, Some(68), None),
                    io(0, None, Some(69)),
                    io(0, Some(69), None),
                    io(0, None, Some(67)),
                ],
            ),
        ));
        // a second key on top of a total that is exactly the limit: the key length counts even for an empty
        // value; removing it must give back key length and value; an update must not add the key length again
        v.push((
            format!("detc_{}_second_key_keylen", arm),
            sc(
                with(100),
                true,
                true,
                vec![
                    io(0, None, Some(68)),
                    io(3, None, Some(0)),
                    io(3, Some(0), None),
                    io(3, None, None),
                    io(1, None, Some(0)),
                    io(1, Some(0), Some(0)),
                    io(1, Some(0), None),
                    io(0, Some(68), Some(37)),
                    io(3, None, Some(0)),
                    io(3, Some(0), Some(1)),
                    io(3, Some(1), None),
                    io(0, Some(37), None),
                ],
            ),
        ));
        // limit 0: every answer reports the counter; remove of the last substate gives exactly 0 (= limit: Ok)
        v.push((
            format!("detc_{}_probe_limit_0", arm),
            sc(
                with(0),
                true,
                true,
                vec![
                    io(2, None, Some(5)),
                    io(2, Some(5), Some(9)),
                    io(2, Some(9), Some(0)),
                    io(2, Some(0), None),
                    DOp::Read(true),
                    io(2, None, Some(5)),
                    io(2, Some(5), None),
                    io(0, None, Some(0)),
                    io(1, None, Some(1)),
                    io(0, Some(0), None),
                    io(1, Some(1), None),
                    io(3, None, None),
                    DOp::Read(false),
                ],
            ),
        ));
        // limit 1 and the smallest totals
        v.push((
            format!("detc_{}_three_keys_to_exact_limit", arm),
            sc(
                with(32 + 35 + 36 + 31 + 6),
                true,
                true,
                vec![
                    io(0, None, Some(1)),
                    io(1, None, Some(2)),
                    io(2, None, Some(3)),
                    io(3, None, Some(0)),
                    io(3, Some(0), Some(1)),
                    io(3, Some(1), Some(0)),
                    io(1, Some(2), None),
                    io(1, None, Some(3)),
                    io(1, Some(3), Some(2)),
                ],
            ),
        ));
    }
    // --- both counters: heap is compared first; a total over the track limit is reported only when the heap is within
    {
        let mut lp = base();
        lp.max_heap_substate_total_bytes = 50;
        lp.max_track_substate_total_bytes = 50;
        let h = |key: usize, old: Option<usize>, new: Option<usize>| DOp::Io { heap: true, key, old, new };
        let t = |key: usize, old: Option<usize>, new: Option<usize>| DOp::Io { heap: false, key, old, new };
        v.push((
            "detc_heap_before_track_order".to_string(),
            sc(
                lp,
                true,
                true,
                vec![
                    h(0, None, Some(18)),
                    t(0, None, Some(19)),
                    h(0, Some(18), Some(19)),
                    DOp::Read(true),
                    h(0, Some(19), Some(18)),
                    DOp::Read(true),
                    t(0, Some(19), Some(18)),
                    DOp::Read(false),
                    t(0, Some(18), None),
                    h(0, Some(18), None),
                ],
            ),
        ));
    }
    // --- add_log: count check (>=, before the size check), size check (>), a refused log is not counted
    for (ml, ms, sizes) in [
        (0usize, 5usize, vec![0usize, 6]),
        (1, 5, vec![6, 5, 0, 6]),
        (2, 0, vec![1, 0, 0, 0]),
        (3, 5, vec![5, 4, 5, 6]),
        (1, 0, vec![1, 0, 1]),
    ] {
        let mut lp = base();
        lp.max_number_of_logs = ml;
        lp.max_log_size = ms;
        v.push((format!("detc_logs_max_{}_size_{}", ml, ms), sc(lp, true, true, sizes.into_iter().map(DOp::Log).collect())));
    }
    // --- checked_add_event / assert_can_add_event / add_event_unchecked
    for (me, ms, ops) in [
        (0usize, 5usize, vec![DOp::AssertCanAdd, DOp::Event(0), DOp::Event(6), DOp::AddUnchecked(5), DOp::AddUnchecked(6)]),
        (1, 5, vec![DOp::AssertCanAdd, DOp::Event(6), DOp::Event(5), DOp::AssertCanAdd, DOp::Event(0), DOp::AddUnchecked(4), DOp::Event(6)]),
        (2, 0, vec![DOp::Event(1), DOp::Event(0), DOp::AssertCanAdd, DOp::AddUnchecked(0), DOp::AssertCanAdd, DOp::AddUnchecked(1), DOp::Event(0)]),
        (3, 5, vec![DOp::Event(5), DOp::Event(4), DOp::Event(6), DOp::AddUnchecked(4), DOp::AddUnchecked(5), DOp::AddUnchecked(6)]),
    ] {
        let mut lp = base();
        lp.max_number_of_events = me;
        lp.max_event_size = ms;
        v.push((format!("detc_events_max_{}_size_{}", me, ms), sc(lp, true, true, ops)));
    }
    // --- set_panic_message
    for (ms, sizes) in [(0usize, vec![0usize, 1]), (7, vec![6, 7, 8])] {
        let mut lp = base();
        lp.max_panic_message_size = ms;
        v.push((format!("detc_panicmsg_limit_{}", ms), sc(lp, true, true, sizes.into_iter().map(DOp::PanicMsg).collect())));
    }
    // --- EnabledModules: LIMITS off (every over-limit mixer call passes), TRANSACTION_RUNTIME off (nothing is stored,
    // so the count checks never trigger unless the maximum is 0)
    {
        let mut lp = base();
        lp.max_number_of_logs = 0;
        lp.max_log_size = 0;
        lp.max_number_of_events = 0;
        lp.max_event_size = 0;
        lp.max_panic_message_size = 0;
        let over = || vec![DOp::AssertCanAdd, DOp::Log(1), DOp::Log(1), DOp::Event(1), DOp::Event(1), DOp::AddUnchecked(1), DOp::PanicMsg(1)];
        v.push(("detc_flags_limits_off_runtime_on".to_string(), sc(lp, false, true, over())));
        v.push(("detc_flags_limits_off_runtime_off".to_string(), sc(lp, false, false, over())));
        v.push(("detc_flags_limits_on_runtime_off_max_0".to_string(), sc(lp, true, false, over())));
        let mut lp1 = base();
        lp1.max_number_of_logs = 1;
        lp1.max_number_of_events = 1;
        lp1.max_log_size = 1;
        lp1.max_event_size = 1;
        let ops = vec![DOp::Log(1), DOp::Log(1), DOp::Log(2), DOp::Event(1), DOp::Event(1), DOp::AssertCanAdd, DOp::Event(2), DOp::AddUnchecked(1), DOp::AssertCanAdd];
        v.push(("detc_flags_limits_on_runtime_off_max_1".to_string(), sc(lp1, true, false, ops)));
    }
    v
}

/// relation counters that the deterministic direct family must produce (each with floor 1)
const DET_DIRECT_FLOORS: &[&str] = &[
    "det_key_map_limit_minus_1", "det_key_map_at_limit", "det_key_map_limit_plus_1",
    "det_key_sorted_limit_minus_1", "det_key_sorted_at_limit", "det_key_sorted_limit_plus_1",
    "det_key_field_limit_minus_1", "det_key_field_at_limit", "det_key_field_limit_plus_1",
    "det_value_limit_minus_1", "det_value_at_limit", "det_value_limit_plus_1",
    "det_heap_insert_limit_minus_1", "det_heap_insert_at_limit", "det_heap_insert_limit_plus_1",
    "det_heap_grow_at_limit", "det_heap_grow_limit_plus_1", "det_heap_shrink_at_limit", "det_heap_remove_at_limit",
    "det_heap_remove_to_zero", "det_heap_touch_at_limit", "det_heap_same_at_limit",
    "det_track_insert_limit_minus_1", "det_track_insert_at_limit", "det_track_insert_limit_plus_1",
    "det_track_grow_at_limit", "det_track_grow_limit_plus_1", "det_track_shrink_at_limit", "det_track_remove_at_limit",
    "det_track_remove_to_zero", "det_track_touch_at_limit", "det_track_same_at_limit",
    "det_read_heap_at_limit_track_below", "det_read_heap_limit_plus_1_track_below", "det_read_heap_below_track_at_limit", "det_read_heap_below_track_limit_plus_1",
    "det_read_heap_at_limit_track_limit_plus_1", "det_read_heap_limit_plus_1_track_limit_plus_1", "det_read_heap_at_limit_track_at_limit",
    "det_log_count_at_limit_size_at_limit", "det_log_count_limit_plus_1_size_at_limit", "det_log_count_limit_plus_1_size_limit_plus_1",
    "det_log_count_at_limit_size_limit_plus_1", "det_log_count_limit_minus_1_size_limit_minus_1", "det_log_count_limit_minus_1_size_at_limit",
    "det_event_count_at_limit_size_at_limit", "det_event_count_limit_plus_1_size_at_limit", "det_event_count_limit_plus_1_size_limit_plus_1",
    "det_event_count_at_limit_size_limit_plus_1", "det_event_count_limit_minus_1_size_limit_minus_1",
    "det_assert_can_add_count_at_limit", "det_assert_can_add_count_limit_plus_1", "det_assert_can_add_count_limit_plus_1_limits_off",
    "det_add_unchecked_size_limit_minus_1", "det_add_unchecked_size_at_limit", "det_add_unchecked_size_limit_plus_1", "det_add_unchecked_size_limit_plus_1_limits_off",
    "det_panicmsg_size_limit_minus_1", "det_panicmsg_size_at_limit", "det_panicmsg_size_limit_plus_1", "det_panicmsg_size_limit_plus_1_limits_off",
    "det_log_limits_off_size_limit_plus_1", "det_event_limits_off_size_limit_plus_1",
];

fn io_oracle(lp: &LimitParameters, pool: &[CanonicalSubstateKey], stores: &[BTreeMap<usize, usize>; 2], r: &Res, report: &mut Report, idx: usize, j: usize) {
    let tot = |h: usize| -> u128 { stores[h].iter().map(|(k, s)| pool[*k].len() as u128 + *s as u128).sum() };
    let (track, heap) = (tot(0), tot(1));
    let ok = match r {
        Res::Ok => heap <= lp.max_heap_substate_total_bytes as u128 && track <= lp.max_track_substate_total_bytes as u128,
        Res::Err(TransactionLimitsError::HeapSubstateSizeExceeded { actual, max }) => {
            *actual as u128 == heap && *max == lp.max_heap_substate_total_bytes && heap > *max as u128
        }
        Res::Err(TransactionLimitsError::TrackSubstateSizeExceeded { actual, max }) => {
            *actual as u128 == track && *max == lp.max_track_substate_total_bytes && track > *max as u128 && heap <= lp.max_heap_substate_total_bytes as u128
        }
        _ => false,
    };
    report.count("direct_io_oracle_checked");
    if !ok {
        report.oracle_failure(
            idx,
            "",
            &format!("op {}: tracked heap total {} / track total {} (sum of key+value sizes) but the module answered {:?}", j, heap, track, r),
            json!({"cfg": cfg_json(lp)}),
        );
    }
}

// ------------------------------------------------------------------------------------------------
// whole transactions
// ------------------------------------------------------------------------------------------------

struct Env {
    ledger: Ledger,
    tl: PackageAddress,
    rec: PackageAddress,
    comp: ComponentAddress,
    lock_fee_event_len: usize,
    event_overhead: usize,     // payload length of TestEvent{message of n bytes} = n + overhead (n < 128: ; measured per size class)
    value_overhead: usize,     // stored KV entry length = raw + overhead (for raw in 2^7..2^14: measured at 10_000)
    buffer_field_len: usize,   // stored length of the BufferLimit state field (measured)
    pk: Secp256k1PublicKey,
    account: ComponentAddress,
    nfres: ResourceAddress,
    meta_event_overhead: usize, // SetMetadataEvent payload = overhead + key bytes + value bytes (both < 128), measured
    runs: u64,
}

fn load(code: &[u8], rpd: &[u8]) -> (Vec<u8>, PackageDefinition) {
    let def: PackageDefinition = manifest_decode::<ManifestPackageDefinition>(rpd).expect("rpd").try_into_typed().expect("typed rpd");
    (code.to_vec(), def)
}

#[derive(Clone, Debug)]
enum Item {
    Log(usize),
    Event(usize),
    Panic(usize),
    Recurse(u32),
    Invoke(usize),
    Value(usize),
    /// BufferLimit::new(): a component with one 200 KiB field is created (CreateNodeEvent::Start checks it)
    BufferNew,
    /// native: metadata set on the account with a key string of k bytes and a string value of v bytes
    /// (kv entry open: OpenSubstateEvent::Start with a Map key of 3 + k bytes; emits SetMetadataEvent)
    MetaSet(usize, usize),
    /// native: withdraw the non-fungible with the n-byte id from the account (vault index remove:
    /// RemoveSubstateEvent) and deposit it back (index insert: SetSubstateEvent)
    NfCycle(usize),
    /// native: withdraw one non-fungible by amount (vault index drain: DrainSubstatesEvent) and deposit it back
    NfDrain,
    /// native: account.non_fungible_local_ids (vault index scan: ScanKeysEvent)
    NfScan,
}

/// byte lengths of the local ids of the non-fungibles held by the account
const NF_ID_LENS: [usize; 4] = [10, 51, 52, 53];
fn nf_id(n: usize) -> NonFungibleLocalId {
    NonFungibleLocalId::bytes(vec![n as u8; n]).unwrap()
}
/// the vault index key of an id: SubstateKey::Map(scrypto_encode(id))
fn nf_key_len(n: usize) -> usize {
    scrypto_encode(&nf_id(n)).unwrap().len()
}

fn varint_len(n: usize) -> usize {
    let mut n = n;
    let mut l = 1;
    while n >= 128 {
        n >>= 7;
        l += 1;
    }
    l
}

impl Env {
    fn new() -> Env {
        let mut ledger: Ledger = LedgerSimulatorBuilder::new().without_kernel_trace().build();
        let tl = ledger.publish_package(load(TL_WASM, TL_RPD), BTreeMap::new(), OwnerRole::None);
        let rec = ledger.publish_package(load(REC_WASM, REC_RPD), BTreeMap::new(), OwnerRole::None);
        let comp = ledger
            .execute_manifest(ManifestBuilder::new().lock_fee_from_faucet().call_function(tl, "TransactionLimitTest", "new", manifest_args!()).build(), vec![])
            .expect_commit_success()
            .new_component_addresses()[0];
        let (pk, _sk, account) = ledger.new_allocated_account();
        let nfres = {
            let entries: Vec<(NonFungibleLocalId, ())> = NF_ID_LENS.iter().map(|n| (nf_id(*n), ())).collect();
            let manifest = ManifestBuilder::new()
                .lock_fee_from_faucet()
                .create_non_fungible_resource(OwnerRole::None, NonFungibleIdType::Bytes, true, NonFungibleResourceRoles::default(), metadata!(), Some(entries))
                .try_deposit_entire_worktop_or_abort(account, None)
                .build();
            ledger.execute_manifest(manifest, vec![]).expect_commit(true).new_resource_addresses()[0]
        };
        let mut env = Env { ledger, tl, rec, comp, lock_fee_event_len: 0, event_overhead: 0, value_overhead: 0, buffer_field_len: 0, pk, account, nfres, meta_event_overhead: 0, runs: 0 };
        // measurements under the default limits (from the outputs of the engine, not from the limit code)
        let r = env.exec(&[Item::Event(10), Item::Value(10_000)], None);
        let c = r.expect_commit_success();
        for (id, data) in &c.application_events {
            if id.1 == "LockFeeEvent" && env.lock_fee_event_len == 0 {
                env.lock_fee_event_len = data.len();
            }
            if id.1 == "TestEvent" {
                env.event_overhead = data.len() - 10;
            }
        }
        let mut best = None;
        for (_, node) in &c.state_updates.by_node {
            let NodeStateUpdates::Delta { by_partition } = node;
            for (_, part) in by_partition {
                if let PartitionStateUpdates::Delta { by_substate } = part {
                    for (_, upd) in by_substate {
                        if let DatabaseUpdate::Set(v) = upd {
                            if v.len() >= 10_000 && v.len() < 10_100 {
                                best = Some(v.len() - 10_000);
                            }
                        }
                    }
                }
            }
        }
        env.value_overhead = best.expect("stored KV entry of the calibration run");
        assert!(env.lock_fee_event_len > 0 && env.event_overhead > 0);
        let r = env.exec(&[Item::BufferNew], None);
        let c = r.expect_commit_success();
        for (_, node) in &c.state_updates.by_node {
            let NodeStateUpdates::Delta { by_partition } = node;
            for (_, part) in by_partition {
                if let PartitionStateUpdates::Delta { by_substate } = part {
                    for (_, upd) in by_substate {
                        if let DatabaseUpdate::Set(v) = upd {
                            if v.len() >= 200 * 1024 && v.len() < 200 * 1024 + 100 {
                                env.buffer_field_len = v.len();
                            }
                        }
                    }
                }
            }
        }
        assert!(env.buffer_field_len > 0);
        let r = env.exec(&[Item::MetaSet(10, 10)], None);
        let c = r.expect_commit_success();
        for (id, data) in &c.application_events {
            if id.1 == "SetMetadataEvent" {
                env.meta_event_overhead = data.len() - 20;
            }
        }
        assert!(env.meta_event_overhead > 0);
        env
    }

    fn manifest(&self, items: &[Item]) -> TransactionManifestV1 {
        self.manifest_fee(items, true)
    }
    fn manifest_fee(&self, items: &[Item], fee: bool) -> TransactionManifestV1 {
        let mut b = ManifestBuilder::new();
        if fee {
            b = b.lock_fee_from_faucet();
        }
        for it in items {
            b = match it {
                Item::Log(n) => b.call_function(self.tl, "TransactionLimitTest", "emit_log_of_size", manifest_args!(*n)),
                Item::Event(n) => b.call_function(self.tl, "TransactionLimitTest", "emit_event_of_size", manifest_args!(*n)),
                Item::Panic(n) => b.call_function(self.tl, "TransactionLimitTest", "panic_of_size", manifest_args!(*n)),
                Item::Recurse(n) => b.call_function(self.rec, "Caller", "recursive", manifest_args!(*n)),
                Item::Invoke(n) => b.call_function(self.tl, "InvokeLimitsTest", "call", manifest_args!(*n)),
                Item::Value(n) => b.call_function(self.tl, "TransactionLimitSubstateTest", "write_large_values", manifest_args!(vec![*n])),
                Item::BufferNew => b.call_function(self.tl, "BufferLimit", "new", manifest_args!()),
                Item::MetaSet(k, v) => b.set_metadata(self.account, "k".repeat(*k), MetadataValue::String("v".repeat(*v))),
                Item::NfCycle(n) => b.withdraw_non_fungibles_from_account(self.account, self.nfres, [nf_id(*n)]).deposit_entire_worktop(self.account),
                Item::NfDrain => b.withdraw_from_account(self.account, self.nfres, 1).deposit_entire_worktop(self.account),
                Item::NfScan => b.call_method(self.account, "non_fungible_local_ids", manifest_args!(self.nfres, 10u32)),
            };
        }
        b.build()
    }

    fn config(lp: Option<LimitParameters>) -> ExecutionConfig {
        let mut c = ExecutionConfig::for_test_transaction();
        let mut o = c.system_overrides.clone().unwrap_or_default();
        o.limit_parameters = lp;
        o.costing_parameters = Some(CostingParameters::babylon_genesis().with_execution_cost_unit_limit(1_000_000_000));
        c.system_overrides = Some(o);
        c
    }

    fn exec_manifest(&mut self, manifest: TransactionManifestV1, lp: Option<LimitParameters>) -> Result<TransactionReceipt, String> {
        self.runs += 1;
        let nonce = self.ledger.next_transaction_nonce();
        let tx = TestTransaction::new_v1_from_nonce(manifest, nonce, btreeset![NonFungibleGlobalId::from_public_key(&self.pk)]);
        let ledger = &mut self.ledger;
        catch(std::panic::AssertUnwindSafe(|| ledger.execute_transaction_no_commit(tx, Self::config(lp))))
    }

    fn exec(&mut self, items: &[Item], lp: Option<LimitParameters>) -> TransactionReceipt {
        let m = self.manifest(items);
        self.exec_manifest(m, lp).expect("calibration run")
    }

    fn event_len(&self, n: usize) -> usize {
        // overhead measured at n = 10 (one length byte); longer strings have a longer length prefix
        n + self.event_overhead - 1 + varint_len(n)
    }
    fn value_len(&self, raw: usize) -> usize {
        // overhead measured at raw = 10_000 (two length bytes)
        raw + self.value_overhead - 2 + varint_len(raw)
    }
    fn meta_event_len(&self, k: usize, v: usize) -> usize {
        assert!(k < 128 && v < 128);
        self.meta_event_overhead + k + v
    }
    fn invoke_len(&self, raw: usize) -> usize {
        // invocation.len() = actor (package address + blueprint name + function name) + args
        // args = SBOR tuple(1) of a byte array: prefix, tuple kind, field count, array kind, element kind, length, bytes
        NodeId::LENGTH + "InvokeLimitsTest".len() + "callee".len() + 5 + varint_len(raw) + raw
    }
}

fn parse_masked(msg: &str) -> Option<TransactionLimitsError> {
    let num = |tag: &str| -> Option<usize> {
        let i = msg.find(tag)? + tag.len();
        let d: String = msg[i..].chars().take_while(|c| c.is_ascii_digit()).collect();
        d.parse().ok()
    };
    let (actual, max) = (num("actual: ")?, num("max: ")?);
    if msg.contains("TrackSubstateSizeExceeded") {
        Some(TransactionLimitsError::TrackSubstateSizeExceeded { actual, max })
    } else if msg.contains("HeapSubstateSizeExceeded") {
        Some(TransactionLimitsError::HeapSubstateSizeExceeded { actual, max })
    } else {
        None
    }
}

/// the receipt's limit error (commit failure or rejection before the loan is repaid), if any
fn receipt_outcome(r: &Result<TransactionReceipt, String>) -> (String, Option<TransactionLimitsError>) {
    match r {
        Err(m) => (format!("panic: {}", m.chars().take(120).collect::<String>()), None),
        Ok(r) => {
            let err: Option<&RuntimeError> = match &r.result {
                TransactionResult::Commit(c) => match &c.outcome {
                    TransactionOutcome::Success(_) => return ("success".into(), None),
                    TransactionOutcome::Failure(e) => Some(e),
                },
                TransactionResult::Reject(rj) => match &rj.reason {
                    RejectionReason::ErrorBeforeLoanAndDeferredCostsRepaid(e) => Some(e),
                    other => return (format!("reject: {:?}", other).chars().take(120).collect(), None),
                },
                TransactionResult::Abort(a) => return (format!("abort: {:?}", a.reason).chars().take(120).collect(), None),
            };
            match err {
                Some(RuntimeError::SystemModuleError(SystemModuleError::TransactionLimitsError(e))) => ("limit".into(), Some(e.clone())),
                Some(RuntimeError::VmError(VmError::Native(NativeRuntimeError::Trap { .. }))) => ("trap".into(), None),
                // a limit error raised while a payload is validated against its schema is reported as
                // TypeCheckError with the limit error as text (the transaction fails all the same)
                Some(RuntimeError::SystemError(SystemError::TypeCheckError(TypeCheckError::BlueprintPayloadValidationError(_, _, msg)))) if msg.contains("TransactionLimitsError(") => {
                    ("masked".into(), parse_masked(msg))
                }
                Some(e) => (format!("other: {:?}", e).chars().take(700).collect(), None),
                None => ("?".into(), None),
            }
        }
    }
}

fn tx_case(env: &mut Env, rng: &mut Rng, report: &mut Report, idx: usize) -> String {
    let (lp, limits_on, items) = gen_tx(env, rng, report);
    run_tx(env, lp, limits_on, true, &items, report, idx, None)
}

fn gen_tx(env: &mut Env, rng: &mut Rng, report: &mut Report) -> (LimitParameters, bool, Vec<Item>) {
    let mut lp = LimitParameters::babylon_genesis();
    lp.max_call_depth = match rng.below(20) {
        0 => 0,
        1 => 1,
        2..=4 => 2,
        5..=7 => 3,
        8..=10 => 4,
        11..=13 => 5,
        14..=15 => 6,
        16..=17 => 8,
        _ => 10,
    };
    lp.max_number_of_logs = rng.usize_below(6);
    lp.max_log_size = rng.usize_below(400);
    lp.max_number_of_events = rng.usize_below(7);
    lp.max_event_size = if rng.chance(1, 12) { rng.usize_below(env.lock_fee_event_len + 2) } else { 40 + rng.usize_below(400) };
    lp.max_panic_message_size = rng.usize_below(300);
    lp.max_invoke_input_size = 20_000 + rng.usize_below(20_000);
    lp.max_substate_value_size = 10_000 + rng.usize_below(20_000);
    let limits_on = !rng.chance(1, 15);

    let n_items = 1 + rng.usize_below(5);
    let mut items = Vec::new();
    for _ in 0..n_items {
        let it = match rng.below(13) {
            12 => {
                // native: metadata entry with a key string around the key size limit (other keys of the transaction are below 70 bytes)
                lp.max_substate_key_size = 70 + rng.usize_below(31);
                Item::MetaSet(around(rng, lp.max_substate_key_size - 3, 10).min(100), rng.usize_below(60))
            }
            0 | 1 | 2 => Item::Log(around(rng, lp.max_log_size, 200)),
            3 | 4 | 5 => {
                // land the payload length on the limit
                let want = around(rng, lp.max_event_size, 200);
                let n = want.saturating_sub(env.event_overhead - 1 + varint_len(want));
                Item::Event(n)
            }
            6 => Item::Panic(around(rng, lp.max_panic_message_size, 150)),
            7 | 8 => Item::Recurse(around(rng, lp.max_call_depth, 6).min(14) as u32),
            9 | 10 => {
                let want = around(rng, lp.max_invoke_input_size, 1).max(1000);
                let over = env.invoke_len(want) - want;
                Item::Invoke(want - over)
            }
            _ => {
                let want = around(rng, lp.max_substate_value_size, 1).max(1000);
                let over = env.value_len(want) - want;
                Item::Value(want - over)
            }
        };
        let stop = matches!(it, Item::Panic(_));
        items.push(it);
        if stop {
            break;
        }
    }
    // one third of the cases: every limit is set exactly to what the program needs (all at the boundary)
    if rng.chance(1, 3) {
        report.count("tx_all_at_limit");
        lp.max_number_of_logs = items.iter().filter(|i| matches!(i, Item::Log(_))).count();
        lp.max_number_of_events = 1 + items.iter().filter(|i| matches!(i, Item::Event(_))).count();
        lp.max_event_size = env.lock_fee_event_len;
        lp.max_call_depth = 2;
        for it in &items {
            match it {
                Item::Log(n) => lp.max_log_size = lp.max_log_size.max(*n),
                Item::Event(n) => lp.max_event_size = lp.max_event_size.max(env.event_len(*n)),
                Item::Panic(n) => lp.max_panic_message_size = *n,
                Item::Recurse(n) => lp.max_call_depth = lp.max_call_depth.max(*n as usize),
                Item::Invoke(n) => lp.max_invoke_input_size = lp.max_invoke_input_size.max(env.invoke_len(*n)),
                Item::Value(n) => lp.max_substate_value_size = lp.max_substate_value_size.max(env.value_len(*n)),
                Item::BufferNew | Item::NfCycle(_) | Item::NfDrain | Item::NfScan => {}
                Item::MetaSet(k, v) => {
                    lp.max_substate_key_size = lp.max_substate_key_size.max(3 + k);
                    lp.max_event_size = lp.max_event_size.max(env.meta_event_len(*k, *v));
                    lp.max_number_of_events += 1;
                }
            }
        }
    }
    (lp, limits_on, items)
}

/// Runs one program under one configuration on the ledger, evaluates the oracle and returns the Coq
/// case. `fee` = the manifest starts with faucet.lock_fee (otherwise costing is disabled, so that
/// call depth limits 0 and 1 and event count limit 0 can be met by the program itself).
#[allow(clippy::too_many_arguments)]
fn run_tx(env: &mut Env, lp: LimitParameters, limits_on: bool, fee: bool, items: &[Item], report: &mut Report, idx: usize, det: Option<&str>) -> String {
    if let Some(c) = det {
        report.count(c);
    }
    for it in items {
        report.count(match it {
            Item::Log(_) => "tx_item_log",
            Item::Event(_) => "tx_item_event",
            Item::Panic(_) => "tx_item_panic",
            Item::Recurse(_) => "tx_item_recurse",
            Item::Invoke(_) => "tx_item_invoke",
            Item::Value(_) => "tx_item_value",
            Item::BufferNew => "tx_item_buffer_new",
            Item::MetaSet(..) => "tx_item_meta_set",
            Item::NfCycle(_) => "tx_item_nf_cycle",
            Item::NfDrain => "tx_item_nf_drain",
            Item::NfScan => "tx_item_nf_scan",
        });
    }

    // abstract event list of the program
    // the transaction processor runs in the root frame (depth 0)
    let mut ops: Vec<String> = Vec::new();
    if fee {
        ops.extend(["OInvoke 0", "OInvoke 0", "OAssertCanAddEvent"].map(String::from)); // faucet.lock_fee -> vault.lock_fee
        ops.push(format!("OLockFeeEmit {}", env.lock_fee_event_len));
        ops.extend(["OReturn", "OReturn"].map(String::from));
    }
    for it in items {
        ops.push("OInvoke 0".into());
        match it {
            Item::Log(n) => ops.push(format!("OLog {}", n)),
            Item::Event(n) => ops.push(format!("OEvent {}", env.event_len(*n))),
            Item::Panic(n) => ops.push(format!("OPanicMsg {}", n)),
            Item::Recurse(n) => {
                // recursive(n) calls recursive(n-1) while n > 1
                let nested = (*n).max(1) - 1;
                for _ in 0..nested {
                    ops.push("OInvoke 0".into());
                }
                for _ in 0..nested {
                    ops.push("OReturn".into());
                }
            }
            Item::Invoke(n) => {
                ops.push(format!("OInvoke {}", env.invoke_len(*n)));
                ops.push("OReturn".into());
            }
            Item::Value(n) => {
                ops.push(format!("OH (HWriteStart {})", env.value_len(*n)));
                // globalize: the module objects are created by blueprint calls (one level deeper)
                ops.push("OInvoke 0".into());
                ops.push("OReturn".into());
            }
            Item::BufferNew => {
                // the component node: its state field is the only large substate of the node
                ops.push(format!("OH (HCreateNodeStart [(KField, {})])", env.buffer_field_len));
                ops.push("OInvoke 0".into());
                ops.push("OReturn".into());
            }
            Item::MetaSet(k, v) => {
                // Metadata::set: the kv entry is opened (key check), written, then the event is emitted
                ops.push(format!("OH (HOpenStart (KMap {}))", 3 + k));
                ops.push(format!("OEvent {}", env.meta_event_len(*k, *v)));
            }
            Item::NfCycle(n) => {
                // account.withdraw_non_fungibles -> vault.take_non_fungibles: index remove of the id key;
                // (events of the withdrawal and deposit are not listed: event limits are left at their defaults)
                ops.push("OInvoke 0".into());
                ops.push(format!("OH (HRemoveStart (KMap {}))", nf_key_len(*n)));
                ops.push("OReturn".into());
                ops.push("OReturn".into());
                // account.deposit_batch -> vault.put: index insert of the id key (the entry value is a few bytes)
                ops.push("OInvoke 0".into());
                ops.push("OInvoke 0".into());
                ops.push(format!("OH (HSetStart (KMap {}) 0)", nf_key_len(*n)));
                ops.push("OReturn".into());
            }
            Item::NfDrain => {
                ops.push("OInvoke 0".into());
                ops.push("OH HDrainStart".into());
                ops.push("OReturn".into());
                ops.push("OReturn".into());
                ops.push("OInvoke 0".into());
                ops.push("OInvoke 0".into());
                ops.push("OReturn".into());
            }
            Item::NfScan => {
                ops.push("OInvoke 0".into());
                ops.push("OH HScanKeysStart".into());
                ops.push("OReturn".into());
            }
        }
        ops.push("OReturn".into());
    }

    let m = env.manifest_fee(items, fee);
    let r = {
        env.runs += 1;
        let nonce = env.ledger.next_transaction_nonce();
        let tx = TestTransaction::new_v1_from_nonce(m, nonce, btreeset![NonFungibleGlobalId::from_public_key(&env.pk)]);
        let mut c = Env::config(Some(lp));
        if !limits_on || !fee {
            let mut o = c.system_overrides.clone().unwrap();
            o.disable_limits = !limits_on;
            o.disable_costing = !fee;
            c.system_overrides = Some(o);
        }
        let ledger = &mut env.ledger;
        catch(std::panic::AssertUnwindSafe(|| ledger.execute_transaction_no_commit(tx, c)))
    };
    let (class, lim) = receipt_outcome(&r);
    let input = json!({"cfg": cfg_coq(&lp), "limits_on": limits_on, "fee": fee, "items": format!("{:?}", items), "engine": format!("{} {:?}", class, lim)});
    report.count(&format!("tx_{}", class.split(':').next().unwrap()));
    if let Some(e) = &lim {
        report.count(&format!("tx_err_{}", lerr_coq(e).split(' ').next().unwrap()));
    }
    let canon = format!("{}|{}|{}|{:?}", cfg_coq(&lp), limits_on, fee, items);
    report.case(&canon, true);

    // ---- oracle: the property statement on the parameters of the program ----
    let n_logs = items.iter().filter(|i| matches!(i, Item::Log(_))).count();
    let n_events = fee as usize + items.iter().filter(|i| matches!(i, Item::Event(_) | Item::MetaSet(..))).count();
    let nf_items = items.iter().any(|i| matches!(i, Item::NfCycle(_) | Item::NfDrain | Item::NfScan));
    let mut exceed: Vec<String> = Vec::new(); // what the program exceeds (any of them may be reported)
    if limits_on {
        if fee && lp.max_call_depth < 2 {
            exceed.push("CallDepthReached".into()); // faucet.lock_fee -> vault.lock_fee
        }
        if !items.is_empty() && lp.max_call_depth < 1 {
            exceed.push("CallDepthReached".into()); // every item is a call from the root frame
        }
        if n_logs > lp.max_number_of_logs {
            exceed.push("TooManyLogs".into());
        }
        if n_events > lp.max_number_of_events {
            exceed.push("TooManyEvents".into());
        }
        if fee && env.lock_fee_event_len > lp.max_event_size {
            exceed.push("LockFeeEventTooLarge".into());
        }
        for it in items {
            // these programs call one level deeper (the callee / the module blueprints at globalize)
            if matches!(it, Item::Invoke(_) | Item::Value(_) | Item::BufferNew | Item::NfCycle(_) | Item::NfDrain | Item::NfScan) && lp.max_call_depth < 2 {
                exceed.push("CallDepthReached".into());
            }
            match it {
                Item::Log(n) if *n > lp.max_log_size => exceed.push(format!("LogTooLarge {} {}", n, lp.max_log_size)),
                Item::Event(n) if env.event_len(*n) > lp.max_event_size => exceed.push(format!("EventTooLarge {} {}", env.event_len(*n), lp.max_event_size)),
                Item::Panic(n) if *n > lp.max_panic_message_size => exceed.push(format!("PanicTooLarge {} {}", n, lp.max_panic_message_size)),
                Item::Recurse(n) if (*n).max(1) as usize > lp.max_call_depth => exceed.push("CallDepthReached".into()),
                Item::Invoke(n) if env.invoke_len(*n) > lp.max_invoke_input_size => exceed.push(format!("InvokeExceeded {}", env.invoke_len(*n))),
                Item::Value(n) if env.value_len(*n) > lp.max_substate_value_size => exceed.push(format!("ValueExceeded {}", env.value_len(*n))),
                Item::BufferNew if env.buffer_field_len > lp.max_substate_value_size => exceed.push(format!("ValueExceeded {}", env.buffer_field_len)),
                Item::MetaSet(k, v) => {
                    if 3 + k > lp.max_substate_key_size {
                        exceed.push(format!("KeyExceeded {}", 3 + k));
                    }
                    if env.meta_event_len(*k, *v) > lp.max_event_size {
                        exceed.push(format!("EventTooLarge {} {}", env.meta_event_len(*k, *v), lp.max_event_size));
                    }
                }
                Item::NfCycle(n) if nf_key_len(*n) > lp.max_substate_key_size => exceed.push(format!("KeyExceeded {}", nf_key_len(*n))),
                _ => {}
            }
        }
    }
    let lock_fee_probe = fee && limits_on && env.lock_fee_event_len > lp.max_event_size;
    match (&lim, class.as_str()) {
        (Some(e), _) => {
            let s = lerr_coq(e);
            if !exceed.contains(&s) && !(lock_fee_probe && s.starts_with("EventTooLarge")) {
                report.oracle_failure(idx, "", &format!("failed by {} but the program exceeds only {:?}", s, exceed), input.clone());
            }
        }
        (None, "success") => {
            if !exceed.is_empty() {
                report.oracle_failure(idx, "", &format!("committed successfully although the program exceeds {:?}", exceed), input.clone());
            }
            if let Ok(rc) = &r {
                let c = rc.expect_commit_success();
                if c.application_logs.len() != n_logs || (limits_on && c.application_logs.len() > lp.max_number_of_logs) {
                    report.oracle_failure(idx, "", &format!("{} logs in the receipt, program emits {}", c.application_logs.len(), n_logs), input.clone());
                }
                let user_events = c.application_events.iter().filter(|(id, _)| id.1 == "TestEvent" || id.1 == "SetMetadataEvent" || (fee && id.1 == "LockFeeEvent")).count();
                if user_events != n_events && !nf_items {
                    report.oracle_failure(idx, "", &format!("{} execution events in the receipt, program emits {}", user_events, n_events), input.clone());
                }
                for (id, data) in &c.application_events {
                    if limits_on && id.1 == "TestEvent" && data.len() > lp.max_event_size {
                        report.oracle_failure(idx, "", "event larger than max_event_size committed", input.clone());
                    }
                }
                for (_, msg) in &c.application_logs {
                    if limits_on && msg.len() > lp.max_log_size {
                        report.oracle_failure(idx, "", "log larger than max_log_size committed", input.clone());
                    }
                }
            }
        }
        (None, _) => {
            // failed for another reason: only a panic item (the panic itself) may do that
            let has_panic = items.iter().any(|i| matches!(i, Item::Panic(_)));
            let only_panic_left = exceed.is_empty();
            if class.starts_with("panic") || class == "trap" {
                report.oracle_failure(
                    idx,
                    if lock_fee_probe && class == "trap" { "lock_fee_event_expect" } else { "" },
                    &format!("a panic inside the engine ({}): max_event_size {} is below the LockFeeEvent payload {}", class, lp.max_event_size, env.lock_fee_event_len),
                    input.clone(),
                );
            } else if !(has_panic && only_panic_left) && !lock_fee_probe {
                // the statement only asks that an over-limit program FAILS and that a within-limit program is
                // not failed by a limit: a failure of another kind is no property failure (the error kind
                // is compared with the model by the correspondence)
                report.count(if exceed.is_empty() { "tx_within_limits_failed_for_another_reason" } else { "tx_over_limit_failed_with_another_error_kind" });
                if report.notes.len() < 5 {
                    report.notes.push(format!("case {}: failed by {} ; the program exceeds {:?}", idx, class, exceed));
                }
            }
        }
    }
    if det.is_some() {
        let tag = if limits_on { "" } else { "_limits_off" };
        let outcome = if class == "success" { "passes" } else { "fails" };
        for it in items {
            let k = match it {
                Item::Log(n) => format!("det_tx_log_size_{}", rel(*n as u128, lp.max_log_size)),
                Item::Event(n) => format!("det_tx_event_size_{}", rel(env.event_len(*n) as u128, lp.max_event_size)),
                Item::Panic(n) => format!("det_tx_panic_size_{}", rel(*n as u128, lp.max_panic_message_size)),
                Item::Recurse(n) => format!("det_tx_depth_{}_{}", if fee { "fee" } else { "nofee" }, rel((*n).max(1) as u128, lp.max_call_depth)),
                Item::Invoke(n) => format!("det_tx_invoke_{}", rel(env.invoke_len(*n) as u128, lp.max_invoke_input_size)),
                Item::Value(n) => format!("det_tx_value_{}", rel(env.value_len(*n) as u128, lp.max_substate_value_size)),
                Item::BufferNew => format!("det_tx_create_node_value_{}", rel(env.buffer_field_len as u128, lp.max_substate_value_size)),
                Item::MetaSet(k, v) => {
                    report.count(&format!("det_tx_native_event_size_{}{}_{}", rel(env.meta_event_len(*k, *v) as u128, lp.max_event_size), tag, outcome));
                    format!("det_tx_key_size_open_{}", rel((3 + k) as u128, lp.max_substate_key_size))
                }
                Item::NfCycle(n) => format!("det_tx_key_size_remove_set_{}", rel(nf_key_len(*n) as u128, lp.max_substate_key_size)),
                Item::NfDrain => "det_tx_drain".to_string(),
                Item::NfScan => "det_tx_scan_keys".to_string(),
            };
            report.count(&format!("{}{}_{}", k, tag, outcome));
        }
        report.count(&format!("det_tx_logs_count_{}{}_{}", rel(n_logs as u128, lp.max_number_of_logs), tag, outcome));
        report.count(&format!("det_tx_events_count_{}_{}{}_{}", if fee { "fee" } else { "nofee" }, rel(n_events as u128, lp.max_number_of_events), tag, outcome));
        if !items.is_empty() && items.iter().all(|i| matches!(i, Item::MetaSet(..))) {
            report.count(&format!("det_tx_native_events_count_{}{}_{}", rel(n_events as u128, lp.max_number_of_events), tag, outcome));
        }
    }
    if idx < 12 {
        report.sample(json!({"tx": input}));
    }
    format!(
        "CTx {} (mkFlags {} true) {} {}",
        cfg_coq(&lp),
        coq_bool(limits_on),
        coq_list(ops),
        match &lim {
            Some(e) => format!("(RErr ({}))", lerr_coq(e)),
            None if class == "trap" => "RPanic".into(),
            None => "ROk".into(),
        }
    )
}


// ------------------------------------------------------------------------------------------------
// deterministic boundary family, whole transactions
// ------------------------------------------------------------------------------------------------

/// relation/outcome counters that the deterministic transaction family must produce (each with floor 1)
const DET_TX_FLOORS: &[&str] = &[
    "det_tx_depth_nofee_limit_minus_1_passes",
    "det_tx_depth_nofee_at_limit_passes",
    "det_tx_depth_nofee_limit_plus_1_fails",
    "det_tx_depth_fee_limit_minus_1_passes",
    "det_tx_depth_fee_at_limit_passes",
    "det_tx_depth_fee_limit_plus_1_fails",
    "det_tx_invoke_limit_minus_1_passes",
    "det_tx_invoke_at_limit_passes",
    "det_tx_invoke_limit_plus_1_fails",
    "det_tx_log_size_limit_minus_1_passes",
    "det_tx_log_size_at_limit_passes",
    "det_tx_log_size_limit_plus_1_fails",
    "det_tx_event_size_limit_minus_1_passes",
    "det_tx_event_size_at_limit_passes",
    "det_tx_event_size_limit_plus_1_fails",
    "det_tx_value_limit_minus_1_passes",
    "det_tx_value_at_limit_passes",
    "det_tx_value_limit_plus_1_fails",
    "det_tx_create_node_value_limit_minus_1_passes",
    "det_tx_create_node_value_at_limit_passes",
    "det_tx_create_node_value_limit_plus_1_fails",
    "det_tx_logs_count_limit_minus_1_passes",
    "det_tx_logs_count_at_limit_passes",
    "det_tx_logs_count_limit_plus_1_fails",
    "det_tx_events_count_nofee_limit_minus_1_passes",
    "det_tx_events_count_nofee_at_limit_passes",
    "det_tx_events_count_nofee_limit_plus_1_fails",
    "det_tx_events_count_fee_limit_minus_1_passes",
    "det_tx_events_count_fee_at_limit_passes",
    "det_tx_events_count_fee_limit_plus_1_fails",
    "det_tx_panic_size_limit_minus_1_fails",
    "det_tx_panic_size_at_limit_fails",
    "det_tx_panic_size_limit_plus_1_fails",
    "det_tx_depth_fee_above_limits_off_passes",
    "det_tx_invoke_above_limits_off_passes",
    "det_tx_value_above_limits_off_passes",
    "det_tx_create_node_value_above_limits_off_passes",
    "det_tx_event_size_above_limits_off_passes",
    "det_tx_log_size_above_limits_off_passes",
    "det_tx_logs_count_limit_plus_1_limits_off_passes",
    "det_tx_events_count_nofee_limit_plus_1_limits_off_passes",
    "det_tx_key_size_open_limit_minus_1_passes",
    "det_tx_key_size_open_at_limit_passes",
    "det_tx_key_size_open_limit_plus_1_fails",
    "det_tx_key_size_remove_set_limit_minus_1_passes",
    "det_tx_key_size_remove_set_at_limit_passes",
    "det_tx_key_size_remove_set_limit_plus_1_fails",
    "det_tx_native_event_size_limit_minus_1_passes",
    "det_tx_native_event_size_at_limit_passes",
    "det_tx_native_event_size_limit_plus_1_fails",
    "det_tx_native_events_count_limit_minus_1_passes",
    "det_tx_native_events_count_at_limit_passes",
    "det_tx_native_events_count_limit_plus_1_fails",
    "det_tx_key_size_open_above_limits_off_passes",
    "det_tx_key_size_remove_set_above_limits_off_passes",
    "det_tx_drain_passes",
    "det_tx_scan_keys_passes",
    "detc_tx_track_remove_set_peak_invariant",
    "detc_tx_track_drain_set_peak_invariant",
    "detc_tx_heap_remove_set_peak_invariant",
    "detc_tx_heap_drain_set_peak_invariant",
    "detc_tx_key_size_metadata_open",
    "detc_tx_key_size_nf_remove_set",
    "detc_tx_native_event_size",
    "detc_tx_native_events_count",
    "detc_tx_nf_drain_scan",
];

fn det_tx_family(env: &mut Env, report: &mut Report, cw: &mut CaseWriter) {
    let base = LimitParameters::babylon_genesis;
    let mut run = |env: &mut Env, report: &mut Report, cw: &mut CaseWriter, class: &str, lp: LimitParameters, limits_on: bool, fee: bool, items: Vec<Item>| {
        let idx = cw.len();
        let t = run_tx(env, lp, limits_on, fee, &items, report, idx, Some(class));
        cw.push(t);
        report.count("cases_det_tx");
    };
    let around3 = |m: usize| -> Vec<usize> { [m.checked_sub(1), Some(m), Some(m + 1)].into_iter().flatten().collect() };
    // call depth: recursive(n) needs depth max(n, 1); without a fee lock the program itself meets limits 0 and 1
    for max in [0usize, 1, 2, 3, 5] {
        for n in around3(max) {
            let mut lp = base();
            lp.max_call_depth = max;
            run(env, report, cw, &format!("detc_tx_depth_nofee_max_{}", max), lp, true, false, vec![Item::Recurse(n as u32)]);
            if max >= 2 {
                run(env, report, cw, &format!("detc_tx_depth_fee_max_{}", max), lp, true, true, vec![Item::Recurse(n as u32)]);
            }
        }
    }
    // invoke payload
    {
        let l = 20_000usize;
        for target in around3(l) {
            let raw = (target - 100..target).find(|r| env.invoke_len(*r) == target).expect("raw size for the invoke payload");
            let mut lp = base();
            lp.max_invoke_input_size = l;
            run(env, report, cw, "detc_tx_invoke_payload", lp, true, true, vec![Item::Invoke(raw)]);
        }
    }
    // number of logs
    for max in [0usize, 1] {
        for n in around3(max) {
            let mut lp = base();
            lp.max_number_of_logs = max;
            let mut items: Vec<Item> = (0..n).map(|_| Item::Log(3)).collect();
            if items.is_empty() {
                items.push(Item::Recurse(1));
            }
            run(env, report, cw, &format!("detc_tx_logs_count_max_{}", max), lp, true, true, items);
        }
    }
    // number of events: without a fee lock the program's own events meet limits 0 and 1; with one the LockFeeEvent counts
    for (fee, maxes) in [(false, vec![0usize, 1]), (true, vec![0usize, 1, 2])] {
        for max in maxes {
            for total in around3(max) {
                if fee && total == 0 {
                    continue;
                }
                let n = total - fee as usize;
                let mut lp = base();
                lp.max_number_of_events = max;
                let mut items: Vec<Item> = (0..n).map(|_| Item::Event(3)).collect();
                if items.is_empty() {
                    items.push(Item::Recurse(1));
                }
                run(env, report, cw, &format!("detc_tx_events_count_{}_max_{}", if fee { "fee" } else { "nofee" }, max), lp, true, fee, items);
            }
        }
    }
    // log / event / panic message sizes, also with limit 0
    for l in [0usize, 9] {
        for n in around3(l) {
            let mut lp = base();
            lp.max_log_size = l;
            run(env, report, cw, &format!("detc_tx_log_size_limit_{}", l), lp, true, true, vec![Item::Log(n)]);
            let mut lp = base();
            lp.max_panic_message_size = l;
            run(env, report, cw, &format!("detc_tx_panic_size_limit_{}", l), lp, true, true, vec![Item::Panic(n)]);
        }
    }
    for (fee, n0) in [(false, 3usize), (true, 40)] {
        for n in around3(n0) {
            let mut lp = base();
            lp.max_event_size = env.event_len(n0);
            run(env, report, cw, &format!("detc_tx_event_size_{}", if fee { "fee" } else { "nofee" }), lp, true, fee, vec![Item::Event(n)]);
        }
    }
    {
        let mut lp = base();
        lp.max_event_size = 0;
        run(env, report, cw, "detc_tx_event_size_limit_0", lp, true, false, vec![Item::Event(0)]);
    }
    // substate value written to a KV entry (WriteSubstateEvent::Start) and the field of a created node (CreateNodeEvent::Start)
    {
        let l = 12_000usize;
        for target in around3(l) {
            let raw = (target - 100..target).find(|r| env.value_len(*r) == target).expect("raw size for the value");
            let mut lp = base();
            lp.max_substate_value_size = l;
            run(env, report, cw, "detc_tx_value_write", lp, true, true, vec![Item::Value(raw)]);
        }
        for l in around3(env.buffer_field_len) {
            let mut lp = base();
            lp.max_substate_value_size = l;
            run(env, report, cw, "detc_tx_create_node_value", lp, true, true, vec![Item::BufferNew]);
        }
    }
    // substate key size through native blueprints: metadata entry (kv entry open) and non-fungible vault index
    // (remove on withdraw by id, set on deposit); the other keys of these transactions are shorter than the limit
    {
        for k in [10usize, 76, 77, 78] {
            let mut lp = base();
            lp.max_substate_key_size = 80;
            run(env, report, cw, "detc_tx_key_size_metadata_open", lp, true, true, vec![Item::MetaSet(k, 5)]);
        }
        for n in NF_ID_LENS {
            let mut lp = base();
            lp.max_substate_key_size = nf_key_len(52);
            run(env, report, cw, "detc_tx_key_size_nf_remove_set", lp, true, true, vec![Item::NfCycle(n)]);
        }
        run(env, report, cw, "detc_tx_nf_drain_scan", base(), true, true, vec![Item::NfDrain, Item::NfScan, Item::NfCycle(51)]);
    }
    // native events: SetMetadataEvent size at the limit, number of events with two native emitters
    {
        let s0 = env.meta_event_len(20, 20);
        for l in around3(s0) {
            let mut lp = base();
            lp.max_event_size = l;
            run(env, report, cw, "detc_tx_native_event_size", lp, true, true, vec![Item::MetaSet(20, 20)]);
        }
        for max in around3(3) {
            let mut lp = base();
            lp.max_number_of_events = max;
            run(env, report, cw, "detc_tx_native_events_count", lp, true, true, vec![Item::MetaSet(5, 5), Item::MetaSet(6, 6)]);
        }
    }
    // limits disabled: every over-limit item passes
    {
        let mut lp = base();
        lp.max_call_depth = 1;
        lp.max_number_of_logs = 0;
        lp.max_log_size = 0;
        lp.max_number_of_events = 0;
        lp.max_event_size = 0;
        lp.max_panic_message_size = 0;
        lp.max_invoke_input_size = 100;
        lp.max_substate_value_size = 100;
        lp.max_heap_substate_total_bytes = 0;
        lp.max_track_substate_total_bytes = 0;
        lp.max_substate_key_size = 0;
        run(env, report, cw, "detc_tx_limits_off", lp, false, true, vec![Item::Log(5), Item::Event(5), Item::Recurse(4), Item::Invoke(5000), Item::Value(5000), Item::BufferNew, Item::MetaSet(30, 30), Item::NfCycle(53)]);
        run(env, report, cw, "detc_tx_limits_off", lp, false, true, vec![Item::Log(5), Item::Panic(5)]);
        run(env, report, cw, "detc_tx_limits_off", lp, false, false, vec![Item::Event(5), Item::Recurse(3)]);
    }
}

/// The smallest heap (or track) total limit under which the program commits = its peak total
/// (binary search on "the receipt is a success"; `>` means limit = peak passes, peak - 1 fails).
fn peak_total(env: &mut Env, heap: bool, items: &[Item]) -> Option<usize> {
    let mut passes = |env: &mut Env, l: usize| -> bool {
        let mut lp = LimitParameters::babylon_genesis();
        if heap {
            lp.max_heap_substate_total_bytes = l;
        } else {
            lp.max_track_substate_total_bytes = l;
        }
        let m = env.manifest(items);
        let r = env.exec_manifest(m, Some(lp));
        receipt_outcome(&r).0 == "success"
    };
    let (mut lo, mut hi) = (0usize, 1usize << 24);
    if !passes(env, hi) {
        return None;
    }
    // invariant: fails under lo - 1 (or lo = 0), passes under hi
    while lo < hi {
        let mid = lo + (hi - lo) / 2;
        if passes(env, mid) {
            hi = mid;
        } else {
            lo = mid + 1;
        }
    }
    Some(lo)
}

/// Heap substates created and dropped again (every function call creates an auth zone node and
/// the frame's own nodes, all dropped when the call returns: DropNodeEvent::IOAccess with
/// new_size = None): repeating the same call must not raise the peak heap total. A counter that
/// is not fully decremented on drop drifts upwards with every repetition.
/// Track substates removed and written again: withdrawing a non-fungible by id removes its vault index
/// entry (RemoveSubstateEvent::IOAccess, new_size = None), withdrawing by amount drains it
/// (DrainSubstatesEvent::IOAccess), depositing it back sets it (SetSubstateEvent::IOAccess). Repeating
/// the cycle must not raise the peak track (or heap) total.
fn det_track_remove_family(env: &mut Env, report: &mut Report, idx: usize) {
    for (name, item) in [("remove_set", Item::NfCycle(10)), ("drain_set", Item::NfDrain)] {
        for heap in [false, true] {
            let prog = |k: usize| -> Vec<Item> { (0..k).map(|_| item.clone()).collect() };
            let peaks: Vec<Option<usize>> = [1usize, 2, 4].iter().map(|k| peak_total(env, heap, &prog(*k))).collect();
            let class = format!("detc_tx_{}_{}_peak_invariant", if heap { "heap" } else { "track" }, name);
            report.extra.insert(format!("{}_of_1_2_4_cycles", class), json!(format!("{:?}", peaks)));
            match (&peaks[0], &peaks[1], &peaks[2]) {
                (Some(a), Some(b), Some(c)) if a == b && b == c => report.count(&class),
                _ => report.oracle_failure(
                    idx,
                    "",
                    &format!("{}: peak {} total of 1 / 2 / 4 repetitions of withdraw + deposit of the same non-fungible: {:?}", class, if heap { "heap" } else { "track" }, peaks),
                    json!({"program": format!("k x {:?}", item)}),
                ),
            }
        }
    }
}

fn det_heap_drop_family(env: &mut Env, report: &mut Report, idx: usize) {
    let prog = |k: usize| -> Vec<Item> { (0..k).map(|_| Item::Recurse(2)).collect() };
    let peaks: Vec<Option<usize>> = [2usize, 3, 6].iter().map(|k| peak_total(env, true, &prog(*k))).collect();
    report.extra.insert("heap_peak_of_2_3_6_calls".into(), json!(format!("{:?}", peaks)));
    match (&peaks[0], &peaks[1], &peaks[2]) {
        (Some(a), Some(b), Some(c)) if a == b && b == c => report.count("detc_tx_heap_drop_peak_invariant"),
        _ => report.oracle_failure(
            idx,
            "",
            &format!("peak heap total of 2 / 3 / 6 repetitions of the same call (all heap nodes of a call are dropped when it returns): {:?}", peaks),
            json!({"program": "k x Caller::recursive(2)"}),
        ),
    }
}

// ------------------------------------------------------------------------------------------------
// heap / track totals on real transactions: boundary exactness
// ------------------------------------------------------------------------------------------------

fn boundary_case(env: &mut Env, rng: &mut Rng, report: &mut Report, idx: usize, fixed: Option<(bool, u32, usize)>) -> String {
    let heap = fixed.map(|f| f.0).unwrap_or_else(|| rng.bool());
    let n = fixed.map(|f| f.1).unwrap_or_else(|| 1 + rng.below(40) as u32);
    let manifest = |env: &Env| {
        let b = ManifestBuilder::new().lock_fee_from_faucet();
        if heap {
            b.call_function(env.tl, "TransactionLimitTest", "write_entries_to_heap_kv_store", manifest_args!(n)).build()
        } else if n % 2 == 0 {
            b.call_method(env.comp, "write_entries_to_kv_store", manifest_args!(n)).build()
        } else {
            b.call_method(env.comp, "read_non_existent_entries_from_kv_store", manifest_args!(n)).build()
        }
    };
    let with_limit = |l: usize| {
        let mut lp = LimitParameters::babylon_genesis();
        if heap {
            lp.max_heap_substate_total_bytes = l;
        } else {
            lp.max_track_substate_total_bytes = l;
        }
        lp
    };
    // every engine execution of this case: (limit, outcome) for the Coq evaluator.  A limit error raised
    // by an IO access made while a blueprint payload is validated against its schema reaches the
    // receipt as SystemError(TypeCheckError(BlueprintPayloadValidationError(.., "..TransactionLimitsError(..)..")))
    // ("masked"): the transaction is failed either way, which is all the property asks; the kind is
    // recorded for the model (`surface` in Model/C49_Limits.v) and counted.
    let masked = |class: &str, e: &Option<TransactionLimitsError>, limit: usize, report: &mut Report, obs: &mut Vec<String>| {
        if class == "masked" {
            report.count("boundary_masked");
        }
        let o = match (class, e) {
            ("success", _) => Some("None".to_string()),
            ("limit", Some(e)) => Some(format!("(Some (SLimit ({})))", lerr_coq(e))),
            ("masked", Some(e)) => Some(format!("(Some (SMaskedTypeCheck ({})))", lerr_coq(e))),
            _ => None, // anything else is reported by the oracle below
        };
        if let Some(o) = o {
            obs.push(format!("({}, {})", limit, o));
        }
    };
    let mut obs: Vec<String> = Vec::new();
    let actual_of = |e: &Option<TransactionLimitsError>| -> Option<(usize, usize)> {
        match e {
            Some(TransactionLimitsError::HeapSubstateSizeExceeded { actual, max }) if heap => Some((*actual, *max)),
            Some(TransactionLimitsError::TrackSubstateSizeExceeded { actual, max }) if !heap => Some((*actual, *max)),
            _ => None,
        }
    };
    // the first limit: somewhere below what the program needs (heap: a few hundred bytes per
    // entry; track: the package code is read, so hundreds of kilobytes)
    let l0 = if let Some(f) = fixed {
        f.2
    } else if heap {
        rng.usize_below(200 + 120 * n as usize)
    } else {
        150_000 + rng.usize_below(400_000)
    };
    let m = manifest(env);
    let r0 = env.exec_manifest(m, Some(with_limit(l0)));
    let (c0, e0) = receipt_outcome(&r0);
    masked(&c0, &e0, l0, report, &mut obs);
    let input = json!({"heap": heap, "n": n, "limit": l0, "engine": format!("{} {:?}", c0, e0)});
    report.count(if heap { "boundary_heap" } else { "boundary_track" });
    match actual_of(&e0) {
        None => {
            if c0 != "success" {
                report.oracle_failure(idx, "", &format!("unexpected outcome {} {:?}", c0, e0), input);
            } else {
                report.count("boundary_passed_first");
            }
        }
        Some((a, mx)) => {
            report.count("boundary_exceeded");
            if !(a > l0 && mx == l0) {
                report.oracle_failure(idx, "", &format!("reported actual {} max {} under limit {}", a, mx, l0), input.clone());
            }
            // limit = actual - 1: fails with the same actual
            let m = manifest(env);
            let r1 = env.exec_manifest(m, Some(with_limit(a - 1)));
            let (c1, e1) = receipt_outcome(&r1);
            masked(&c1, &e1, a - 1, report, &mut obs);
            if actual_of(&e1) != Some((a, a - 1)) {
                report.oracle_failure(idx, "", &format!("under limit actual-1 = {} expected the same actual {}, got {:?}", a - 1, a, e1), input.clone());
            }
            // limit = actual: does not fail there (passes, or fails later with a larger actual);
            // climb: the reported actual becomes the next limit, until the program passes: that
            // limit is the peak total, and peak - 1 must fail reporting exactly the peak
            let mut cur = a;
            for step in 0..40 {
                let m = manifest(env);
                let r2 = env.exec_manifest(m, Some(with_limit(cur)));
                let (c2, e2) = receipt_outcome(&r2);
                masked(&c2, &e2, cur, report, &mut obs);
                match actual_of(&e2) {
                    Some((a2, mx2)) if a2 > cur && mx2 == cur => {
                        if step == 0 {
                            report.count("boundary_fails_later");
                        }
                        cur = a2;
                    }
                    None if c2 == "success" => {
                        report.count("boundary_passes_at_limit");
                        if cur > a {
                            let m = manifest(env);
                            let r3 = env.exec_manifest(m, Some(with_limit(cur - 1)));
                            let (c3, e3) = receipt_outcome(&r3);
                            masked(&c3, &e3, cur - 1, report, &mut obs);
                            match actual_of(&e3) {
                                Some((a3, _)) if a3 <= cur && a3 > cur - 1 => report.count("boundary_peak_exact"),
                                other => report.oracle_failure(idx, "", &format!("passes under limit {} but under {} got {:?}", cur, cur - 1, other), input.clone()),
                            }
                        }
                        break;
                    }
                    other => {
                        report.oracle_failure(idx, "", &format!("under limit = actual = {} got {} {:?}", cur, c2, other), input.clone());
                        break;
                    }
                }
            }
        }
    }
    report.case(&format!("boundary|{}|{}|{}", heap, n, l0), true);
    format!("CBoundary {} {}", coq_bool(heap), coq_list(obs))
}

fn main() {
    let args = Args::parse();
    let mut report = Report::new(
        "C49",
        args.seed,
        "direct: 10..60 calls on LimitsModule/SystemModuleMixer built from random LimitParameters, sizes at limit-1/limit/limit+1, IO events consistent with a replayed store \
         (plus inconsistent/overflowing ones), non-trivial = at least one call answered Ok and one answered with a limit error; tx: manifests of 1..5 calls into the test blueprints \
         under overridden limits; boundary: heap/track totals at actual-1/actual; a deterministic boundary family (detc_* classes, identical for every seed) precedes the random stream; distinct by canonical text",
    );
    let mut cw = CaseWriter::new("RV.Corr.C49_run RV.Model.C49_Limits", "check");
    let root = Rng::new(args.seed);
    let mut env = Env::new();
    report.extra.insert("lock_fee_event_len".into(), json!(env.lock_fee_event_len));
    report.extra.insert("event_overhead".into(), json!(env.event_overhead));
    report.extra.insert("value_overhead".into(), json!(env.value_overhead));
    // ---- deterministic boundary family: identical for every seed, before the random stream ----
    let mut det_classes: Vec<String> = Vec::new();
    for (class, sc) in det_direct_family() {
        let idx = cw.len();
        let t = run_direct(&sc, &mut report, idx, Some(&class));
        cw.push(t);
        report.count("cases_det_direct");
        det_classes.push(class);
    }
    det_tx_family(&mut env, &mut report, &mut cw);
    {
        let idx = cw.len();
        det_heap_drop_family(&mut env, &mut report, idx);
        det_track_remove_family(&mut env, &mut report, idx);
    }
    let det_n = cw.len();
    report.extra.insert("deterministic_cases".into(), json!(det_n));
    for i in 0..args.cases {
        let mut rng = root.fork(i as u64);
        let i = i + det_n; // case index in the Coq files
        match (i - det_n) % 8 {
            0 | 3 => {
                let t = tx_case(&mut env, &mut rng, &mut report, i);
                cw.push(t);
                report.count("cases_tx");
            }
            6 if (i - det_n) % 16 == 6 => {
                let t = boundary_case(&mut env, &mut rng, &mut report, i, None);
                cw.push(t);
                report.count("cases_boundary");
            }
            _ => {
                let t = direct_case(&mut rng, &mut report, i);
                cw.push(t);
                report.count("cases_direct");
            }
        }
    }
    // a fixed boundary case in which the track limit error is raised during payload validation and
    // reaches the receipt wrapped in a TypeCheckError (still a failed transaction): climb from 150000
    {
        let mut rng = root.fork(u64::MAX);
        let idx = cw.len();
        let t = boundary_case(&mut env, &mut rng, &mut report, idx, Some((false, 5, 150_000)));
        cw.push(t);
    }
    // replay of the known finding lock_fee_event_expect: max_event_size one below the LockFeeEvent payload
    {
        let mut lp = LimitParameters::babylon_genesis();
        lp.max_event_size = env.lock_fee_event_len - 1;
        let m = env.manifest(&[Item::Log(1)]);
        let r = env.exec_manifest(m, Some(lp));
        let (class, lim) = receipt_outcome(&r);
        let input = json!({"cfg": cfg_coq(&lp), "items": "[Log(1)]", "engine": format!("{} {:?}", class, lim)});
        if class == "trap" {
            report.count("known_lock_fee_trap_replayed");
            report.oracle_failure(
                cw.len(),
                "lock_fee_event_expect",
                &format!("max_event_size {} < LockFeeEvent payload {}: FungibleVault::lock_fee panics in expect(\"Event should never exceed size.\") (VmError::Native(Trap)) instead of a TransactionLimitsError", lp.max_event_size, env.lock_fee_event_len),
                input,
            );
        } else {
            report.notes.push(format!("known finding lock_fee_event_expect did not reproduce: {} {:?}", class, lim));
        }
        cw.push(format!(
            "CTx {} (mkFlags true true) [OInvoke 0; OInvoke 0; OAssertCanAddEvent; OLockFeeEmit {}] {}",
            cfg_coq(&lp),
            env.lock_fee_event_len,
            match &lim {
                Some(e) => format!("(RErr ({}))", lerr_coq(e)),
                None if class == "trap" => "RPanic".into(),
                None => "ROk".into(),
            }
        ));
    }
    report.extra.insert("engine_executions".into(), json!(env.runs));
    let n = args.cases as u64;
    report.floor("cases_direct", n / 2);
    report.floor("cases_tx", n / 5);
    report.floor("direct_io_oracle_checked", n);
    report.floor("direct_heap_exceeded", n / 4);
    report.floor("direct_track_exceeded", n / 4);
    report.floor("direct_answers_ok", n);
    report.floor("direct_key_over", n / 20);
    report.floor("direct_key_within", n / 20);
    report.floor("direct_value_over", n / 40);
    report.floor("direct_value_within", n / 40);
    report.floor("direct_log_err", n / 20);
    report.floor("direct_log_ok", n / 20);
    report.floor("direct_event_err", n / 20);
    report.floor("direct_event_ok", n / 20);
    report.floor("tx_success", n / 40);
    report.floor("known_lock_fee_trap_replayed", 1);
    report.floor("boundary_exceeded", n / 80);
    report.floor("tx_limit", n / 20);
    // every class of the deterministic family
    for c in &det_classes {
        report.floor(c, 1);
    }
    for c in DET_DIRECT_FLOORS {
        report.floor(c, 1);
    }
    for c in DET_TX_FLOORS {
        report.floor(c, 1);
    }
    report.floor("detc_tx_heap_drop_peak_invariant", 1);
    cw.write(&args.out, args.shards).unwrap();
    report.write(&args.out).unwrap();
}
