//! C49 correspondence harness: execution limits.
//!
//! Three kinds of cases
//!  * direct: a `LimitsModule` (process_substate_key / process_substate_value /
//!    process_io_access) and a `SystemModuleMixer` (add_log / checked_add_event /
//!    assert_can_add_event / add_event_unchecked / set_panic_message) built from a random
//!    `LimitParameters` are driven call by call with sizes around the configured limits; every
//!    answer (Ok / error variant with its payload / panic) is compared with the Coq model.
//!    Oracle (plain replay, no limit logic): a BTreeMap of the tracked substates gives the exact
//!    heap/track totals; a call must fail iff the relevant size (or total, or count) is above the
//!    configured limit, and the reported `actual` must be that size.
//!  * tx: whole transactions on LedgerSimulator with overridden LimitParameters: a manifest of
//!    calls into the test blueprints `transaction_limits` / `recursion` (logs, events, panic
//!    message, recursion depth, invoke payload, substate value) with parameters at limit-1,
//!    limit, limit+1. The receipt's TransactionLimitsError (or its absence) is compared with the
//!    model run on the abstract event list of the program. Oracle: success => every parameter is
//!    within its limit; all parameters within limits => not failed by a limit; a limit error
//!    names a limit that a parameter of the program really exceeds.
//!  * boundary: heap / track total limits on real transactions: if a run fails with
//!    `actual = a` under limit L then a > L, the same program under limit a-1 fails with the same
//!    a, and under limit a it does not fail at a any more (`>` not `>=`).
use radix_common::prelude::*;
use radix_engine::errors::*;
use radix_engine::system::system_modules::auth::AuthModule;
use radix_engine::system::system_modules::costing::*;
use radix_engine::system::system_modules::execution_trace::ExecutionTraceModule;
use radix_engine::system::system_modules::kernel_trace::KernelTraceModule;
use radix_engine::system::system_modules::limits::*;
use radix_engine::system::system_modules::transaction_runtime::{Event, TransactionRuntimeModule};
use radix_engine::system::system_modules::{EnabledModules, SystemModuleMixer};
use radix_engine::system::system_type_checker::TypeCheckError;
use radix_engine::track::interface::{CanonicalSubstateKey, IOAccess};
use radix_engine::transaction::*;
use radix_engine_interface::blueprints::package::*;
use radix_engine_interface::prelude::*;
use radix_transactions::prelude::*;
use scrypto_test::prelude::{LedgerSimulator, LedgerSimulatorBuilder, NoExtension};
use serde_json::json;
use std::collections::BTreeMap;
use vh_common::*;

type Ledger = LedgerSimulator<NoExtension, radix_substate_store_impls::memory_db::InMemorySubstateDatabase>;

const TL_WASM: &[u8] = include_bytes!("../../assets/c49/transaction_limits.wasm");
const TL_RPD: &[u8] = include_bytes!("../../assets/c49/transaction_limits.rpd");
const REC_WASM: &[u8] = include_bytes!("../../assets/c49/recursion.wasm");
const REC_RPD: &[u8] = include_bytes!("../../assets/c49/recursion.rpd");

// ------------------------------------------------------------------------------------------------
// canonical outcomes
// ------------------------------------------------------------------------------------------------

#[derive(Clone, Debug, PartialEq, Eq)]
enum Res {
    Ok,
    Err(TransactionLimitsError),
    Panic,
    Other(String),
}

fn lerr_coq(e: &TransactionLimitsError) -> String {
    use TransactionLimitsError::*;
    match e {
        MaxSubstateKeySizeExceeded(n) => format!("KeyExceeded {}", n),
        MaxSubstateSizeExceeded(n) => format!("ValueExceeded {}", n),
        MaxInvokePayloadSizeExceeded(n) => format!("InvokeExceeded {}", n),
        MaxCallDepthLimitReached => "CallDepthReached".into(),
        TrackSubstateSizeExceeded { actual, max } => format!("TrackExceeded {} {}", actual, max),
        HeapSubstateSizeExceeded { actual, max } => format!("HeapExceeded {} {}", actual, max),
        LogSizeTooLarge { actual, max } => format!("LogTooLarge {} {}", actual, max),
        EventSizeTooLarge { actual, max } => format!("EventTooLarge {} {}", actual, max),
        PanicMessageSizeTooLarge { actual, max } => format!("PanicTooLarge {} {}", actual, max),
        TooManyLogs => "TooManyLogs".into(),
        TooManyEvents => "TooManyEvents".into(),
    }
}
fn res_coq(r: &Res) -> String {
    match r {
        Res::Ok => "ROk".into(),
        Res::Err(e) => format!("RErr ({})", lerr_coq(e)),
        Res::Panic => "RPanic".into(),
        Res::Other(_) => "RPanic".into(), // never produced by the direct driver; flagged separately
    }
}
fn of_result(r: Result<Result<(), RuntimeError>, String>) -> Res {
    match r {
        Err(_) => Res::Panic,
        Ok(Ok(())) => Res::Ok,
        Ok(Err(RuntimeError::SystemModuleError(SystemModuleError::TransactionLimitsError(e)))) => Res::Err(e),
        Ok(Err(e)) => Res::Other(format!("{:?}", e)),
    }
}

fn cfg_coq(p: &LimitParameters) -> String {
    format!(
        "(mkConfig {} {} {} {} {} {} {} {} {} {} {})",
        p.max_call_depth,
        p.max_heap_substate_total_bytes,
        p.max_track_substate_total_bytes,
        p.max_substate_key_size,
        p.max_substate_value_size,
        p.max_invoke_input_size,
        p.max_event_size,
        p.max_log_size,
        p.max_panic_message_size,
        p.max_number_of_logs,
        p.max_number_of_events
    )
}
fn cfg_json(p: &LimitParameters) -> serde_json::Value {
    json!(cfg_coq(p))
}

// ------------------------------------------------------------------------------------------------
// direct cases
// ------------------------------------------------------------------------------------------------

#[derive(Clone, Debug)]
enum SKey {
    Map(usize),
    Sorted(usize),
    Field,
}
impl SKey {
    fn real(&self) -> SubstateKey {
        match self {
            SKey::Map(n) => SubstateKey::Map(vec![7u8; *n]),
            SKey::Sorted(n) => SubstateKey::Sorted(([1, 2], vec![9u8; *n])),
            SKey::Field => SubstateKey::Field(3),
        }
    }
    fn coq(&self) -> String {
        match self {
            SKey::Map(n) => format!("(KMap {})", n),
            SKey::Sorted(n) => format!("(KSorted {})", n),
            SKey::Field => "KField".into(),
        }
    }
    /// the size the limit is about (the documented meaning: length of the key bytes)
    fn size(&self) -> usize {
        match self {
            SKey::Map(n) => *n,
            SKey::Sorted(n) => *n + 2,
            SKey::Field => 1,
        }
    }
}

#[derive(Clone, Debug)]
enum DOp {
    Key(SKey),
    Value(usize), // number of raw bytes inside the value; the value length is measured
    Io { heap: bool, key: usize, old: Option<usize>, new: Option<usize> },
    Read(bool),
    Log(usize),
    Event(usize),
    AssertCanAdd,
    AddUnchecked(usize),
    PanicMsg(usize),
}

fn opt_coq(o: &Option<usize>) -> String {
    match o {
        Some(n) => format!("(Some {})", n),
        None => "None".into(),
    }
}

fn around(rng: &mut Rng, pivot: usize, span: usize) -> usize {
    match rng.below(10) {
        0 | 1 | 2 => pivot,
        3 | 4 => pivot.saturating_add(1),
        5 | 6 => pivot.saturating_sub(1),
        7 => pivot.saturating_add(2),
        8 => 0,
        _ => rng.usize_below(span.max(1) * 2 + 2),
    }
}

fn make_mixer(lp: LimitParameters, limits_on: bool, runtime_on: bool) -> SystemModuleMixer {
    let mut enabled = EnabledModules::empty();
    if limits_on {
        enabled |= EnabledModules::LIMITS;
    }
    if runtime_on {
        enabled |= EnabledModules::TRANSACTION_RUNTIME;
    }
    let costing = CostingModule {
        current_depth: 0,
        fee_reserve: SystemLoanFeeReserve::new(
            CostingParameters::babylon_genesis(),
            TransactionCostingParameters { tip: TipSpecifier::None, free_credit_in_xrd: Decimal::ZERO },
            false,
        ),
        fee_table: FeeTable::latest(),
        tx_payload_len: 0,
        tx_num_of_signature_validations: 0,
        config: CostingModuleConfig::babylon_genesis(),
        cost_breakdown: None,
        detailed_cost_breakdown: None,
        on_apply_cost: Default::default(),
    };
    SystemModuleMixer::new(
        enabled,
        KernelTraceModule,
        TransactionRuntimeModule::new(NetworkDefinition::simulator(), hash(b"c49")),
        AuthModule::new(),
        LimitsModule::from_params(lp),
        costing,
        ExecutionTraceModule::new(0),
    )
}

fn some_event(size: usize) -> Event {
    Event {
        type_identifier: EventTypeIdentifier(
            Emitter::Function(BlueprintId::new(&PACKAGE_PACKAGE, "X")),
            "E".to_string(),
        ),
        payload: vec![0u8; size],
        flags: EventFlags::empty(),
    }
}

fn direct_case(rng: &mut Rng, report: &mut Report, idx: usize) -> String {
    // configuration
    let flavour = rng.below(4);
    let mut lp = LimitParameters::babylon_genesis();
    lp.max_substate_key_size = rng.usize_below(120);
    lp.max_substate_value_size = 8 + rng.usize_below(600);
    lp.max_log_size = rng.usize_below(200);
    lp.max_event_size = rng.usize_below(200);
    lp.max_panic_message_size = rng.usize_below(200);
    lp.max_number_of_logs = rng.usize_below(8);
    lp.max_number_of_events = rng.usize_below(8);
    match flavour {
        0 => {
            // probe: every IO answer reports the heap counter
            lp.max_heap_substate_total_bytes = 0;
            lp.max_track_substate_total_bytes = rng.usize_below(3000);
        }
        1 => {
            // probe: every IO answer reports the track counter
            lp.max_heap_substate_total_bytes = usize::MAX;
            lp.max_track_substate_total_bytes = 0;
        }
        _ => {
            lp.max_heap_substate_total_bytes = rng.usize_below(4000);
            lp.max_track_substate_total_bytes = rng.usize_below(4000);
        }
    }
    let (limits_on, runtime_on) = match rng.below(10) {
        0 => (false, true),
        1 => (true, false),
        2 => (false, false),
        _ => (true, true),
    };
    report.count(&format!("direct_flavour_{}", flavour));

    // key pool: canonical keys of different shapes
    let nkeys = 3 + rng.usize_below(8);
    let pool: Vec<CanonicalSubstateKey> = (0..nkeys)
        .map(|i| {
            let mut id = [0u8; NodeId::LENGTH];
            id[0] = i as u8;
            let sk = match rng.below(3) {
                0 => SubstateKey::Field(i as u8),
                1 => SubstateKey::Map(vec![i as u8; 1 + rng.usize_below(60)]),
                _ => SubstateKey::Sorted(([0, i as u8], vec![i as u8; rng.usize_below(60)])),
            };
            CanonicalSubstateKey { node_id: NodeId(id), partition_number: PartitionNumber(rng.below(4) as u8), substate_key: sk }
        })
        .collect();
    // plain replay stores: key index -> size
    let mut stores: [BTreeMap<usize, usize>; 2] = [BTreeMap::new(), BTreeMap::new()];

    let nops = 10 + rng.usize_below(50);
    let mut ops = Vec::new();
    for _ in 0..nops {
        // the module object itself is only reached through the mixer when LIMITS is enabled
        let k = if limits_on { rng.below(100) } else { 78 + rng.below(22) };
        let op = if k < 55 {
            let heap = rng.bool();
            let key = rng.usize_below(nkeys);
            let cur = stores[heap as usize].get(&key).cloned();
            let klen = pool[key].len();
            let limit = if heap { lp.max_heap_substate_total_bytes } else { lp.max_track_substate_total_bytes };
            let total: usize = stores[heap as usize].iter().map(|(k, s)| pool[*k].len() as u128 + *s as u128).sum::<u128>().min(usize::MAX as u128) as usize;
            // a size that lands the total on the limit
            let fit = limit.saturating_sub(total.saturating_sub(cur.map(|c| c.saturating_add(klen)).unwrap_or(0))).saturating_sub(klen);
            let fresh = |rng: &mut Rng| -> usize {
                if limit < 100_000 && rng.chance(1, 2) {
                    around(rng, fit, 300)
                } else {
                    rng.usize_below(700)
                }
            };
            let r = rng.below(100);
            let (old, new) = match cur {
                None => {
                    if r < 85 {
                        (None, Some(fresh(rng)))
                    } else if r < 92 {
                        (None, None)
                    } else if r < 96 {
                        (Some(rng.usize_below(500)), if rng.bool() { None } else { Some(rng.usize_below(500)) })
                    } else {
                        (None, Some(usize::MAX - rng.usize_below(2000)))
                    }
                }
                Some(c) => {
                    if r < 50 {
                        (Some(c), Some(fresh(rng)))
                    } else if r < 92 {
                        (Some(c), None)
                    } else if r < 96 {
                        (None, Some(rng.usize_below(500)))
                    } else {
                        (Some(c.saturating_add(1 + rng.usize_below(4000))), None)
                    }
                }
            };
            match new {
                Some(n) => {
                    stores[heap as usize].insert(key, n);
                }
                None => {
                    stores[heap as usize].remove(&key);
                }
            }
            DOp::Io { heap, key, old, new }
        } else if k < 60 {
            DOp::Read(rng.bool())
        } else if k < 70 {
            let m = lp.max_substate_key_size;
            DOp::Key(match rng.below(5) {
                0 => SKey::Field,
                1 | 2 => SKey::Map(around(rng, m, 60)),
                _ => SKey::Sorted(around(rng, m.saturating_sub(2), 60)),
            })
        } else if k < 78 {
            DOp::Value(around(rng, lp.max_substate_value_size.saturating_sub(5), 300))
        } else if k < 86 {
            DOp::Log(around(rng, lp.max_log_size, 100))
        } else if k < 93 {
            DOp::Event(around(rng, lp.max_event_size, 100))
        } else if k < 95 {
            DOp::AssertCanAdd
        } else if k < 97 {
            DOp::AddUnchecked(around(rng, lp.max_event_size, 100))
        } else {
            DOp::PanicMsg(around(rng, lp.max_panic_message_size, 100))
        };
        ops.push(op);
    }

    // run the real objects
    let mut module = LimitsModule::from_params(lp);
    let mut mixer = make_mixer(lp, limits_on, runtime_on);
    let mut outs: Vec<Res> = Vec::new();
    let mut coq_ops: Vec<String> = Vec::new();
    // replay state for the oracle
    let mut ostores: [BTreeMap<usize, usize>; 2] = [BTreeMap::new(), BTreeMap::new()];
    let mut o_consistent = true;
    let (mut o_logs, mut o_events) = (0usize, 0usize);
    for (j, op) in ops.iter().enumerate() {
        let (res, coq_op): (Res, String) = match op {
            DOp::Key(k) => {
                let real = k.real();
                let r = of_result(catch(std::panic::AssertUnwindSafe(|| module.process_substate_key(&real))));
                // oracle
                let want_err = k.size() > lp.max_substate_key_size;
                match (&r, want_err) {
                    (Res::Ok, false) => {}
                    (Res::Err(TransactionLimitsError::MaxSubstateKeySizeExceeded(n)), true) if *n == k.size() => {}
                    _ => report.oracle_failure(idx, "", &format!("op {}: key of size {} under max_substate_key_size {} answered {:?}", j, k.size(), lp.max_substate_key_size, r), json!({"cfg": cfg_json(&lp), "op": format!("{:?}", op)})),
                }
                report.count(if want_err { "direct_key_over" } else { "direct_key_within" });
                (r, format!("OKey {}", k.coq()))
            }
            DOp::Value(raw) => {
                let v = IndexedScryptoValue::from_typed(&vec![0u8; *raw]);
                let len = v.len();
                let r = of_result(catch(std::panic::AssertUnwindSafe(|| module.process_substate_value(&v))));
                let want_err = len > lp.max_substate_value_size;
                match (&r, want_err) {
                    (Res::Ok, false) => {}
                    (Res::Err(TransactionLimitsError::MaxSubstateSizeExceeded(n)), true) if *n == len => {}
                    _ => report.oracle_failure(idx, "", &format!("op {}: value of size {} under max_substate_value_size {} answered {:?}", j, len, lp.max_substate_value_size, r), json!({"cfg": cfg_json(&lp), "op": format!("{:?}", op)})),
                }
                report.count(if want_err { "direct_value_over" } else { "direct_value_within" });
                (r, format!("OValue {}", len))
            }
            DOp::Io { heap, key, old, new } => {
                let ck = pool[*key].clone();
                let klen = ck.len();
                let io = if *heap {
                    IOAccess::HeapSubstateUpdated { canonical_substate_key: ck, old_size: *old, new_size: *new }
                } else {
                    IOAccess::TrackSubstateUpdated { canonical_substate_key: ck, old_size: *old, new_size: *new }
                };
                let r = of_result(catch(std::panic::AssertUnwindSafe(|| module.process_io_access(&io))));
                // oracle replay
                let st = &mut ostores[*heap as usize];
                if st.get(key).cloned() != *old {
                    o_consistent = false;
                }
                // the intermediate sum (counter + key + new size, before the old size is subtracted) must fit a usize
                let pre: u128 = st.iter().map(|(k, s)| pool[*k].len() as u128 + *s as u128).sum();
                if pre + klen as u128 + new.unwrap_or(0) as u128 > usize::MAX as u128 {
                    o_consistent = false;
                }
                match new {
                    Some(n) => {
                        st.insert(*key, *n);
                    }
                    None => {
                        st.remove(key);
                    }
                }
                if ostores.iter().any(|st| st.iter().map(|(k, s)| pool[*k].len() as u128 + *s as u128).sum::<u128>() > usize::MAX as u128) {
                    o_consistent = false; // not representable: the counters overflow (a panic in the model)
                }
                if o_consistent {
                    io_oracle(&lp, &pool, &ostores, &r, report, idx, j);
                }
                (r, format!("OIo ({} {} {} {})", if *heap { "IoHeap" } else { "IoTrack" }, klen, opt_coq(old), opt_coq(new)))
            }
            DOp::Read(found) => {
                let ck = pool[0].clone();
                let io = if *found { IOAccess::ReadFromDb(ck, 77) } else { IOAccess::ReadFromDbNotFound(ck) };
                let r = of_result(catch(std::panic::AssertUnwindSafe(|| module.process_io_access(&io))));
                if o_consistent {
                    io_oracle(&lp, &pool, &ostores, &r, report, idx, j);
                }
                (r, format!("OIo {}", if *found { "IoRead" } else { "IoReadNotFound" }))
            }
            DOp::Log(n) => {
                let r = of_result(catch(std::panic::AssertUnwindSafe(|| mixer.add_log(Level::Info, "a".repeat(*n)))));
                let want = if !limits_on {
                    Res::Ok
                } else if o_logs >= lp.max_number_of_logs {
                    Res::Err(TransactionLimitsError::TooManyLogs)
                } else if *n > lp.max_log_size {
                    Res::Err(TransactionLimitsError::LogSizeTooLarge { actual: *n, max: lp.max_log_size })
                } else {
                    Res::Ok
                };
                if want == Res::Ok && runtime_on {
                    o_logs += 1;
                }
                if r != want {
                    report.oracle_failure(idx, "", &format!("op {}: log of size {} with {} logs stored answered {:?}, expected {:?}", j, n, o_logs, r, want), json!({"cfg": cfg_json(&lp), "limits_on": limits_on}));
                }
                report.count(if want == Res::Ok { "direct_log_ok" } else { "direct_log_err" });
                (r, format!("OLog {}", n))
            }
            DOp::Event(n) => {
                let r = of_result(catch(std::panic::AssertUnwindSafe(|| mixer.checked_add_event(some_event(*n)))));
                let want = if !limits_on {
                    Res::Ok
                } else if o_events >= lp.max_number_of_events {
                    Res::Err(TransactionLimitsError::TooManyEvents)
                } else if *n > lp.max_event_size {
                    Res::Err(TransactionLimitsError::EventSizeTooLarge { actual: *n, max: lp.max_event_size })
                } else {
                    Res::Ok
                };
                if want == Res::Ok && runtime_on {
                    o_events += 1;
                }
                if r != want {
                    report.oracle_failure(idx, "", &format!("op {}: event of size {} with {} events stored answered {:?}, expected {:?}", j, n, o_events, r, want), json!({"cfg": cfg_json(&lp), "limits_on": limits_on}));
                }
                report.count(if want == Res::Ok { "direct_event_ok" } else { "direct_event_err" });
                (r, format!("OEvent {}", n))
            }
            DOp::AssertCanAdd => {
                let r = of_result(catch(std::panic::AssertUnwindSafe(|| mixer.assert_can_add_event())));
                let want = if limits_on && o_events >= lp.max_number_of_events { Res::Err(TransactionLimitsError::TooManyEvents) } else { Res::Ok };
                if r != want {
                    report.oracle_failure(idx, "", &format!("op {}: assert_can_add_event with {} events answered {:?}", j, o_events, r), json!({"cfg": cfg_json(&lp)}));
                }
                (r, "OAssertCanAddEvent".to_string())
            }
            DOp::AddUnchecked(n) => {
                let r = of_result(catch(std::panic::AssertUnwindSafe(|| mixer.add_event_unchecked(some_event(*n)))));
                let want = if limits_on && *n > lp.max_event_size {
                    Res::Err(TransactionLimitsError::EventSizeTooLarge { actual: *n, max: lp.max_event_size })
                } else {
                    Res::Ok
                };
                if want == Res::Ok && runtime_on {
                    o_events += 1;
                }
                if r != want {
                    report.oracle_failure(idx, "", &format!("op {}: add_event_unchecked of size {} answered {:?}", j, n, r), json!({"cfg": cfg_json(&lp)}));
                }
                (r, format!("OAddEventUnchecked {}", n))
            }
            DOp::PanicMsg(n) => {
                let r = of_result(catch(std::panic::AssertUnwindSafe(|| mixer.set_panic_message("p".repeat(*n)))));
                let want = if limits_on && *n > lp.max_panic_message_size {
                    Res::Err(TransactionLimitsError::PanicMessageSizeTooLarge { actual: *n, max: lp.max_panic_message_size })
                } else {
                    Res::Ok
                };
                if r != want {
                    report.oracle_failure(idx, "", &format!("op {}: panic message of size {} answered {:?}", j, n, r), json!({"cfg": cfg_json(&lp)}));
                }
                report.count(if want == Res::Ok { "direct_panicmsg_ok" } else { "direct_panicmsg_err" });
                (r, format!("OPanicMsg {}", n))
            }
        };
        if let Res::Other(s) = &res {
            report.oracle_failure(idx, "", &format!("op {}: unexpected error {}", j, s), json!({"cfg": cfg_json(&lp)}));
        }
        match &res {
            Res::Ok => report.count("direct_answers_ok"),
            Res::Err(TransactionLimitsError::HeapSubstateSizeExceeded { .. }) => report.count("direct_heap_exceeded"),
            Res::Err(TransactionLimitsError::TrackSubstateSizeExceeded { .. }) => report.count("direct_track_exceeded"),
            Res::Err(_) => report.count("direct_answers_err"),
            Res::Panic => report.count("direct_answers_panic"),
            Res::Other(_) => report.count("direct_answers_other"),
        }
        let is_panic = res == Res::Panic;
        outs.push(res);
        coq_ops.push(coq_op);
        if is_panic {
            break;
        }
    }
    let (_, runtime, _) = mixer.unpack();
    let canon = format!("{}|{}|{}|{}|{:?}", cfg_coq(&lp), limits_on, runtime_on, coq_ops.join(";"), outs);
    report.case(&canon, outs.iter().any(|r| matches!(r, Res::Err(_))) && outs.iter().any(|r| *r == Res::Ok));
    if runtime.logs.len() != o_logs || runtime.events.len() != o_events {
        report.oracle_failure(idx, "", &format!("stored logs/events {} / {} differ from the accepted ones {} / {}", runtime.logs.len(), runtime.events.len(), o_logs, o_events), json!({"cfg": cfg_json(&lp)}));
    }
    if limits_on && runtime_on && (runtime.logs.len() > lp.max_number_of_logs) {
        report.oracle_failure(idx, "", "more logs stored than max_number_of_logs", json!({"cfg": cfg_json(&lp)}));
    }
    if idx < 2 {
        report.sample(json!({"cfg": cfg_coq(&lp), "ops": coq_ops.iter().take(12).collect::<Vec<_>>(), "outs": outs.iter().take(12).map(res_coq).collect::<Vec<_>>()}));
    }
    format!(
        "CDirect {} (mkFlags {} {}) {} {} {} {}",
        cfg_coq(&lp),
        coq_bool(limits_on),
        coq_bool(runtime_on),
        coq_list(coq_ops),
        coq_list(outs.iter().map(res_coq)),
        runtime.logs.len(),
        runtime.events.len()
    )
}

fn io_oracle(lp: &LimitParameters, pool: &[CanonicalSubstateKey], stores: &[BTreeMap<usize, usize>; 2], r: &Res, report: &mut Report, idx: usize, j: usize) {
    let tot = |h: usize| -> u128 { stores[h].iter().map(|(k, s)| pool[*k].len() as u128 + *s as u128).sum() };
    let (track, heap) = (tot(0), tot(1));
    let ok = match r {
        Res::Ok => heap <= lp.max_heap_substate_total_bytes as u128 && track <= lp.max_track_substate_total_bytes as u128,
        Res::Err(TransactionLimitsError::HeapSubstateSizeExceeded { actual, max }) => {
            *actual as u128 == heap && *max == lp.max_heap_substate_total_bytes && heap > *max as u128
        }
        Res::Err(TransactionLimitsError::TrackSubstateSizeExceeded { actual, max }) => {
            *actual as u128 == track && *max == lp.max_track_substate_total_bytes && track > *max as u128 && heap <= lp.max_heap_substate_total_bytes as u128
        }
        _ => false,
    };
    report.count("direct_io_oracle_checked");
    if !ok {
        report.oracle_failure(
            idx,
            "",
            &format!("op {}: tracked heap total {} / track total {} (sum of key+value sizes) but the module answered {:?}", j, heap, track, r),
            json!({"cfg": cfg_json(lp)}),
        );
    }
}

// ------------------------------------------------------------------------------------------------
// whole transactions
// ------------------------------------------------------------------------------------------------

struct Env {
    ledger: Ledger,
    tl: PackageAddress,
    rec: PackageAddress,
    comp: ComponentAddress,
    lock_fee_event_len: usize,
    event_overhead: usize,     // payload length of TestEvent{message of n bytes} = n + overhead (n < 128: ; measured per size class)
    value_overhead: usize,     // stored KV entry length = raw + overhead (for raw in 2^7..2^14: measured at 10_000)
    runs: u64,
}

fn load(code: &[u8], rpd: &[u8]) -> (Vec<u8>, PackageDefinition) {
    let def: PackageDefinition = manifest_decode::<ManifestPackageDefinition>(rpd).expect("rpd").try_into_typed().expect("typed rpd");
    (code.to_vec(), def)
}

#[derive(Clone, Debug)]
enum Item {
    Log(usize),
    Event(usize),
    Panic(usize),
    Recurse(u32),
    Invoke(usize),
    Value(usize),
}

fn varint_len(n: usize) -> usize {
    let mut n = n;
    let mut l = 1;
    while n >= 128 {
        n >>= 7;
        l += 1;
    }
    l
}

impl Env {
    fn new() -> Env {
        let mut ledger: Ledger = LedgerSimulatorBuilder::new().without_kernel_trace().build();
        let tl = ledger.publish_package(load(TL_WASM, TL_RPD), BTreeMap::new(), OwnerRole::None);
        let rec = ledger.publish_package(load(REC_WASM, REC_RPD), BTreeMap::new(), OwnerRole::None);
        let comp = ledger
            .execute_manifest(ManifestBuilder::new().lock_fee_from_faucet().call_function(tl, "TransactionLimitTest", "new", manifest_args!()).build(), vec![])
            .expect_commit_success()
            .new_component_addresses()[0];
        let mut env = Env { ledger, tl, rec, comp, lock_fee_event_len: 0, event_overhead: 0, value_overhead: 0, runs: 0 };
        // measurements under the default limits (from the outputs of the engine, not from the limit code)
        let r = env.exec(&[Item::Event(10), Item::Value(10_000)], None);
        let c = r.expect_commit_success();
        for (id, data) in &c.application_events {
            if id.1 == "LockFeeEvent" && env.lock_fee_event_len == 0 {
                env.lock_fee_event_len = data.len();
            }
            if id.1 == "TestEvent" {
                env.event_overhead = data.len() - 10;
            }
        }
        let mut best = None;
        for (_, node) in &c.state_updates.by_node {
            let NodeStateUpdates::Delta { by_partition } = node;
            for (_, part) in by_partition {
                if let PartitionStateUpdates::Delta { by_substate } = part {
                    for (_, upd) in by_substate {
                        if let DatabaseUpdate::Set(v) = upd {
                            if v.len() >= 10_000 && v.len() < 10_100 {
                                best = Some(v.len() - 10_000);
                            }
                        }
                    }
                }
            }
        }
        env.value_overhead = best.expect("stored KV entry of the calibration run");
        assert!(env.lock_fee_event_len > 0 && env.event_overhead > 0);
        env
    }

    fn manifest(&self, items: &[Item]) -> TransactionManifestV1 {
        let mut b = ManifestBuilder::new().lock_fee_from_faucet();
        for it in items {
            b = match it {
                Item::Log(n) => b.call_function(self.tl, "TransactionLimitTest", "emit_log_of_size", manifest_args!(*n)),
                Item::Event(n) => b.call_function(self.tl, "TransactionLimitTest", "emit_event_of_size", manifest_args!(*n)),
                Item::Panic(n) => b.call_function(self.tl, "TransactionLimitTest", "panic_of_size", manifest_args!(*n)),
                Item::Recurse(n) => b.call_function(self.rec, "Caller", "recursive", manifest_args!(*n)),
                Item::Invoke(n) => b.call_function(self.tl, "InvokeLimitsTest", "call", manifest_args!(*n)),
                Item::Value(n) => b.call_function(self.tl, "TransactionLimitSubstateTest", "write_large_values", manifest_args!(vec![*n])),
            };
        }
        b.build()
    }

    fn config(lp: Option<LimitParameters>) -> ExecutionConfig {
        let mut c = ExecutionConfig::for_test_transaction();
        let mut o = c.system_overrides.clone().unwrap_or_default();
        o.limit_parameters = lp;
        o.costing_parameters = Some(CostingParameters::babylon_genesis().with_execution_cost_unit_limit(1_000_000_000));
        c.system_overrides = Some(o);
        c
    }

    fn exec_manifest(&mut self, manifest: TransactionManifestV1, lp: Option<LimitParameters>) -> Result<TransactionReceipt, String> {
        self.runs += 1;
        let nonce = self.ledger.next_transaction_nonce();
        let tx = TestTransaction::new_v1_from_nonce(manifest, nonce, btreeset!());
        let ledger = &mut self.ledger;
        catch(std::panic::AssertUnwindSafe(|| ledger.execute_transaction_no_commit(tx, Self::config(lp))))
    }

    fn exec(&mut self, items: &[Item], lp: Option<LimitParameters>) -> TransactionReceipt {
        let m = self.manifest(items);
        self.exec_manifest(m, lp).expect("calibration run")
    }

    fn event_len(&self, n: usize) -> usize {
        // overhead measured at n = 10 (one length byte); longer strings have a longer length prefix
        n + self.event_overhead - 1 + varint_len(n)
    }
    fn value_len(&self, raw: usize) -> usize {
        // overhead measured at raw = 10_000 (two length bytes)
        raw + self.value_overhead - 2 + varint_len(raw)
    }
    fn invoke_len(&self, raw: usize) -> usize {
        // invocation.len() = actor (package address + blueprint name + function name) + args
        // args = SBOR tuple(1) of a byte array: prefix, tuple kind, field count, array kind, element kind, length, bytes
        NodeId::LENGTH + "InvokeLimitsTest".len() + "callee".len() + 5 + varint_len(raw) + raw
    }
}

fn parse_masked(msg: &str) -> Option<TransactionLimitsError> {
    let num = |tag: &str| -> Option<usize> {
        let i = msg.find(tag)? + tag.len();
        let d: String = msg[i..].chars().take_while(|c| c.is_ascii_digit()).collect();
        d.parse().ok()
    };
    let (actual, max) = (num("actual: ")?, num("max: ")?);
    if msg.contains("TrackSubstateSizeExceeded") {
        Some(TransactionLimitsError::TrackSubstateSizeExceeded { actual, max })
    } else if msg.contains("HeapSubstateSizeExceeded") {
        Some(TransactionLimitsError::HeapSubstateSizeExceeded { actual, max })
    } else {
        None
    }
}

/// the receipt's limit error (commit failure or rejection before the loan is repaid), if any
fn receipt_outcome(r: &Result<TransactionReceipt, String>) -> (String, Option<TransactionLimitsError>) {
    match r {
        Err(m) => (format!("panic: {}", m.chars().take(120).collect::<String>()), None),
        Ok(r) => {
            let err: Option<&RuntimeError> = match &r.result {
                TransactionResult::Commit(c) => match &c.outcome {
                    TransactionOutcome::Success(_) => return ("success".into(), None),
                    TransactionOutcome::Failure(e) => Some(e),
                },
                TransactionResult::Reject(rj) => match &rj.reason {
                    RejectionReason::ErrorBeforeLoanAndDeferredCostsRepaid(e) => Some(e),
                    other => return (format!("reject: {:?}", other).chars().take(120).collect(), None),
                },
                TransactionResult::Abort(a) => return (format!("abort: {:?}", a.reason).chars().take(120).collect(), None),
            };
            match err {
                Some(RuntimeError::SystemModuleError(SystemModuleError::TransactionLimitsError(e))) => ("limit".into(), Some(e.clone())),
                Some(RuntimeError::VmError(VmError::Native(NativeRuntimeError::Trap { .. }))) => ("trap".into(), None),
                // a limit error raised while a payload is validated against its schema is reported as
                // TypeCheckError with the limit error as text (the transaction fails all the same)
                Some(RuntimeError::SystemError(SystemError::TypeCheckError(TypeCheckError::BlueprintPayloadValidationError(_, _, msg)))) if msg.contains("TransactionLimitsError(") => {
                    ("masked".into(), parse_masked(msg))
                }
                Some(e) => (format!("other: {:?}", e).chars().take(700).collect(), None),
                None => ("?".into(), None),
            }
        }
    }
}

fn tx_case(env: &mut Env, rng: &mut Rng, report: &mut Report, idx: usize) -> String {
    let mut lp = LimitParameters::babylon_genesis();
    lp.max_call_depth = match rng.below(20) {
        0 => 0,
        1 => 1,
        2..=4 => 2,
        5..=7 => 3,
        8..=10 => 4,
        11..=13 => 5,
        14..=15 => 6,
        16..=17 => 8,
        _ => 10,
    };
    lp.max_number_of_logs = rng.usize_below(6);
    lp.max_log_size = rng.usize_below(400);
    lp.max_number_of_events = rng.usize_below(7);
    lp.max_event_size = if rng.chance(1, 12) { rng.usize_below(env.lock_fee_event_len + 2) } else { 40 + rng.usize_below(400) };
    lp.max_panic_message_size = rng.usize_below(300);
    lp.max_invoke_input_size = 20_000 + rng.usize_below(20_000);
    lp.max_substate_value_size = 10_000 + rng.usize_below(20_000);
    let limits_on = !rng.chance(1, 15);

    let n_items = 1 + rng.usize_below(5);
    let mut items = Vec::new();
    for _ in 0..n_items {
        let it = match rng.below(12) {
            0 | 1 | 2 => Item::Log(around(rng, lp.max_log_size, 200)),
            3 | 4 | 5 => {
                // land the payload length on the limit
                let want = around(rng, lp.max_event_size, 200);
                let n = want.saturating_sub(env.event_overhead - 1 + varint_len(want));
                Item::Event(n)
            }
            6 => Item::Panic(around(rng, lp.max_panic_message_size, 150)),
            7 | 8 => Item::Recurse(around(rng, lp.max_call_depth, 6).min(14) as u32),
            9 | 10 => {
                let want = around(rng, lp.max_invoke_input_size, 1).max(1000);
                let over = env.invoke_len(want) - want;
                Item::Invoke(want - over)
            }
            _ => {
                let want = around(rng, lp.max_substate_value_size, 1).max(1000);
                let over = env.value_len(want) - want;
                Item::Value(want - over)
            }
        };
        let stop = matches!(it, Item::Panic(_));
        items.push(it);
        if stop {
            break;
        }
    }
    // one third of the cases: every limit is set exactly to what the program needs (all at the boundary)
    if rng.chance(1, 3) {
        report.count("tx_all_at_limit");
        lp.max_number_of_logs = items.iter().filter(|i| matches!(i, Item::Log(_))).count();
        lp.max_number_of_events = 1 + items.iter().filter(|i| matches!(i, Item::Event(_))).count();
        lp.max_event_size = env.lock_fee_event_len;
        lp.max_call_depth = 2;
        for it in &items {
            match it {
                Item::Log(n) => lp.max_log_size = lp.max_log_size.max(*n),
                Item::Event(n) => lp.max_event_size = lp.max_event_size.max(env.event_len(*n)),
                Item::Panic(n) => lp.max_panic_message_size = *n,
                Item::Recurse(n) => lp.max_call_depth = lp.max_call_depth.max(*n as usize),
                Item::Invoke(n) => lp.max_invoke_input_size = lp.max_invoke_input_size.max(env.invoke_len(*n)),
                Item::Value(n) => lp.max_substate_value_size = lp.max_substate_value_size.max(env.value_len(*n)),
            }
        }
    }
    for it in &items {
        report.count(match it {
            Item::Log(_) => "tx_item_log",
            Item::Event(_) => "tx_item_event",
            Item::Panic(_) => "tx_item_panic",
            Item::Recurse(_) => "tx_item_recurse",
            Item::Invoke(_) => "tx_item_invoke",
            Item::Value(_) => "tx_item_value",
        });
    }

    // abstract event list of the program
    // the transaction processor runs in the root frame (depth 0)
    let mut ops: Vec<String> = Vec::new();
    ops.extend(["OInvoke 0", "OInvoke 0", "OAssertCanAddEvent"].map(String::from)); // faucet.lock_fee -> vault.lock_fee
    ops.push(format!("OLockFeeEmit {}", env.lock_fee_event_len));
    ops.extend(["OReturn", "OReturn"].map(String::from));
    for it in &items {
        ops.push("OInvoke 0".into());
        match it {
            Item::Log(n) => ops.push(format!("OLog {}", n)),
            Item::Event(n) => ops.push(format!("OEvent {}", env.event_len(*n))),
            Item::Panic(n) => ops.push(format!("OPanicMsg {}", n)),
            Item::Recurse(n) => {
                // recursive(n) calls recursive(n-1) while n > 1
                let nested = (*n).max(1) - 1;
                for _ in 0..nested {
                    ops.push("OInvoke 0".into());
                }
                for _ in 0..nested {
                    ops.push("OReturn".into());
                }
            }
            Item::Invoke(n) => {
                ops.push(format!("OInvoke {}", env.invoke_len(*n)));
                ops.push("OReturn".into());
            }
            Item::Value(n) => {
                ops.push(format!("OValue {}", env.value_len(*n)));
                // globalize: the module objects are created by blueprint calls (one level deeper)
                ops.push("OInvoke 0".into());
                ops.push("OReturn".into());
            }
        }
        ops.push("OReturn".into());
    }

    let m = env.manifest(&items);
    let r = {
        env.runs += 1;
        let nonce = env.ledger.next_transaction_nonce();
        let tx = TestTransaction::new_v1_from_nonce(m, nonce, btreeset!());
        let mut c = Env::config(Some(lp));
        if !limits_on {
            let mut o = c.system_overrides.clone().unwrap();
            o.disable_limits = true;
            c.system_overrides = Some(o);
        }
        let ledger = &mut env.ledger;
        catch(std::panic::AssertUnwindSafe(|| ledger.execute_transaction_no_commit(tx, c)))
    };
    let (class, lim) = receipt_outcome(&r);
    let input = json!({"cfg": cfg_coq(&lp), "limits_on": limits_on, "items": format!("{:?}", items), "engine": format!("{} {:?}", class, lim)});
    report.count(&format!("tx_{}", class.split(':').next().unwrap()));
    if let Some(e) = &lim {
        report.count(&format!("tx_err_{}", lerr_coq(e).split(' ').next().unwrap()));
    }
    let canon = format!("{}|{}|{:?}", cfg_coq(&lp), limits_on, items);
    report.case(&canon, true);

    // ---- oracle: the property statement on the parameters of the program ----
    let n_logs = items.iter().filter(|i| matches!(i, Item::Log(_))).count();
    let n_events = 1 + items.iter().filter(|i| matches!(i, Item::Event(_))).count();
    let mut exceed: Vec<String> = Vec::new(); // what the program exceeds (any of them may be reported)
    if limits_on {
        if lp.max_call_depth < 2 {
            exceed.push("CallDepthReached".into()); // faucet.lock_fee -> vault.lock_fee
        }
        if n_logs > lp.max_number_of_logs {
            exceed.push("TooManyLogs".into());
        }
        if n_events > lp.max_number_of_events {
            exceed.push("TooManyEvents".into());
        }
        if env.lock_fee_event_len > lp.max_event_size {
            exceed.push("LockFeeEventTooLarge".into());
        }
        for it in &items {
            match it {
                Item::Log(n) if *n > lp.max_log_size => exceed.push(format!("LogTooLarge {} {}", n, lp.max_log_size)),
                Item::Event(n) if env.event_len(*n) > lp.max_event_size => exceed.push(format!("EventTooLarge {} {}", env.event_len(*n), lp.max_event_size)),
                Item::Panic(n) if *n > lp.max_panic_message_size => exceed.push(format!("PanicTooLarge {} {}", n, lp.max_panic_message_size)),
                Item::Recurse(n) if (*n).max(1) as usize > lp.max_call_depth => exceed.push("CallDepthReached".into()),
                Item::Invoke(n) if env.invoke_len(*n) > lp.max_invoke_input_size => exceed.push(format!("InvokeExceeded {}", env.invoke_len(*n))),
                Item::Value(n) if env.value_len(*n) > lp.max_substate_value_size => exceed.push(format!("ValueExceeded {}", env.value_len(*n))),
                _ => {}
            }
        }
    }
    let lock_fee_probe = limits_on && env.lock_fee_event_len > lp.max_event_size;
    match (&lim, class.as_str()) {
        (Some(e), _) => {
            let s = lerr_coq(e);
            if !exceed.contains(&s) && !(lock_fee_probe && s.starts_with("EventTooLarge")) {
                report.oracle_failure(idx, "", &format!("failed by {} but the program exceeds only {:?}", s, exceed), input.clone());
            }
        }
        (None, "success") => {
            if !exceed.is_empty() {
                report.oracle_failure(idx, "", &format!("committed successfully although the program exceeds {:?}", exceed), input.clone());
            }
            if let Ok(rc) = &r {
                let c = rc.expect_commit_success();
                if c.application_logs.len() != n_logs || (limits_on && c.application_logs.len() > lp.max_number_of_logs) {
                    report.oracle_failure(idx, "", &format!("{} logs in the receipt, program emits {}", c.application_logs.len(), n_logs), input.clone());
                }
                let user_events = c.application_events.iter().filter(|(id, _)| id.1 == "TestEvent" || id.1 == "LockFeeEvent").count();
                if user_events != n_events {
                    report.oracle_failure(idx, "", &format!("{} execution events in the receipt, program emits {}", user_events, n_events), input.clone());
                }
                for (id, data) in &c.application_events {
                    if limits_on && id.1 == "TestEvent" && data.len() > lp.max_event_size {
                        report.oracle_failure(idx, "", "event larger than max_event_size committed", input.clone());
                    }
                }
                for (_, msg) in &c.application_logs {
                    if limits_on && msg.len() > lp.max_log_size {
                        report.oracle_failure(idx, "", "log larger than max_log_size committed", input.clone());
                    }
                }
            }
        }
        (None, _) => {
            // failed for another reason: only a panic item (the panic itself) may do that
            let has_panic = items.iter().any(|i| matches!(i, Item::Panic(_)));
            let only_panic_left = exceed.is_empty();
            if class.starts_with("panic") || class == "trap" {
                report.oracle_failure(
                    idx,
                    if lock_fee_probe && class == "trap" { "lock_fee_event_expect" } else { "" },
                    &format!("a panic inside the engine ({}): max_event_size {} is below the LockFeeEvent payload {}", class, lp.max_event_size, env.lock_fee_event_len),
                    input.clone(),
                );
            } else if !(has_panic && only_panic_left) && !lock_fee_probe {
                // the statement only asks that an over-limit program FAILS and that a within-limit program is
                // not failed by a limit: a failure of another kind is no property failure (the error kind
                // is compared with the model by the correspondence)
                report.count(if exceed.is_empty() { "tx_within_limits_failed_for_another_reason" } else { "tx_over_limit_failed_with_another_error_kind" });
                if report.notes.len() < 5 {
                    report.notes.push(format!("case {}: failed by {} ; the program exceeds {:?}", idx, class, exceed));
                }
            }
        }
    }
    if idx < 12 {
        report.sample(json!({"tx": input}));
    }
    format!(
        "CTx {} (mkFlags {} true) {} {}",
        cfg_coq(&lp),
        coq_bool(limits_on),
        coq_list(ops),
        match &lim {
            Some(e) => format!("(RErr ({}))", lerr_coq(e)),
            None if class == "trap" => "RPanic".into(),
            None => "ROk".into(),
        }
    )
}

// ------------------------------------------------------------------------------------------------
// heap / track totals on real transactions: boundary exactness
// ------------------------------------------------------------------------------------------------

fn boundary_case(env: &mut Env, rng: &mut Rng, report: &mut Report, idx: usize, fixed: Option<(bool, u32, usize)>) -> String {
    let heap = fixed.map(|f| f.0).unwrap_or_else(|| rng.bool());
    let n = fixed.map(|f| f.1).unwrap_or_else(|| 1 + rng.below(40) as u32);
    let manifest = |env: &Env| {
        let b = ManifestBuilder::new().lock_fee_from_faucet();
        if heap {
            b.call_function(env.tl, "TransactionLimitTest", "write_entries_to_heap_kv_store", manifest_args!(n)).build()
        } else if n % 2 == 0 {
            b.call_method(env.comp, "write_entries_to_kv_store", manifest_args!(n)).build()
        } else {
            b.call_method(env.comp, "read_non_existent_entries_from_kv_store", manifest_args!(n)).build()
        }
    };
    let with_limit = |l: usize| {
        let mut lp = LimitParameters::babylon_genesis();
        if heap {
            lp.max_heap_substate_total_bytes = l;
        } else {
            lp.max_track_substate_total_bytes = l;
        }
        lp
    };
    // every engine execution of this case: (limit, outcome) for the Coq evaluator.  A limit error raised
    // by an IO access made while a blueprint payload is validated against its schema reaches the
    // receipt as SystemError(TypeCheckError(BlueprintPayloadValidationError(.., "..TransactionLimitsError(..)..")))
    // ("masked"): the transaction is failed either way, which is all the property asks; the kind is
    // recorded for the model (`surface` in Model/C49_Limits.v) and counted.
    let masked = |class: &str, e: &Option<TransactionLimitsError>, limit: usize, report: &mut Report, obs: &mut Vec<String>| {
        if class == "masked" {
            report.count("boundary_masked");
        }
        let o = match (class, e) {
            ("success", _) => Some("None".to_string()),
            ("limit", Some(e)) => Some(format!("(Some (SLimit ({})))", lerr_coq(e))),
            ("masked", Some(e)) => Some(format!("(Some (SMaskedTypeCheck ({})))", lerr_coq(e))),
            _ => None, // anything else is reported by the oracle below
        };
        if let Some(o) = o {
            obs.push(format!("({}, {})", limit, o));
        }
    };
    let mut obs: Vec<String> = Vec::new();
    let actual_of = |e: &Option<TransactionLimitsError>| -> Option<(usize, usize)> {
        match e {
            Some(TransactionLimitsError::HeapSubstateSizeExceeded { actual, max }) if heap => Some((*actual, *max)),
            Some(TransactionLimitsError::TrackSubstateSizeExceeded { actual, max }) if !heap => Some((*actual, *max)),
            _ => None,
        }
    };
    // the first limit: somewhere below what the program needs (heap: a few hundred bytes per
    // entry; track: the package code is read, so hundreds of kilobytes)
    let l0 = if let Some(f) = fixed {
        f.2
    } else if heap {
        rng.usize_below(200 + 120 * n as usize)
    } else {
        150_000 + rng.usize_below(400_000)
    };
    let m = manifest(env);
    let r0 = env.exec_manifest(m, Some(with_limit(l0)));
    let (c0, e0) = receipt_outcome(&r0);
    masked(&c0, &e0, l0, report, &mut obs);
    let input = json!({"heap": heap, "n": n, "limit": l0, "engine": format!("{} {:?}", c0, e0)});
    report.count(if heap { "boundary_heap" } else { "boundary_track" });
    match actual_of(&e0) {
        None => {
            if c0 != "success" {
                report.oracle_failure(idx, "", &format!("unexpected outcome {} {:?}", c0, e0), input);
            } else {
                report.count("boundary_passed_first");
            }
        }
        Some((a, mx)) => {
            report.count("boundary_exceeded");
            if !(a > l0 && mx == l0) {
                report.oracle_failure(idx, "", &format!("reported actual {} max {} under limit {}", a, mx, l0), input.clone());
            }
            // limit = actual - 1: fails with the same actual
            let m = manifest(env);
            let r1 = env.exec_manifest(m, Some(with_limit(a - 1)));
            let (c1, e1) = receipt_outcome(&r1);
            masked(&c1, &e1, a - 1, report, &mut obs);
            if actual_of(&e1) != Some((a, a - 1)) {
                report.oracle_failure(idx, "", &format!("under limit actual-1 = {} expected the same actual {}, got {:?}", a - 1, a, e1), input.clone());
            }
            // limit = actual: does not fail there (passes, or fails later with a larger actual);
            // climb: the reported actual becomes the next limit, until the program passes: that
            // limit is the peak total, and peak - 1 must fail reporting exactly the peak
            let mut cur = a;
            for step in 0..40 {
                let m = manifest(env);
                let r2 = env.exec_manifest(m, Some(with_limit(cur)));
                let (c2, e2) = receipt_outcome(&r2);
                masked(&c2, &e2, cur, report, &mut obs);
                match actual_of(&e2) {
                    Some((a2, mx2)) if a2 > cur && mx2 == cur => {
                        if step == 0 {
                            report.count("boundary_fails_later");
                        }
                        cur = a2;
                    }
                    None if c2 == "success" => {
                        report.count("boundary_passes_at_limit");
                        if cur > a {
                            let m = manifest(env);
                            let r3 = env.exec_manifest(m, Some(with_limit(cur - 1)));
                            let (c3, e3) = receipt_outcome(&r3);
                            masked(&c3, &e3, cur - 1, report, &mut obs);
                            match actual_of(&e3) {
                                Some((a3, _)) if a3 <= cur && a3 > cur - 1 => report.count("boundary_peak_exact"),
                                other => report.oracle_failure(idx, "", &format!("passes under limit {} but under {} got {:?}", cur, cur - 1, other), input.clone()),
                            }
                        }
                        break;
                    }
                    other => {
                        report.oracle_failure(idx, "", &format!("under limit = actual = {} got {} {:?}", cur, c2, other), input.clone());
                        break;
                    }
                }
            }
        }
    }
    report.case(&format!("boundary|{}|{}|{}", heap, n, l0), true);
    format!("CBoundary {} {}", coq_bool(heap), coq_list(obs))
}

fn main() {
    let args = Args::parse();
    let mut report = Report::new(
        "C49",
        args.seed,
        "direct: 10..60 calls on LimitsModule/SystemModuleMixer built from random LimitParameters, sizes at limit-1/limit/limit+1, IO events consistent with a replayed store \
         (plus inconsistent/overflowing ones), non-trivial = at least one call answered Ok and one answered with a limit error; tx: manifests of 1..5 calls into the test blueprints \
         under overridden limits; boundary: heap/track totals at actual-1/actual; distinct by canonical text",
    );
    let mut cw = CaseWriter::new("RV.Corr.C49_run RV.Model.C49_Limits", "check");
    let root = Rng::new(args.seed);
    let mut env = Env::new();
    report.extra.insert("lock_fee_event_len".into(), json!(env.lock_fee_event_len));
    report.extra.insert("event_overhead".into(), json!(env.event_overhead));
    report.extra.insert("value_overhead".into(), json!(env.value_overhead));
    for i in 0..args.cases {
        let mut rng = root.fork(i as u64);
        match i % 8 {
            0 | 3 => {
                let t = tx_case(&mut env, &mut rng, &mut report, i);
                cw.push(t);
                report.count("cases_tx");
            }
            6 if i % 16 == 6 => {
                let t = boundary_case(&mut env, &mut rng, &mut report, i, None);
                cw.push(t);
                report.count("cases_boundary");
            }
            _ => {
                let t = direct_case(&mut rng, &mut report, i);
                cw.push(t);
                report.count("cases_direct");
            }
        }
    }
    // a fixed boundary case in which the track limit error is raised during payload validation and
    // reaches the receipt wrapped in a TypeCheckError (still a failed transaction): climb from 150000
    {
        let mut rng = root.fork(u64::MAX);
        let t = boundary_case(&mut env, &mut rng, &mut report, args.cases, Some((false, 5, 150_000)));
        cw.push(t);
    }
    // replay of the known finding lock_fee_event_expect: max_event_size one below the LockFeeEvent payload
    {
        let mut lp = LimitParameters::babylon_genesis();
        lp.max_event_size = env.lock_fee_event_len - 1;
        let m = env.manifest(&[Item::Log(1)]);
        let r = env.exec_manifest(m, Some(lp));
        let (class, lim) = receipt_outcome(&r);
        let input = json!({"cfg": cfg_coq(&lp), "items": "[Log(1)]", "engine": format!("{} {:?}", class, lim)});
        if class == "trap" {
            report.count("known_lock_fee_trap_replayed");
            report.oracle_failure(
                args.cases,
                "lock_fee_event_expect",
                &format!("max_event_size {} < LockFeeEvent payload {}: FungibleVault::lock_fee panics in expect(\"Event should never exceed size.\") (VmError::Native(Trap)) instead of a TransactionLimitsError", lp.max_event_size, env.lock_fee_event_len),
                input,
            );
        } else {
            report.notes.push(format!("known finding lock_fee_event_expect did not reproduce: {} {:?}", class, lim));
        }
        cw.push(format!(
            "CTx {} (mkFlags true true) [OInvoke 0; OInvoke 0; OAssertCanAddEvent; OLockFeeEmit {}] {}",
            cfg_coq(&lp),
            env.lock_fee_event_len,
            match &lim {
                Some(e) => format!("(RErr ({}))", lerr_coq(e)),
                None if class == "trap" => "RPanic".into(),
                None => "ROk".into(),
            }
        ));
    }
    report.extra.insert("engine_executions".into(), json!(env.runs));
    let n = args.cases as u64;
    report.floor("cases_direct", n / 2);
    report.floor("cases_tx", n / 5);
    report.floor("direct_io_oracle_checked", n);
    report.floor("direct_heap_exceeded", n / 4);
    report.floor("direct_track_exceeded", n / 4);
    report.floor("direct_answers_ok", n);
    report.floor("direct_key_over", n / 20);
    report.floor("direct_key_within", n / 20);
    report.floor("direct_value_over", n / 40);
    report.floor("direct_value_within", n / 40);
    report.floor("direct_log_err", n / 20);
    report.floor("direct_log_ok", n / 20);
    report.floor("direct_event_err", n / 20);
    report.floor("direct_event_ok", n / 20);
    report.floor("tx_success", n / 40);
    report.floor("known_lock_fee_trap_replayed", 1);
    report.floor("boundary_exceeded", n / 80);
    report.floor("tx_limit", n / 20);
    cw.write(&args.out, args.shards).unwrap();
    report.write(&args.out).unwrap();
}
