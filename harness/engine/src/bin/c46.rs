//! C46 correspondence harness: WASM instrumentation preserves program meaning.
//!
//! Random *terminating* MiniWasm programs (i64 arithmetic / comparisons, locals, globals, memory,
//! block / loop / if / br / br_if / return / call, division traps, unreachable, out-of-bounds
//! accesses) are emitted with wasm-encoder and pushed through the code under test:
//!   gas-only : WasmModule::init(..).inject_instruction_metering(&WasmValidatorConfigV1::new())
//!   full     : .. .inject_stack_metering(max_stack_size)
//! and executed under wasmi (the engine's interpreter) with an `env.gas` host function that adds up
//! what is charged:
//!   * original vs gas-only vs full: same result or trap, same globals, same memory; gas-only and
//!     full charge the same amount;
//!   * naive metering oracle: the same program with `i64.const cost(op); call gas` in front of EVERY
//!     instruction (costs from Rules::instruction_cost of the code, + call_per_local at function
//!     entry) never charges more than the block metering, and charges exactly the same on every
//!     non-trapping run of a program without a `continue` out of a nested block (for those the
//!     instrumenter prepays the instructions after the nested construct: counted, not a failure);
//!   * the gas-only output is parsed back into MiniWasm with `Charge c` for each
//!     `i64.const c; call $gas`; Coq checks that erasing the charges gives back the original
//!     program, that the model interpreter agrees with wasmi on the original (result / trap /
//!     globals), and that on the instrumented program it charges exactly the gas wasmi observed
//!     (and runs out of gas with one unit less).
use radix_engine::vm::wasm::*;
use radix_wasm_instrument::gas_metering::Rules;
use serde_json::json;
use vh_common::*;
use wasm_encoder as we;
use wasmparser as wp;

#[derive(Clone, Debug, PartialEq)]
enum I {
    Const(u64),
    Bin(u8),
    Eqz,
    Drop,
    Nop,
    Unreachable,
    LocalGet(u32),
    LocalSet(u32),
    LocalTee(u32),
    GlobalGet(u32),
    GlobalSet(u32),
    Load(u32),
    Store(u32),
    Block(Vec<I>),
    Loop(Vec<I>),
    If(Vec<I>, Vec<I>),
    Br(u32),
    BrIf(u32),
    Return,
    Call(u32),
    Charge(i64),
}
#[derive(Clone, Debug, PartialEq)]
struct F {
    params: u32,
    locals: u32,
    result: bool,
    body: Vec<I>,
}
const BIN_NAMES: [&str; 14] = ["Add", "Sub", "Mul", "DivU", "RemU", "And", "Or", "Xor", "Eq", "Ne", "LtU", "GtU", "LeU", "GeU"];
const MEM_CELLS: u64 = 8192;
const N_GLOBALS: u32 = 3;

// ------------------------------------------------------------------------------------------------
// generator (type-correct by construction, terminating by construction)
// ------------------------------------------------------------------------------------------------
struct Gen<'a> {
    rng: &'a mut Rng,
    sigs: Vec<(u32, bool)>, // params, result of every function
    me: usize,
    params: u32,
    free_locals: Vec<u32>, // locals usable by statements
    next_counter: u32,     // loop counters are allocated after the free locals
    labels: Vec<Option<u32>>, // innermost last; Some(counter local) = loop
    budget: i32,
}
impl<'a> Gen<'a> {
    fn konst(&mut self) -> u64 {
        match self.rng.below(8) {
            0 => 0,
            1 => 1,
            2 => u64::MAX,
            3 => 1u64 << 63,
            4 => self.rng.next_u64(),
            _ => self.rng.below(20),
        }
    }
    fn expr(&mut self, d: u32, out: &mut Vec<I>) {
        self.budget -= 1;
        let r = if d >= 3 || self.budget <= 0 { self.rng.below(3) } else { self.rng.below(12) };
        match r {
            0 => out.push(I::Const(self.konst())),
            1 => {
                let n = self.params as usize + self.free_locals.len();
                if n == 0 {
                    out.push(I::Const(3));
                } else {
                    let k = self.rng.usize_below(n);
                    let idx = if k < self.params as usize { k as u32 } else { self.free_locals[k - self.params as usize] };
                    out.push(I::LocalGet(idx));
                }
            }
            2 => out.push(I::GlobalGet(self.rng.below(N_GLOBALS as u64) as u32)),
            3..=6 => {
                self.expr(d + 1, out);
                self.expr(d + 1, out);
                out.push(I::Bin(self.rng.below(14) as u8));
            }
            7 => {
                self.expr(d + 1, out);
                out.push(I::Eqz);
            }
            8 => {
                self.addr(d + 1, out);
                out.push(I::Load(self.offset()));
            }
            9 => {
                // call of a later function that returns a value
                let cands: Vec<usize> = (self.me + 1..self.sigs.len()).filter(|j| self.sigs[*j].1).collect();
                if cands.is_empty() {
                    out.push(I::Const(self.konst()));
                } else {
                    let j = *self.rng.pick(&cands);
                    for _ in 0..self.sigs[j].0 {
                        self.expr(d + 1, out);
                    }
                    out.push(I::Call(j as u32));
                }
            }
            10 => {
                if self.free_locals.is_empty() {
                    out.push(I::Const(5));
                } else {
                    self.expr(d + 1, out);
                    let l = *self.rng.pick(&self.free_locals.clone());
                    out.push(I::LocalTee(l));
                }
            }
            _ => {
                self.expr(d + 1, out);
                self.expr(d + 1, out);
                out.push(I::Bin(self.rng.below(3) as u8));
            }
        }
    }
    fn addr(&mut self, d: u32, out: &mut Vec<I>) {
        self.expr(d, out);
        out.push(I::Const(255));
        out.push(I::Bin(5)); // And
    }
    fn offset(&mut self) -> u32 {
        match self.rng.below(10) {
            0 => (MEM_CELLS - 1) as u32,   // in bounds only for address 0
            1 => MEM_CELLS as u32,         // always out of bounds
            2 => (MEM_CELLS - 100) as u32, // depends on the address
            _ => self.rng.below(16) as u32,
        }
    }
    fn stmts(&mut self, d: u32, out: &mut Vec<I>) {
        let n = self.rng.range(1, 4);
        for k in 0..n {
            if self.budget <= 0 {
                break;
            }
            let last = k + 1 == n;
            self.stmt(d, last, out);
        }
    }
    fn stmt(&mut self, d: u32, last: bool, out: &mut Vec<I>) {
        self.budget -= 1;
        let r = if d >= 3 { self.rng.below(6) } else { self.rng.below(16) };
        match r {
            0 | 1 => {
                if self.free_locals.is_empty() {
                    out.push(I::Nop);
                } else {
                    self.expr(1, out);
                    let l = *self.rng.pick(&self.free_locals.clone());
                    out.push(I::LocalSet(l));
                }
            }
            2 => {
                self.expr(1, out);
                out.push(I::GlobalSet(self.rng.below(N_GLOBALS as u64) as u32));
            }
            3 => {
                self.addr(1, out);
                self.expr(1, out);
                out.push(I::Store(self.offset()));
            }
            4 => {
                self.expr(1, out);
                out.push(I::Drop);
            }
            5 => out.push(I::Nop),
            6 | 7 => {
                let mut b = Vec::new();
                self.labels.push(None);
                self.stmts(d + 1, &mut b);
                self.labels.pop();
                out.push(I::Block(b));
            }
            8 | 9 => {
                // bounded loop: the counter is decremented at the START of the body, the body may
                // `continue` (br_if to the loop label, from any nesting depth) only while the counter
                // is non-zero, and the back edge at the end is taken while the counter is non-zero
                let c = self.next_counter;
                self.next_counter += 1;
                out.push(I::Const(self.rng.range(1, 4)));
                out.push(I::LocalSet(c));
                let mut b = vec![I::LocalGet(c), I::Const(1), I::Bin(1), I::LocalSet(c)];
                self.labels.push(Some(c));
                self.stmts(d + 1, &mut b);
                self.labels.pop();
                b.push(I::LocalGet(c));
                b.push(I::BrIf(0));
                out.push(I::Loop(b));
            }
            10 | 11 => {
                self.expr(1, out);
                let mut t = Vec::new();
                let mut e = Vec::new();
                self.labels.push(None);
                self.stmts(d + 1, &mut t);
                if self.rng.bool() {
                    self.stmts(d + 1, &mut e);
                }
                self.labels.pop();
                out.push(I::If(t, e));
            }
            12 if self.labels.iter().any(|l| l.is_some()) => {
                // continue: conditional backward branch to an enclosing loop, guarded by its counter
                let loops: Vec<(u32, u32)> = self.labels.iter().rev().enumerate().filter_map(|(i, l)| l.map(|c| (i as u32, c))).collect();
                let (depth, c) = *self.rng.pick(&loops);
                self.expr(1, out);
                out.push(I::Const(0));
                out.push(I::Bin(9)); // Ne
                out.push(I::LocalGet(c));
                out.push(I::Bin(2)); // Mul: non-zero iff the condition holds and the counter is non-zero
                out.push(I::BrIf(depth));
            }
            12 | 13 => {
                // conditional branch to an enclosing non-loop label
                let targets: Vec<u32> = self.labels.iter().rev().enumerate().filter(|(_, l)| l.is_none()).map(|(i, _)| i as u32).collect();
                if targets.is_empty() {
                    out.push(I::Nop);
                } else {
                    self.expr(1, out);
                    out.push(I::BrIf(*self.rng.pick(&targets)));
                }
            }
            14 => {
                let cands: Vec<usize> = (self.me + 1..self.sigs.len()).filter(|j| !self.sigs[*j].1).collect();
                if cands.is_empty() {
                    out.push(I::Nop);
                } else {
                    let j = *self.rng.pick(&cands);
                    for _ in 0..self.sigs[j].0 {
                        self.expr(1, out);
                    }
                    out.push(I::Call(j as u32));
                }
            }
            _ => {
                // block-ending control: br / return / unreachable, only in last position
                if !last {
                    out.push(I::Nop);
                    return;
                }
                let targets: Vec<u32> = self.labels.iter().rev().enumerate().filter(|(_, l)| l.is_none()).map(|(i, _)| i as u32).collect();
                match self.rng.below(6) {
                    0 => out.push(I::Unreachable),
                    1 | 2 => {
                        if self.sigs[self.me].1 {
                            self.expr(1, out);
                        }
                        out.push(I::Return);
                    }
                    _ => {
                        if targets.is_empty() {
                            out.push(I::Nop);
                        } else {
                            out.push(I::Br(*self.rng.pick(&targets)));
                        }
                    }
                }
            }
        }
    }
}

/// no branch leaves a nested block / loop / if towards a LOOP label outside it
fn nc_list(ctx: &[bool], is: &[I]) -> bool {
    fn exits(i: &I) -> Vec<u32> {
        fn preds(v: Vec<u32>) -> Vec<u32> {
            v.into_iter().filter(|k| *k > 0).map(|k| k - 1).collect()
        }
        match i {
            I::Br(n) | I::BrIf(n) => vec![*n],
            I::Block(b) | I::Loop(b) => preds(b.iter().flat_map(exits).collect()),
            I::If(t, e) => preds(t.iter().chain(e.iter()).flat_map(exits).collect()),
            _ => vec![],
        }
    }
    is.iter().all(|i| {
        let own_ok = exits(i).iter().all(|k| !ctx.get(*k as usize).copied().unwrap_or(false));
        let inner = |l: bool, b: &Vec<I>| {
            let mut c = vec![l];
            c.extend_from_slice(ctx);
            nc_list(&c, b)
        };
        match i {
            I::Block(b) => own_ok && inner(false, b),
            I::Loop(b) => own_ok && inner(true, b),
            I::If(t, e) => own_ok && inner(false, t) && inner(false, e),
            _ => true,
        }
    })
}

/// The deterministic boundary family (identical for every seed): one program per shape the
/// metered-block algorithm distinguishes, each run with the arguments 0, 1 and 7.
fn corpus() -> Vec<(&'static str, Vec<F>)> {
    use I::*;
    let dec = |c: u32| vec![LocalGet(c), Const(1), Bin(1), LocalSet(c)];
    let bump = |g: u32| vec![GlobalGet(g), Const(1), Bin(0), GlobalSet(g)];
    let main1 = |locals: u32, body: Vec<I>| vec![F { params: 1, locals, result: true, body }];
    let cat = |parts: Vec<Vec<I>>| -> Vec<I> { parts.into_iter().flatten().collect() };
    let mut v: Vec<(&'static str, Vec<F>)> = Vec::new();
    // continue out of a nested block / if / inner loop: prepaid-and-skipped rest of the loop body
    v.push(("nested_continue_block", main1(1, cat(vec![vec![Const(3), LocalSet(1), Loop(cat(vec![dec(1), vec![Block(vec![LocalGet(1), BrIf(1), Nop])], bump(0)]))], vec![GlobalGet(0)]]))));
    v.push(("nested_continue_if", main1(1, cat(vec![vec![Const(4), LocalSet(1), Loop(cat(vec![dec(1), vec![LocalGet(0), If(vec![LocalGet(1), BrIf(1), Nop], vec![Nop])], bump(0), vec![LocalGet(1), BrIf(0)]]))], vec![GlobalGet(0)]]))));
    v.push(("nested_continue_inner_loop", main1(2, cat(vec![
        vec![Const(3), LocalSet(1), Loop(cat(vec![dec(1), vec![Const(2), LocalSet(2), Loop(cat(vec![dec(2), vec![LocalGet(1), LocalGet(0), Bin(2), BrIf(1)], bump(1), vec![LocalGet(2), BrIf(0)]]))], bump(0), vec![LocalGet(1), BrIf(0)]]))],
        vec![GlobalGet(0), GlobalGet(1), Bin(0)],
    ]))));
    // straight line: every arithmetic / comparison operator, tee, drop, globals, memory in bounds
    let mut straight = vec![LocalGet(0), Const(5), Bin(0), LocalSet(1)];
    for o in 0..14u8 {
        if o == 3 || o == 4 {
            straight.extend(vec![LocalGet(1), Const(3), Bin(o), LocalSet(1)]);
        } else {
            straight.extend(vec![LocalGet(1), LocalGet(0), Bin(o), LocalSet(1)]);
        }
    }
    straight.extend(vec![LocalGet(1), Eqz, LocalTee(1), Drop, Nop, Const(3), Const(255), Bin(5), LocalGet(0), Store(2), Const(3), Const(255), Bin(5), Load(2), GlobalSet(2), GlobalGet(2)]);
    v.push(("straight_line", main1(1, straight)));
    // blocks without branches: everything merges into the function's first metered block
    v.push(("block_merge_nested", main1(0, cat(vec![vec![Block(cat(vec![bump(0), vec![Block(bump(1))], bump(0)]))], bump(2), vec![GlobalGet(0)]]))));
    // br_if to the block's own label: prefix merged, tail metered on its own, parent block continues
    v.push(("block_brif_self", main1(0, cat(vec![vec![Block(cat(vec![bump(0), vec![LocalGet(0), BrIf(0)], bump(1)]))], bump(2), vec![GlobalGet(1)]]))));
    // br_if out of the inner block to the outer one: the outer block's metered block is closed at the inner end
    v.push(("block_escape", main1(0, cat(vec![vec![Block(cat(vec![vec![Block(cat(vec![bump(0), vec![LocalGet(0), BrIf(1)], bump(1)]))], bump(2)]))], bump(0), vec![GlobalGet(2)]]))));
    // unconditional br with dead code behind it
    v.push(("br_dead_code", main1(0, cat(vec![vec![Block(cat(vec![bump(0), vec![Br(0)], bump(1), vec![Nop]]))], vec![GlobalGet(1)]]))));
    // loops: back edge at the end only; continue in the middle of the loop body (not nested)
    v.push(("loop_back_edge", main1(1, cat(vec![vec![Const(3), LocalSet(1), Loop(cat(vec![dec(1), bump(0), vec![LocalGet(1), BrIf(0)]]))], vec![GlobalGet(0)]]))));
    v.push(("loop_mid_continue", main1(1, cat(vec![vec![Const(3), LocalSet(1), Loop(cat(vec![dec(1), vec![LocalGet(1), BrIf(0)], bump(0)]))], vec![GlobalGet(0)]]))));
    // if with and without else, taken and not taken (argument 0 / non-zero)
    v.push(("if_else", main1(0, cat(vec![vec![LocalGet(0), If(bump(0), bump(1))], bump(2), vec![GlobalGet(0)]]))));
    v.push(("if_no_else", main1(0, cat(vec![vec![LocalGet(0), If(bump(0), vec![])], bump(2), vec![GlobalGet(0)]]))));
    v.push(("if_empty_then", main1(0, cat(vec![vec![LocalGet(0), If(vec![], bump(1))], vec![GlobalGet(1)]]))));
    // br out of an if to an enclosing block
    v.push(("if_escape", main1(0, cat(vec![vec![Block(cat(vec![vec![LocalGet(0), If(vec![Br(1)], vec![Nop])], bump(0)]))], bump(1), vec![GlobalGet(0)]]))));
    // return from inside nested constructs
    v.push(("return_nested", main1(0, cat(vec![vec![Block(cat(vec![vec![LocalGet(0), If(vec![Const(42), Return], vec![])], bump(0)]))], vec![GlobalGet(0)]]))));
    // calls: parameters, locals, result / no result, an empty function
    v.push((
        "call_chain",
        vec![
            F { params: 1, locals: 0, result: true, body: vec![LocalGet(0), Const(2), Call(1), Call(3), Call(2), GlobalGet(0), Bin(0)] },
            F { params: 2, locals: 3, result: true, body: vec![LocalGet(0), LocalGet(1), Bin(0), LocalTee(4), LocalGet(4), Bin(2)] },
            F { params: 0, locals: 0, result: false, body: bump(0) },
            F { params: 0, locals: 0, result: false, body: vec![] },
        ],
    ));
    // traps: unreachable, division by zero, memory out of bounds (load and store), each only for some arguments
    v.push(("trap_unreachable", main1(0, cat(vec![bump(0), vec![LocalGet(0), If(vec![Unreachable], vec![])], bump(1), vec![GlobalGet(0)]]))));
    v.push(("trap_div_zero", main1(0, cat(vec![bump(0), vec![Const(10), LocalGet(0), Bin(3)]]))));
    v.push(("trap_rem_zero", main1(0, cat(vec![bump(0), vec![Const(10), LocalGet(0), Bin(4)]]))));
    v.push(("trap_load_oob", main1(0, cat(vec![bump(0), vec![LocalGet(0), Const(255), Bin(5), Load((MEM_CELLS - 1) as u32)]]))));
    v.push(("trap_store_oob", main1(0, cat(vec![bump(0), vec![LocalGet(0), Const(255), Bin(5), Const(9), Store((MEM_CELLS - 1) as u32), GlobalGet(0)]]))));
    // a function whose only instructions cost nothing
    v.push(("zero_cost_body", vec![F { params: 1, locals: 0, result: true, body: vec![LocalGet(0), Call(1), LocalGet(0)] }, F { params: 1, locals: 0, result: false, body: vec![Return] }]));
    v
}
const FAMILY_ARGS: [u64; 3] = [0, 1, 7];

fn gen_prog(rng: &mut Rng) -> Vec<F> {
    let nf = rng.range(1, 4) as usize;
    let mut sigs: Vec<(u32, bool)> = vec![(1, true)];
    for _ in 1..nf {
        sigs.push((rng.range(0, 2) as u32, rng.bool()));
    }
    let mut fs = Vec::new();
    for me in 0..nf {
        let params = sigs[me].0;
        let nfree = rng.range(0, 3) as u32;
        let free_locals: Vec<u32> = (params..params + nfree).collect();
        let size = rng.range(6, 40) as i32;
        let mut g = Gen { rng: &mut *rng, sigs: sigs.clone(), me, params, free_locals, next_counter: params + nfree, labels: vec![], budget: size };
        let mut body = Vec::new();
        g.stmts(0, &mut body);
        if sigs[me].1 {
            g.budget = 6;
            g.expr(1, &mut body);
        }
        let locals = g.next_counter - params;
        fs.push(F { params, locals, result: sigs[me].1, body });
    }
    fs
}

// ------------------------------------------------------------------------------------------------
// emission
// ------------------------------------------------------------------------------------------------
struct Emit<'a> {
    f: &'a mut we::Function,
    scratch: u32,
    call_shift: u32,                      // 1 when env.gas is imported at index 0
    naive: Option<(&'a [u32], usize, u32)>, // per-instruction costs, cursor, gas function index
}
impl<'a> Emit<'a> {
    fn op(&mut self, ins: we::Instruction) {
        if let Some((costs, cur, gas)) = &mut self.naive {
            let c = costs[*cur];
            *cur += 1;
            if c > 0 {
                self.f.instruction(&we::Instruction::I64Const(c as i64));
                self.f.instruction(&we::Instruction::Call(*gas));
            }
        }
        self.f.instruction(&ins);
    }
    fn cond(&mut self) {
        self.op(we::Instruction::I64Eqz);
        self.op(we::Instruction::I32Eqz);
    }
    fn list(&mut self, is: &[I]) {
        use we::Instruction as W;
        for i in is {
            match i {
                I::Const(z) => self.op(W::I64Const(*z as i64)),
                I::Bin(o) => {
                    let (w, cmp) = match o {
                        0 => (W::I64Add, false),
                        1 => (W::I64Sub, false),
                        2 => (W::I64Mul, false),
                        3 => (W::I64DivU, false),
                        4 => (W::I64RemU, false),
                        5 => (W::I64And, false),
                        6 => (W::I64Or, false),
                        7 => (W::I64Xor, false),
                        8 => (W::I64Eq, true),
                        9 => (W::I64Ne, true),
                        10 => (W::I64LtU, true),
                        11 => (W::I64GtU, true),
                        12 => (W::I64LeU, true),
                        _ => (W::I64GeU, true),
                    };
                    self.op(w);
                    if cmp {
                        self.op(W::I64ExtendI32U);
                    }
                }
                I::Eqz => {
                    self.op(W::I64Eqz);
                    self.op(W::I64ExtendI32U);
                }
                I::Drop => self.op(W::Drop),
                I::Nop => self.op(W::Nop),
                I::Unreachable => self.op(W::Unreachable),
                I::LocalGet(n) => self.op(W::LocalGet(*n)),
                I::LocalSet(n) => self.op(W::LocalSet(*n)),
                I::LocalTee(n) => self.op(W::LocalTee(*n)),
                I::GlobalGet(n) => self.op(W::GlobalGet(*n)),
                I::GlobalSet(n) => self.op(W::GlobalSet(*n)),
                I::Load(off) => {
                    self.op(W::I32WrapI64);
                    self.op(W::I32Const(3));
                    self.op(W::I32Shl);
                    self.op(W::I64Load(we::MemArg { offset: *off as u64 * 8, align: 3, memory_index: 0 }));
                }
                I::Store(off) => {
                    let s = self.scratch;
                    self.op(W::LocalSet(s));
                    self.op(W::I32WrapI64);
                    self.op(W::I32Const(3));
                    self.op(W::I32Shl);
                    self.op(W::LocalGet(s));
                    self.op(W::I64Store(we::MemArg { offset: *off as u64 * 8, align: 3, memory_index: 0 }));
                }
                I::Block(b) => {
                    self.op(W::Block(we::BlockType::Empty));
                    self.list(b);
                    self.op(W::End);
                }
                I::Loop(b) => {
                    self.op(W::Loop(we::BlockType::Empty));
                    self.list(b);
                    self.op(W::End);
                }
                I::If(t, e) => {
                    self.cond();
                    self.op(W::If(we::BlockType::Empty));
                    self.list(t);
                    if !e.is_empty() {
                        self.op(W::Else);
                        self.list(e);
                    }
                    self.op(W::End);
                }
                I::Br(n) => self.op(W::Br(*n)),
                I::BrIf(n) => {
                    self.cond();
                    self.op(W::BrIf(*n));
                }
                I::Return => self.op(W::Return),
                I::Call(g) => self.op(W::Call(*g + self.call_shift)),
                I::Charge(_) => unreachable!(),
            }
        }
    }
}

/// costs = None: the plain module (no imports). Some(per-function cost vectors, entry costs): naive metering.
fn emit(p: &[F], costs: Option<&(Vec<Vec<u32>>, Vec<u64>)>) -> Vec<u8> {
    let mut m = we::Module::new();
    let mut types = we::TypeSection::new();
    for f in p {
        types.function(vec![we::ValType::I64; f.params as usize], if f.result { vec![we::ValType::I64] } else { vec![] });
    }
    types.function(vec![we::ValType::I64], vec![]);
    m.section(&types);
    let shift = if costs.is_some() { 1 } else { 0 };
    if costs.is_some() {
        let mut imp = we::ImportSection::new();
        imp.import("env", "gas", we::EntityType::Function(p.len() as u32));
        m.section(&imp);
    }
    let mut funcs = we::FunctionSection::new();
    for (i, _) in p.iter().enumerate() {
        funcs.function(i as u32);
    }
    m.section(&funcs);
    let mut mem = we::MemorySection::new();
    mem.memory(we::MemoryType { minimum: 1, maximum: Some(1), memory64: false, shared: false });
    m.section(&mem);
    let mut gl = we::GlobalSection::new();
    for k in 0..N_GLOBALS {
        gl.global(we::GlobalType { val_type: we::ValType::I64, mutable: true }, &we::ConstExpr::i64_const(k as i64 * 7));
    }
    m.section(&gl);
    let mut ex = we::ExportSection::new();
    ex.export("main", we::ExportKind::Func, shift);
    ex.export("memory", we::ExportKind::Memory, 0);
    for k in 0..N_GLOBALS {
        ex.export(&format!("g{}", k), we::ExportKind::Global, k);
    }
    m.section(&ex);
    let mut code = we::CodeSection::new();
    for (fi, f) in p.iter().enumerate() {
        let mut wf = we::Function::new(vec![(f.locals + 1, we::ValType::I64)]);
        {
            if let Some((_, entry)) = costs {
                if entry[fi] > 0 {
                    wf.instruction(&we::Instruction::I64Const(entry[fi] as i64));
                    wf.instruction(&we::Instruction::Call(0));
                }
            }
            let naive = costs.map(|(c, _)| (&c[fi][..], 0usize, 0u32));
            let mut e = Emit { f: &mut wf, scratch: f.params + f.locals, call_shift: shift, naive };
            e.list(&f.body);
            e.op(we::Instruction::End);
            if let Some((c, cur, _)) = &e.naive {
                assert_eq!(*cur, c.len(), "cost vector length");
            }
        }
        code.function(&wf);
    }
    m.section(&code);
    m.finish()
}

/// per-function operator costs and function entry costs, from the Rules of the code
fn cost_table(plain: &[u8]) -> (Vec<Vec<u32>>, Vec<u64>) {
    let rules = WasmValidatorConfigV1::new();
    let mut per = Vec::new();
    let mut entry = Vec::new();
    for payload in wp::Parser::new(0).parse_all(plain) {
        if let Ok(wp::Payload::CodeSectionEntry(fb)) = payload {
            let mut nlocals = 0u64;
            for l in fb.get_locals_reader().unwrap() {
                nlocals += l.unwrap().0 as u64;
            }
            entry.push(nlocals * rules.call_per_local_cost() as u64);
            let mut v = Vec::new();
            for op in fb.get_operators_reader().unwrap() {
                v.push(rules.instruction_cost(&op.unwrap()).expect("cost"));
            }
            per.push(v);
        }
    }
    (per, entry)
}

// ------------------------------------------------------------------------------------------------
// parsing the gas-only output back into MiniWasm + Charge
// ------------------------------------------------------------------------------------------------
fn parse_back(bytes: &[u8], sig: &[F]) -> Result<Vec<F>, String> {
    // env.gas must be import 0
    let mut n_imports = 0;
    let mut bodies: Vec<Vec<wp::Operator>> = Vec::new();
    for payload in wp::Parser::new(0).parse_all(bytes) {
        match payload.map_err(|e| e.to_string())? {
            wp::Payload::ImportSection(rd) => {
                for i in rd {
                    let i = i.map_err(|e| e.to_string())?;
                    if i.module != "env" || i.name != "gas" {
                        return Err("unexpected import".into());
                    }
                    n_imports += 1;
                }
            }
            wp::Payload::CodeSectionEntry(fb) => {
                bodies.push(fb.get_operators_reader().map_err(|e| e.to_string())?.into_iter().collect::<Result<_, _>>().map_err(|e: wp::BinaryReaderError| e.to_string())?);
            }
            _ => {}
        }
    }
    if n_imports != 1 || bodies.len() != sig.len() {
        return Err(format!("imports {} bodies {}", n_imports, bodies.len()));
    }
    let mut out = Vec::new();
    for (fi, ops) in bodies.iter().enumerate() {
        let scratch = sig[fi].params + sig[fi].locals;
        let mut pos = 0usize;
        let body = parse_list(ops, &mut pos, scratch, true)?.0;
        out.push(F { params: sig[fi].params, locals: sig[fi].locals, result: sig[fi].result, body });
    }
    Ok(out)
}
/// returns (list, terminator: 0 = End, 1 = Else)
fn parse_list(ops: &[wp::Operator], pos: &mut usize, scratch: u32, _top: bool) -> Result<(Vec<I>, u8), String> {
    use wp::Operator as O;
    let mut v: Vec<I> = Vec::new();
    loop {
        let op = ops.get(*pos).ok_or("eof")?;
        *pos += 1;
        let next = ops.get(*pos);
        match op {
            O::End => return Ok((v, 0)),
            O::Else => return Ok((v, 1)),
            O::I64Const { value } => {
                if let Some(O::Call { function_index: 0 }) = next {
                    *pos += 1;
                    v.push(I::Charge(*value));
                } else {
                    v.push(I::Const(*value as u64));
                }
            }
            O::I64Add => v.push(I::Bin(0)),
            O::I64Sub => v.push(I::Bin(1)),
            O::I64Mul => v.push(I::Bin(2)),
            O::I64DivU => v.push(I::Bin(3)),
            O::I64RemU => v.push(I::Bin(4)),
            O::I64And => v.push(I::Bin(5)),
            O::I64Or => v.push(I::Bin(6)),
            O::I64Xor => v.push(I::Bin(7)),
            O::I64Eq | O::I64Ne | O::I64LtU | O::I64GtU | O::I64LeU | O::I64GeU => {
                if !matches!(next, Some(O::I64ExtendI32U)) {
                    return Err("comparison without extend".into());
                }
                *pos += 1;
                v.push(I::Bin(match op {
                    O::I64Eq => 8,
                    O::I64Ne => 9,
                    O::I64LtU => 10,
                    O::I64GtU => 11,
                    O::I64LeU => 12,
                    _ => 13,
                }));
            }
            O::I64Eqz => match next {
                Some(O::I64ExtendI32U) => {
                    *pos += 1;
                    v.push(I::Eqz);
                }
                Some(O::I32Eqz) => {
                    *pos += 1;
                    // condition marker: the next operator must be `if` or `br_if`
                    match ops.get(*pos) {
                        Some(O::If { .. }) => {
                            *pos += 1;
                            let (t, term) = parse_list(ops, pos, scratch, false)?;
                            let e = if term == 1 { parse_list(ops, pos, scratch, false)?.0 } else { vec![] };
                            v.push(I::If(t, e));
                        }
                        Some(O::BrIf { relative_depth }) => {
                            *pos += 1;
                            v.push(I::BrIf(*relative_depth));
                        }
                        _ => return Err("condition marker without if/br_if".into()),
                    }
                }
                _ => return Err("bare i64.eqz".into()),
            },
            O::Drop => v.push(I::Drop),
            O::Nop => v.push(I::Nop),
            O::Unreachable => v.push(I::Unreachable),
            O::LocalGet { local_index } => v.push(I::LocalGet(*local_index)),
            O::LocalSet { local_index } if *local_index == scratch => {
                // store pattern
                let pat = (ops.get(*pos), ops.get(*pos + 1), ops.get(*pos + 2), ops.get(*pos + 3), ops.get(*pos + 4));
                match pat {
                    (Some(O::I32WrapI64), Some(O::I32Const { value: 3 }), Some(O::I32Shl), Some(O::LocalGet { local_index }), Some(O::I64Store { memarg })) if *local_index == scratch => {
                        *pos += 5;
                        v.push(I::Store((memarg.offset / 8) as u32));
                    }
                    _ => return Err("broken store pattern".into()),
                }
            }
            O::LocalSet { local_index } => v.push(I::LocalSet(*local_index)),
            O::LocalTee { local_index } => v.push(I::LocalTee(*local_index)),
            O::GlobalGet { global_index } => v.push(I::GlobalGet(*global_index)),
            O::GlobalSet { global_index } => v.push(I::GlobalSet(*global_index)),
            O::I32WrapI64 => {
                let pat = (ops.get(*pos), ops.get(*pos + 1), ops.get(*pos + 2));
                match pat {
                    (Some(O::I32Const { value: 3 }), Some(O::I32Shl), Some(O::I64Load { memarg })) => {
                        *pos += 3;
                        v.push(I::Load((memarg.offset / 8) as u32));
                    }
                    _ => return Err("broken load pattern".into()),
                }
            }
            O::Block { .. } => v.push(I::Block(parse_list(ops, pos, scratch, false)?.0)),
            O::Loop { .. } => v.push(I::Loop(parse_list(ops, pos, scratch, false)?.0)),
            O::Br { relative_depth } => v.push(I::Br(*relative_depth)),
            O::Return => v.push(I::Return),
            O::Call { function_index } => {
                if *function_index == 0 {
                    return Err("call of gas without constant".into());
                }
                v.push(I::Call(*function_index - 1));
            }
            other => return Err(format!("unexpected operator {:?}", other)),
        }
    }
}

// ------------------------------------------------------------------------------------------------
// Coq printing
// ------------------------------------------------------------------------------------------------
fn coq_instrs(is: &[I]) -> String {
    coq_list(is.iter().map(|i| match i {
        I::Const(z) => format!("Const {}", z),
        I::Bin(o) => format!("Bin {}", BIN_NAMES[*o as usize]),
        I::Eqz => "Eqz".into(),
        I::Drop => "Drop".into(),
        I::Nop => "Nop".into(),
        I::Unreachable => "Unreachable".into(),
        I::LocalGet(n) => format!("LocalGet {}", n),
        I::LocalSet(n) => format!("LocalSet {}", n),
        I::LocalTee(n) => format!("LocalTee {}", n),
        I::GlobalGet(n) => format!("GlobalGet {}", n),
        I::GlobalSet(n) => format!("GlobalSet {}", n),
        I::Load(o) => format!("Load {}", o),
        I::Store(o) => format!("Store {}", o),
        I::Block(b) => format!("Block {}", coq_instrs(b)),
        I::Loop(b) => format!("Loop {}", coq_instrs(b)),
        I::If(t, e) => format!("If {} {}", coq_instrs(t), coq_instrs(e)),
        I::Br(n) => format!("Br {}", n),
        I::BrIf(n) => format!("BrIf {}", n),
        I::Return => "Return".into(),
        I::Call(g) => format!("Call {}", g),
        I::Charge(c) => format!("Charge {}", c),
    }))
}
fn coq_prog(p: &[F]) -> String {
    coq_list(p.iter().map(|f| format!("mkFunc {} {} {} {}", f.params, f.locals, coq_bool(f.result), coq_instrs(&f.body))))
}

// ------------------------------------------------------------------------------------------------
// running under wasmi
// ------------------------------------------------------------------------------------------------
#[derive(Clone, Debug, PartialEq)]
struct Run {
    result: Result<u64, String>, // value or trap class
    globals: Vec<u64>,
    mem_hash: u64,
    gas: u64,
}
struct HostState {
    gas: u64,
    limit: u64,
}
fn run_wasmi(bytes: &[u8], arg: u64, limit: u64) -> Result<Run, String> {
    let engine = wasmi::Engine::default();
    let module = wasmi::Module::new(&engine, bytes).map_err(|e| format!("module: {}", e))?;
    let mut store = wasmi::Store::new(&engine, HostState { gas: 0, limit });
    let mut linker = <wasmi::Linker<HostState>>::new(&engine);
    linker
        .func_wrap("env", "gas", |mut caller: wasmi::Caller<'_, HostState>, amount: i64| -> Result<(), wasmi::Error> {
            let st = caller.data_mut();
            let a = amount as u64;
            if st.gas + a > st.limit {
                return Err(wasmi::Error::new("out of gas"));
            }
            st.gas += a;
            Ok(())
        })
        .map_err(|e| e.to_string())?;
    let instance = linker.instantiate(&mut store, &module).map_err(|e| format!("instantiate: {}", e))?.start(&mut store).map_err(|e| format!("start: {}", e))?;
    let main = instance.get_typed_func::<i64, i64>(&store, "main").map_err(|e| e.to_string())?;
    let result = match main.call(&mut store, arg as i64) {
        Ok(v) => Ok(v as u64),
        Err(e) => Err(match e.as_trap_code() {
            Some(c) => format!("trap:{:?}", c),
            None => {
                if format!("{}", e).contains("out of gas") {
                    "out_of_gas".to_string()
                } else {
                    format!("error:{}", e)
                }
            }
        }),
    };
    let mut globals = Vec::new();
    for k in 0..N_GLOBALS {
        let g = instance.get_global(&store, &format!("g{}", k)).ok_or("global")?;
        globals.push(match g.get(&store) {
            wasmi::Val::I64(v) => v as u64,
            _ => return Err("global type".into()),
        });
    }
    let mem = instance.get_memory(&store, "memory").ok_or("memory")?;
    let mem_hash = fnv1a(mem.data(&store));
    let gas = store.data().gas;
    Ok(Run { result, globals, mem_hash, gas })
}

// counts of the deterministic family on the unmodified code (a class that stops being generated, or
// whose outcome moves, fails the run)
const FAMILY_FLOORS: &[(&str, u64)] = &[
    ("fam|block_brif_self|value", 3),
    ("fam|block_escape|value", 3),
    ("fam|block_merge_nested|value", 3),
    ("fam|br_dead_code|value", 3),
    ("fam|call_chain|value", 3),
    ("fam|if_else|value", 3),
    ("fam|if_empty_then|value", 3),
    ("fam|if_escape|value", 3),
    ("fam|if_no_else|value", 3),
    ("fam|loop_back_edge|value", 3),
    ("fam|loop_mid_continue|value", 3),
    ("fam|nested_continue_block|overcharged", 3),
    ("fam|nested_continue_block|value", 3),
    ("fam|nested_continue_if|overcharged", 2),
    ("fam|nested_continue_if|value", 3),
    ("fam|nested_continue_inner_loop|overcharged", 2),
    ("fam|nested_continue_inner_loop|value", 3),
    ("fam|return_nested|value", 3),
    ("fam|straight_line|value", 3),
    ("fam|trap_div_zero|trap", 1),
    ("fam|trap_div_zero|value", 2),
    ("fam|trap_load_oob|trap", 2),
    ("fam|trap_load_oob|value", 1),
    ("fam|trap_rem_zero|trap", 1),
    ("fam|trap_rem_zero|value", 2),
    ("fam|trap_store_oob|overcharged", 2),
    ("fam|trap_store_oob|trap", 2),
    ("fam|trap_store_oob|value", 1),
    ("fam|trap_unreachable|overcharged", 2),
    ("fam|trap_unreachable|trap", 2),
    ("fam|trap_unreachable|value", 1),
    ("fam|zero_cost_body|value", 3),
];

fn main() {
    let args = Args::parse();
    let mut report = Report::new(
        "C46",
        args.seed,
        "random terminating MiniWasm programs (1-3 functions, nested block/loop/if, br/br_if/return/call, memory, traps) x 2 arguments; original vs gas-instrumented vs gas+stack-limiter-instrumented under wasmi, naive per-instruction metering oracle, gas-only output parsed back to MiniWasm+Charge for the Coq model; \
         non-trivial = the program has a loop or a branch and at least 3 metering calls were executed; distinct by program text + argument",
    );
    let mut cw = CaseWriter::new("RV.Corr.C46_run RV.Model.C46_MiniWasm", "check");

    let root = Rng::new(args.seed);
    let cfg = WasmValidatorConfigV1::new();
    let max_stack = cfg.max_stack_size();
    let n_fam = corpus().len();
    for i in 0..(n_fam + args.cases) {
        let mut rng = root.fork(i as u64);
        let fixed = corpus();
        let in_family = i < fixed.len();
        let p = if in_family { fixed[i].1.clone() } else { gen_prog(&mut rng) };
        let is_nc = p.iter().all(|f| nc_list(&[false], &f.body));
        report.count(if is_nc { "programs_without_nested_continue" } else { "programs_with_nested_continue" });
        let plain = emit(&p, None);
        let input = json!({"wasm": hex(&plain)});
        // the code under test
        let gas_only = catch(std::panic::AssertUnwindSafe(|| WasmModule::init(&plain).and_then(|m| m.inject_instruction_metering(&cfg)).and_then(|m| m.to_bytes()).map(|x| x.0)));
        let full = catch(std::panic::AssertUnwindSafe(|| {
            WasmModule::init(&plain).and_then(|m| m.inject_instruction_metering(&cfg)).and_then(|m| m.inject_stack_metering(max_stack)).and_then(|m| m.to_bytes()).map(|x| x.0)
        }));
        let (gas_only, full) = match (gas_only, full) {
            (Ok(Ok(a)), Ok(Ok(b))) => (a, b),
            (a, b) => {
                report.count("instrumentation_failed");
                report.oracle_failure(i, "", &format!("instrumentation failed or panicked on a valid module: {:?} / {:?}", a.map(|x| x.map(|_| ())), b.map(|x| x.map(|_| ()))), input);
                continue;
            }
        };
        let costs = cost_table(&plain);
        let naive = emit(&p, Some(&costs));
        let back = match parse_back(&gas_only, &p) {
            Ok(b) => b,
            Err(e) => {
                report.count("parse_back_failed");
                report.oracle_failure(i, "", &format!("gas-instrumented code is not the original code plus metering calls: {}", e), input);
                continue;
            }
        };
        let structured = p.iter().any(|f| format!("{:?}", f.body).contains("Loop") || format!("{:?}", f.body).contains("Br"));
        let argv: Vec<u64> = if in_family { FAMILY_ARGS.to_vec() } else { vec![rng.below(4), rng.next_u64()] };
        for arg in argv {
            let r0 = run_wasmi(&plain, arg, u64::MAX);
            let r1 = run_wasmi(&gas_only, arg, u64::MAX);
            let r2 = run_wasmi(&full, arg, u64::MAX);
            let rn = run_wasmi(&naive, arg, u64::MAX);
            let (r0, r1, r2, rn) = match (r0, r1, r2, rn) {
                (Ok(a), Ok(b), Ok(c), Ok(d)) => (a, b, c, d),
                (a, b, c, d) => {
                    report.oracle_failure(i, "", &format!("a module failed to load: {:?} {:?} {:?} {:?}", a.err(), b.err(), c.err(), d.err()), input.clone());
                    continue;
                }
            };
            let input = json!({"wasm": hex(&plain), "arg": arg});
            // same meaning
            if r0.result != r1.result || r0.globals != r1.globals || r0.mem_hash != r1.mem_hash {
                report.oracle_failure(i, "", &format!("gas instrumentation changed the meaning: {:?} vs {:?}", r0, r1), input.clone());
            }
            if r0.result != r2.result || r0.globals != r2.globals || r0.mem_hash != r2.mem_hash {
                report.oracle_failure(i, "", &format!("gas + stack instrumentation changed the meaning: {:?} vs {:?}", r0, r2), input.clone());
            }
            if r1.gas != r2.gas {
                report.oracle_failure(i, "", &format!("stack limiter changed the gas charged: {} vs {}", r1.gas, r2.gas), input.clone());
            }
            // cost vs the sum of the costs of the executed instructions (naive metering):
            // never less; equal on non-trapping runs of programs without a nested continue
            if rn.gas > r1.gas {
                report.oracle_failure(i, "", &format!("charged {} is LESS than the executed instructions cost {}", r1.gas, rn.gas), input.clone());
            }
            if r0.result.is_ok() && is_nc && rn.gas != r1.gas {
                report.oracle_failure(i, "", &format!("charged {} but the executed instructions cost {} (no nested continue in the program)", r1.gas, rn.gas), input.clone());
            }
            if r0.result.is_ok() && rn.gas < r1.gas {
                report.count("overcharged_runs_nested_continue");
            }
            if rn.result != r0.result {
                report.oracle_failure(i, "", "naive metering variant disagrees (harness)", input.clone());
            }
            // budget exactly sufficient / one unit short
            let exact = run_wasmi(&gas_only, arg, r1.gas);
            if exact.as_ref().map(|r| &r.result) != Ok(&r0.result) {
                report.oracle_failure(i, "", "a budget equal to the path cost does not reproduce the result", input.clone());
            }
            if r1.gas > 0 {
                let short = run_wasmi(&gas_only, arg, r1.gas - 1);
                if short.as_ref().map(|r| r.result.clone()) != Ok(Err("out_of_gas".to_string())) {
                    report.oracle_failure(i, "", "a budget one unit below the path cost does not run out of gas", input.clone());
                }
            }
            let class = match &r0.result {
                Ok(_) => "value".to_string(),
                Err(e) => e.clone(),
            };
            report.count(&format!("outcome_{}", class));
            if in_family {
                report.count(&format!("fam|{}|{}", fixed[i].0, if r0.result.is_ok() { "value" } else { "trap" }));
                if rn.gas < r1.gas {
                    report.count(&format!("fam|{}|overcharged", fixed[i].0));
                }
            }
            let canon = format!("{:?}|{}", p, arg);
            report.case(&canon, structured && r1.gas > 3 * 1372);
            let obs = match &r0.result {
                Ok(v) => format!("(ObsValue {}%Z)", v),
                Err(_) => "ObsTrap".to_string(),
            };
            cw.push(format!(
                "(mkCase {} {} {}%Z {} {} {}%Z {}%Z)",
                coq_prog(&p),
                coq_prog(&back),
                arg,
                obs,
                coq_list(r0.globals.iter().map(|g| format!("{}%Z", g))),
                r1.gas,
                rn.gas
            ));
        }
        if i < 2 {
            report.sample(json!({"program": format!("{:?}", p).chars().take(400).collect::<String>()}));
        }
        let charges: usize = back.iter().map(|f| format!("{:?}", f.body).matches("Charge").count()).sum();
        report.count_n("metering_calls_injected", charges as u64);
    }
    let n = args.cases as u64;
    report.floor("outcome_value", n / 4);
    report.floor("metering_calls_injected", n);
    report.floor("overcharged_runs_nested_continue", 1);
    report.floor("programs_without_nested_continue", n / 4);
    for (k, m) in FAMILY_FLOORS {
        report.floor(k, *m);
    }
    cw.write(&args.out, args.shards).unwrap();
    report.write(&args.out).unwrap();
}
