//! C41 correspondence harness: random operation sequences (contribute / redeem / protected_deposit /
//! protected_withdraw / get_redemption_value) on the native one-, two- and multi-resource pools,
//! executed as real transactions through scrypto-test's LedgerSimulator (latest protocol version =
//! pool blueprints v1_1). After every transaction the pool-unit total supply, the pool's vault
//! balances and the account balances are read back from the ledger. The operations, the observed
//! results and the observed post-states are written as Coq cases (model: coq/Model/C41_Pool.v).
//!
//! Direct oracle (independent of the Coq model; exact integer arithmetic with num-bigint):
//!   * pro-rata: every amount paid by redeem / reported by get_redemption_value satisfies
//!     owed_r * S <= units * R_r and is a multiple of the resource's step;
//!   * no round-trip gain: after every successful contribution the harness asks
//!     get_redemption_value(minted); the value is <= the amount taken, per resource (the only
//!     exemption is a pool that had reserves but no pool units, which only a protected_deposit by
//!     the pool manager can produce: those reserves are unowned and go to the first contributor,
//!     as the blueprint documents);
//!   * reserves never negative, and a redemption never takes more than the reserves;
//!   * change without loss: provided = taken + returned change (account delta), taken <= provided,
//!     and (pool with units) taken_r <= kmin * R_r with kmin = min c_j / R_j (exactly for the
//!     multi-resource pool; up to the 36-digit precision slack R_r/10^36 + R_r/(R_j*10^18) attos for
//!     the two-resource pool, whose tie-break between its two candidates can keep the larger one);
//!   * no transaction fails with anything but an application error of the pool / resource layer.
use num_bigint::BigInt;
use num_traits::{One, Signed, Zero};
use radix_common::prelude::*;
use radix_engine::errors::*;
use radix_engine::blueprints::pool::v1::errors::{
    multi_resource_pool::Error as MultiErr, one_resource_pool::Error as OneErr, two_resource_pool::Error as TwoErr,
};
use radix_engine::blueprints::resource::FungibleResourceManagerError;
use radix_engine::transaction::*;
use radix_engine_interface::blueprints::pool::*;
use radix_engine::blueprints::pool::v1::constants::*;
use radix_engine_interface::prelude::*;
use radix_transactions::prelude::*;
use scrypto_test::prelude::{DefaultLedgerSimulator, LedgerSimulatorBuilder};
use serde_json::json;
use std::collections::BTreeMap;
use std::str::FromStr;
use vh_common::*;

#[derive(Clone, Copy, Debug, PartialEq)]
enum Kind {
    One,
    Two,
    Multi,
}

#[derive(Clone, Debug)]
enum Op {
    Contribute(Vec<BigInt>),
    Redeem(BigInt),
    Deposit(usize, BigInt),
    Withdraw(usize, BigInt, u8), // strategy: 0 exact, 1 down, 2 up
    GetRedemption(BigInt),
}

#[derive(Clone, Debug, PartialEq)]
enum Out {
    Contrib(BigInt, Vec<BigInt>),
    Redeem(Vec<BigInt>),
    Unit,
    Withdraw(BigInt),
    Value(Vec<BigInt>),
    Err(&'static str),
    Panic,
}

fn big(d: Decimal) -> BigInt {
    BigInt::from_str(&d.attos().to_string()).unwrap()
}
fn dec(b: &BigInt) -> Decimal {
    Decimal::from_attos(I192::from_str(&b.to_string()).expect("amount fits I192"))
}
fn pow10(n: u32) -> BigInt {
    BigInt::from(10u32).pow(n)
}
fn step_of(dv: u8) -> BigInt {
    pow10(18 - dv as u32)
}
fn max_mint() -> BigInt {
    BigInt::one() << 152
}
fn floor_to(a: &BigInt, st: &BigInt) -> BigInt {
    (a / st) * st
}

struct World {
    ledger: DefaultLedgerSimulator,
    pk: Secp256k1PublicKey,
    account: ComponentAddress,
    res_cache: BTreeMap<u8, Vec<ResourceAddress>>,
}

impl World {
    fn new() -> Self {
        let mut ledger = LedgerSimulatorBuilder::new().without_kernel_trace().build();
        let (pk, _, account) = ledger.new_account(false);
        World { ledger, pk, account, res_cache: BTreeMap::new() }
    }
    fn resource(&mut self, dv: u8, nth: usize) -> ResourceAddress {
        while self.res_cache.entry(dv).or_default().len() <= nth {
            let r = self
                .ledger
                .create_freely_mintable_and_burnable_fungible_resource(OwnerRole::None, None, dv, self.account);
            self.res_cache.get_mut(&dv).unwrap().push(r);
        }
        self.res_cache[&dv][nth]
    }
    fn exec(&mut self, manifest: TransactionManifestV1) -> TransactionReceipt {
        self.ledger
            .execute_manifest(manifest, vec![NonFungibleGlobalId::from_public_key(&self.pk)])
    }
}

struct PoolCtx {
    kind: Kind,
    pool: ComponentAddress,
    unit: ResourceAddress,
    res: Vec<ResourceAddress>,
    divs: Vec<u8>,
}

fn instantiate(w: &mut World, kind: Kind, res: &[ResourceAddress]) -> (ComponentAddress, ResourceAddress) {
    let b = ManifestBuilder::new().lock_fee_from_faucet();
    let b = match kind {
        Kind::One => b.call_function(
            POOL_PACKAGE,
            ONE_RESOURCE_POOL_BLUEPRINT_IDENT,
            ONE_RESOURCE_POOL_INSTANTIATE_IDENT,
            OneResourcePoolInstantiateManifestInput {
                resource_address: res[0].into(),
                pool_manager_rule: rule!(allow_all).into(),
                owner_role: OwnerRole::None.into(),
                address_reservation: None,
            },
        ),
        Kind::Two => b.call_function(
            POOL_PACKAGE,
            TWO_RESOURCE_POOL_BLUEPRINT_IDENT,
            TWO_RESOURCE_POOL_INSTANTIATE_IDENT,
            TwoResourcePoolInstantiateManifestInput {
                resource_addresses: (res[0].into(), res[1].into()),
                pool_manager_rule: rule!(allow_all).into(),
                owner_role: OwnerRole::None.into(),
                address_reservation: None,
            },
        ),
        Kind::Multi => b.call_function(
            POOL_PACKAGE,
            MULTI_RESOURCE_POOL_BLUEPRINT_IDENT,
            MULTI_RESOURCE_POOL_INSTANTIATE_IDENT,
            MultiResourcePoolInstantiateManifestInput {
                resource_addresses: res.iter().cloned().map(Into::into).collect(),
                pool_manager_rule: rule!(allow_all).into(),
                owner_role: OwnerRole::None.into(),
                address_reservation: None,
            },
        ),
    };
    let receipt = w.exec(b.build());
    let c = receipt.expect_commit_success();
    (c.new_component_addresses()[0], c.new_resource_addresses()[0])
}

/// mint `amount` (attos) of `res` onto the worktop, in chunks of at most 2^152 attos
fn mint_onto(mut b: ManifestBuilder, res: ResourceAddress, amount: &BigInt, st: &BigInt) -> ManifestBuilder {
    let lim = floor_to(&max_mint(), st);
    let mut left = amount.clone();
    while left.is_positive() {
        let chunk = if left > lim { lim.clone() } else { left.clone() };
        b = b.mint_fungible(res, dec(&chunk));
        left -= chunk;
    }
    b
}

fn map_err(e: &RuntimeError) -> Option<&'static str> {
    use ApplicationError as A;
    match e {
        RuntimeError::ApplicationError(a) => match a {
            A::OneResourcePoolError(e) => match e {
                OneErr::ContributionOfEmptyBucketError => Some("EEmptyBucket"),
                OneErr::DecimalOverflowError => Some("EDecOverflow"),
                OneErr::ZeroPoolUnitsMinted => Some("EZeroMinted"),
                OneErr::RedeemedZeroTokens => Some("ERedeemedZero"),
                OneErr::NonZeroPoolUnitSupplyButZeroReserves => Some("ESupplyNoReserves"),
                OneErr::InvalidGetRedemptionAmount => Some("EInvalidRedemption"),
                _ => None,
            },
            A::TwoResourcePoolError(e) => match e {
                TwoErr::DecimalOverflowError => Some("EDecOverflow"),
                TwoErr::ZeroPoolUnitsMinted => Some("EZeroMinted"),
                TwoErr::NonZeroPoolUnitSupplyButZeroReserves => Some("ESupplyNoReserves"),
                TwoErr::InvalidGetRedemptionAmount => Some("EInvalidRedemption"),
                TwoErr::LargerContributionRequiredToMeetRatio => Some("ELargerContribution"),
                _ => None,
            },
            A::MultiResourcePoolError(e) => match e {
                MultiErr::DecimalOverflowError => Some("EDecOverflow"),
                MultiErr::ZeroPoolUnitsMinted => Some("EZeroMinted"),
                MultiErr::NonZeroPoolUnitSupplyButZeroReserves => Some("ESupplyNoReserves"),
                MultiErr::InvalidGetRedemptionAmount => Some("EInvalidRedemption"),
                MultiErr::LargerContributionRequiredToMeetRatio => Some("ELargerContribution"),
                MultiErr::NoMinimumRatio => Some("ENoMinRatio"),
                _ => None,
            },
            A::FungibleResourceManagerError(FungibleResourceManagerError::MaxMintAmountExceeded) => Some("EMaxMint"),
            A::FungibleResourceManagerError(_) => Some("EResourceManager"),
            A::VaultError(_) => Some("EVault"),
            A::BucketError(_) => Some("EBucket"),
            _ => None,
        },
        _ => None,
    }
}

struct Snapshot {
    s: BigInt,
    r: Vec<BigInt>,
    acc_units: BigInt,
    acc: Vec<BigInt>,
}
fn snapshot(w: &mut World, p: &PoolCtx) -> Snapshot {
    Snapshot {
        s: big(w.ledger.get_fungible_resource_total_supply(p.unit)),
        r: p.res.iter().map(|r| big(w.ledger.get_component_balance(p.pool, *r))).collect(),
        acc_units: big(w.ledger.get_component_balance(w.account, p.unit)),
        acc: p.res.iter().map(|r| big(w.ledger.get_component_balance(w.account, *r))).collect(),
    }
}

/// runs one operation; returns the canonical outcome, or an explanation when the transaction did
/// something the harness has no canonical form for (reported as an oracle failure)
fn run_op(w: &mut World, p: &PoolCtx, op: &Op, before: &Snapshot) -> (Out, Snapshot, Option<String>) {
    let account = w.account;
    let mut b = ManifestBuilder::new().lock_fee_from_faucet();
    let mut n_instr_before_call = 1usize;
    match op {
        Op::Contribute(cs) => {
            for (i, c) in cs.iter().enumerate() {
                let chunks = {
                    let lim = floor_to(&max_mint(), &step_of(p.divs[i]));
                    if c.is_zero() { 0 } else { ((c + &lim - BigInt::one()) / &lim).to_string().parse::<usize>().unwrap() }
                };
                n_instr_before_call += chunks;
                b = mint_onto(b, p.res[i], c, &step_of(p.divs[i]));
            }
            match p.kind {
                Kind::One => {
                    b = b.take_all_from_worktop(p.res[0], "b0").with_name_lookup(|b, l| {
                        b.call_method(p.pool, "contribute", manifest_args!(l.bucket("b0")))
                    });
                }
                Kind::Two => {
                    b = b
                        .take_all_from_worktop(p.res[0], "b0")
                        .take_all_from_worktop(p.res[1], "b1")
                        .with_name_lookup(|b, l| {
                            b.call_method(p.pool, "contribute", manifest_args!((l.bucket("b0"), l.bucket("b1"))))
                        });
                }
                Kind::Multi => {
                    b = b.call_method(p.pool, "contribute", manifest_args!(ManifestExpression::EntireWorktop));
                }
            }
            b = b.try_deposit_entire_worktop_or_abort(account, None);
        }
        Op::Redeem(u) => {
            b = b
                .withdraw_from_account(account, p.unit, dec(u))
                .take_all_from_worktop(p.unit, "u")
                .with_name_lookup(|b, l| b.call_method(p.pool, "redeem", manifest_args!(l.bucket("u"))))
                .try_deposit_entire_worktop_or_abort(account, None);
        }
        Op::Deposit(i, a) => {
            b = mint_onto(b, p.res[*i], a, &step_of(p.divs[*i]));
            b = b
                .take_all_from_worktop(p.res[*i], "d")
                .with_name_lookup(|b, l| b.call_method(p.pool, "protected_deposit", manifest_args!(l.bucket("d"))));
        }
        Op::Withdraw(i, a, st) => {
            let ws = match st {
                0 => WithdrawStrategy::Exact,
                1 => WithdrawStrategy::Rounded(RoundingMode::ToNegativeInfinity),
                _ => WithdrawStrategy::Rounded(RoundingMode::ToPositiveInfinity),
            };
            b = match p.kind {
                Kind::One => b.call_method(p.pool, "protected_withdraw", manifest_args!(dec(a), ws)),
                _ => b.call_method(p.pool, "protected_withdraw", manifest_args!(p.res[*i], dec(a), ws)),
            };
            b = b.try_deposit_entire_worktop_or_abort(account, None);
        }
        Op::GetRedemption(u) => {
            b = b.call_method(p.pool, "get_redemption_value", manifest_args!(dec(u)));
        }
    }
    let manifest = b.build();
    let receipt = match catch(std::panic::AssertUnwindSafe(|| w.exec(manifest))) {
        Ok(r) => r,
        Err(msg) => {
            let after = snapshot(w, p);
            return (Out::Panic, after, Some(format!("transaction execution panicked: {}", msg)));
        }
    };
    let after = snapshot(w, p);
    match &receipt.result {
        TransactionResult::Commit(c) => match &c.outcome {
            TransactionOutcome::Success(_) => {
                let out = match op {
                    Op::Contribute(_) => Out::Contrib(
                        &after.acc_units - &before.acc_units,
                        after.r.iter().zip(before.r.iter()).map(|(a, b)| a - b).collect(),
                    ),
                    Op::Redeem(_) => Out::Redeem(after.acc.iter().zip(before.acc.iter()).map(|(a, b)| a - b).collect()),
                    Op::Deposit(..) => Out::Unit,
                    Op::Withdraw(i, ..) => Out::Withdraw(&after.acc[*i] - &before.acc[*i]),
                    Op::GetRedemption(_) => match p.kind {
                        Kind::One => Out::Value(vec![big(c.output::<Decimal>(n_instr_before_call))]),
                        _ => {
                            let m: IndexMap<ResourceAddress, Decimal> = c.output(n_instr_before_call);
                            Out::Value(p.res.iter().map(|r| big(*m.get(r).expect("resource in redemption value"))).collect())
                        }
                    },
                };
                (out, after, None)
            }
            TransactionOutcome::Failure(e) => match map_err(e) {
                Some(name) => (Out::Err(name), after, None),
                None => (Out::Panic, after, Some(format!("unexpected failure: {:?}", e))),
            },
        },
        other => (Out::Panic, after, Some(format!("transaction not committed: {:?}", other))),
    }
}

// ------------------------------------------------------------------------------------------------
// generators

fn gen_amount(rng: &mut Rng, dv: u8, hint: &BigInt) -> BigInt {
    let st = step_of(dv);
    let r = rng.below(100);
    let a: BigInt = if r < 22 {
        BigInt::from(rng.range(1, 1000)) * pow10(18)
    } else if r < 36 {
        BigInt::from(rng.range(1, 9999)) * pow10(rng.below(44) as u32)
    } else if r < 52 && hint.is_positive() {
        hint * BigInt::from(rng.range(1, 7)) / BigInt::from(rng.range(1, 7))
    } else if r < 60 && hint.is_positive() {
        hint + BigInt::from(rng.range(0, 4) as i64 - 2) * &st
    } else if r < 68 {
        BigInt::from(rng.range(1, 3)) * &st
    } else if r < 76 {
        max_mint() - BigInt::from(rng.below(3)) * &st * BigInt::from(rng.below(1000))
    } else if r < 90 {
        let bits = rng.range(1, 152);
        let mut x = BigInt::zero();
        for _ in 0..3 {
            x = (x << 64) + BigInt::from(rng.next_u64());
        }
        x & ((BigInt::one() << bits) - BigInt::one())
    } else {
        BigInt::from(rng.next_u64())
    };
    let lim = if rng.chance(1, 25) { max_mint() * BigInt::from(3u32) } else { max_mint() };
    let a = if a > lim { lim } else { a };
    let a = floor_to(&a, &st);
    if a.is_negative() { BigInt::zero() } else { a }
}

fn gen_units(rng: &mut Rng, have: &BigInt) -> BigInt {
    if !have.is_positive() {
        return BigInt::zero();
    }
    match rng.below(10) {
        0 | 1 | 2 => have.clone(),
        3 | 4 => have / BigInt::from(rng.range(2, 5)),
        5 => BigInt::one(),
        6 => have - BigInt::one(),
        7 => {
            let x = BigInt::from(rng.next_u64()) * BigInt::from(rng.next_u64());
            if &x > have { have.clone() } else { x }
        }
        _ => have * BigInt::from(rng.range(1, 99)) / BigInt::from(100u32),
    }
}

fn gen_op(rng: &mut Rng, p: &PoolCtx, st: &Snapshot, first: bool) -> Op {
    let n = p.res.len();
    let r = if first { 0 } else { rng.below(100) };
    if r < 45 {
        // contribution
        let style = rng.below(10);
        let mut cs = Vec::new();
        // a common ratio for "balanced" contributions
        let num = BigInt::from(rng.range(1, 50));
        let den = BigInt::from(rng.range(1, 50));
        for i in 0..n {
            let c = if style < 4 && st.r[i].is_positive() {
                floor_to(&(&st.r[i] * &num / &den + BigInt::from(rng.below(3)) * step_of(p.divs[i])), &step_of(p.divs[i]))
            } else if style == 9 && n > 1 && rng.chance(1, 2) {
                BigInt::zero()
            } else {
                gen_amount(rng, p.divs[i], &st.r[i])
            };
            let lim = max_mint() * BigInt::from(3u32);
            cs.push(if c > lim { floor_to(&lim, &step_of(p.divs[i])) } else { c });
        }
        if p.kind == Kind::One && rng.chance(1, 40) {
            cs[0] = BigInt::zero();
        }
        Op::Contribute(cs)
    } else if r < 70 {
        if st.acc_units.is_positive() {
            Op::Redeem(gen_units(rng, &st.acc_units))
        } else {
            Op::GetRedemption(BigInt::from(rng.range(0, 5)))
        }
    } else if r < 80 {
        let i = rng.usize_below(n);
        Op::Deposit(i, gen_amount(rng, p.divs[i], &st.r[i]))
    } else if r < 90 {
        let i = rng.usize_below(n);
        let stp = step_of(p.divs[i]);
        let k = rng.below(10);
        let a = if k < 5 {
            floor_to(&(&st.r[i] * BigInt::from(rng.range(1, 100)) / BigInt::from(100u32)), &stp)
        } else if k < 7 {
            st.r[i].clone()
        } else if k < 8 {
            &st.r[i] + &stp
        } else if k < 9 {
            // not a multiple of the step (unless divisibility 18)
            &st.r[i] / BigInt::from(3u32) + BigInt::one()
        } else {
            -BigInt::from(rng.range(0, 5)) * &stp
        };
        Op::Withdraw(i, a, rng.below(3) as u8)
    } else {
        let k = rng.below(10);
        let u = if k < 6 {
            gen_units(rng, &st.s)
        } else if k < 8 {
            &st.s + BigInt::one()
        } else if k < 9 {
            BigInt::zero()
        } else {
            -BigInt::one()
        };
        Op::GetRedemption(u)
    }
}

// ------------------------------------------------------------------------------------------------
// Coq printing

fn zs(l: &[BigInt]) -> String {
    coq_list(l.iter().map(|x| coq_zb(x)))
}
fn coq_zb(x: &BigInt) -> String {
    if x.is_negative() { format!("({})", x) } else { format!("{}", x) }
}
fn op_coq(op: &Op) -> String {
    match op {
        Op::Contribute(cs) => format!("OContribute {}", zs(cs)),
        Op::Redeem(u) => format!("ORedeem {}", coq_zb(u)),
        Op::Deposit(i, a) => format!("ODeposit {} {}", i, coq_zb(a)),
        Op::Withdraw(i, a, s) => format!("OWithdraw {} {} {}", i, coq_zb(a), ["WExact", "WDown", "WUp"][*s as usize]),
        Op::GetRedemption(u) => format!("OGetRedemption {}", coq_zb(u)),
    }
}
fn out_coq(o: &Out) -> String {
    match o {
        Out::Contrib(m, t) => format!("OutContrib {} {}", coq_zb(m), zs(t)),
        Out::Redeem(o) => format!("OutRedeem {}", zs(o)),
        Out::Unit => "OutUnit".into(),
        Out::Withdraw(a) => format!("OutWithdraw {}", coq_zb(a)),
        Out::Value(o) => format!("OutValue {}", zs(o)),
        Out::Err(e) => format!("OutErr {}", e),
        Out::Panic => "OutPanic".into(),
    }
}

/// an operation of a deterministic boundary script; amounts may refer to the state at run time
#[derive(Clone, Debug)]
enum SOp {
    Lit(Op),
    /// redeem supply * num / den + delta attos (of the account's units = the whole supply)
    RedeemFrac(u64, u64, i64),
    /// get_redemption_value(supply * num / den + delta attos)
    GetFrac(u64, u64, i64),
    /// protected_withdraw(resource, reserve * num / den + delta attos, strategy)
    WithdrawFrac(usize, u64, u64, i64, u8),
    /// contribute reserve_i * num_i / den_i + delta_i attos per resource
    ContributeRel(Vec<(u64, u64, i64)>),
}
fn resolve(sop: &SOp, st: &Snapshot) -> Op {
    let frac = |b: &BigInt, n: u64, d: u64, delta: i64| b * BigInt::from(n) / BigInt::from(d) + BigInt::from(delta);
    match sop {
        SOp::Lit(o) => o.clone(),
        SOp::RedeemFrac(n, d, delta) => Op::Redeem(frac(&st.s, *n, *d, *delta)),
        SOp::GetFrac(n, d, delta) => Op::GetRedemption(frac(&st.s, *n, *d, *delta)),
        SOp::WithdrawFrac(i, n, d, delta, strat) => Op::Withdraw(*i, frac(&st.r[*i], *n, *d, *delta), *strat),
        SOp::ContributeRel(v) => Op::Contribute(v.iter().enumerate().map(|(i, (n, d, delta))| frac(&st.r[i], *n, *d, *delta)).collect()),
    }
}

struct CaseResult {
    index: usize,
    coq: String,
    canon: String,
    nontrivial: bool,
    counts: Vec<(String, u64)>,
    failures: Vec<(String, serde_json::Value)>,
    sample: serde_json::Value,
}

fn run_case(w: &mut World, root: &Rng, index: usize, thorough: bool, script: Option<(&'static str, Kind, Vec<u8>, Vec<SOp>)>) -> CaseResult {
    let mut rng = root.fork(index as u64);
    let kind = match rng.below(10) {
        0 | 1 | 2 => Kind::One,
        3 | 4 | 5 | 6 => Kind::Two,
        _ => Kind::Multi,
    };
    let n = match kind {
        Kind::One => 1,
        Kind::Two => 2,
        Kind::Multi => rng.range(1, 4) as usize,
    };
    let mut divs: Vec<u8> = (0..n)
        .map(|_| if rng.chance(1, 8) { *rng.pick(&[1u8, 6, 9, 17]) } else { *rng.pick(&[0u8, 2, 18]) })
        .collect();
    let (kind, n, mut divs) = match &script {
        Some((_, k, d, _)) => (*k, d.len(), d.clone()),
        None => (kind, n, divs.clone()),
    };
    let _ = n;
    let script_name: Option<&'static str> = script.as_ref().map(|x| x.0);
    let mut scripted: std::collections::VecDeque<SOp> = script.map(|(_, _, _, ops)| ops.into()).unwrap_or_default();
    let is_scripted = script_name.is_some();
    let mut used: BTreeMap<u8, usize> = BTreeMap::new();
    let mut res: Vec<ResourceAddress> = divs
        .iter()
        .map(|d| {
            let k = *used.get(d).unwrap_or(&0);
            used.insert(*d, k + 1);
            w.resource(*d, k)
        })
        .collect();
    if kind == Kind::Two && is_scripted && res[0] < res[1] {
        // scripts fix which divisibility the blueprint's "resource 1" (greater address) has: look for
        // (or create) a resource of divisibility divs[0] whose address is greater than res[1]
        let mut k = 0;
        loop {
            let cand = w.resource(divs[0], k);
            if cand != res[1] && cand > res[1] {
                res[0] = cand;
                break;
            }
            k += 1;
            assert!(k < 64, "no resource with a greater address found");
        }
    }
    if kind == Kind::Two && res[0] < res[1] {
        // the blueprint calls the resource with the greater address "1": report it first
        res.swap(0, 1);
        divs.swap(0, 1);
    }
    let (pool, unit) = instantiate(w, kind, &res);
    let p = PoolCtx { kind, pool, unit, res, divs };
    let len = if is_scripted { scripted.len() } else if thorough { rng.range(6, 22) as usize } else { rng.range(5, 14) as usize };
    let mut steps: Vec<(Op, Out, Snapshot)> = Vec::new();
    let mut failures = Vec::new();
    let mut counts: BTreeMap<String, u64> = BTreeMap::new();
    let mut cnt = |k: &str| {
        *counts.entry(k.to_string()).or_insert(0) += 1;
        if is_scripted {
            // the deterministic boundary family has its own counters (floors are put on these)
            *counts.entry(format!("bnd_{}", k)).or_insert(0) += 1;
        }
    };
    if let Some(name) = script_name {
        cnt(&format!("script_{}", name));
    }
    let mut st = snapshot(w, &p);
    let mut pending: Option<Op> = None;
    let mut i = 0;
    let mut ok_contrib_ratio = false;
    let mut ok_redeem = false;
    while (if is_scripted { !scripted.is_empty() } else { i < len }) || pending.is_some() {
        let forced = pending.is_some();
        let op = match pending.take() {
            Some(o) => o,
            None if is_scripted => match resolve(&scripted.pop_front().expect("scripted op"), &st) {
                // bucket amounts are multiples of the resource's step
                Op::Contribute(cs) => Op::Contribute(cs.iter().enumerate().map(|(j, c)| floor_to(c, &step_of(p.divs[j]))).collect()),
                o => o,
            },
            None => {
                let first = i == 0 && rng.chance(4, 5);
                gen_op(&mut rng, &p, &st, first)
            }
        };
        i += 1;
        let (out, after, unexpected) = run_op(w, &p, &op, &st);
        if let Some(what) = unexpected {
            failures.push((format!("step {}: {}", steps.len(), what), json!({"op": op_coq(&op)})));
        }
        // ---- direct oracle ----
        let stepno = steps.len();
        let mut fail = |what: String| failures.push((format!("step {}: {}", stepno, what), json!({"op": op_coq(&op), "out": out_coq(&out), "S_before": st.s.to_string(), "R_before": st.r.iter().map(|x| x.to_string()).collect::<Vec<_>>(), "divs": p.divs.clone(), "kind": format!("{:?}", kind)})));
        for r in after.r.iter() {
            if r.is_negative() {
                fail("negative reserve".into());
            }
        }
        match (&op, &out) {
            (Op::Contribute(cs), Out::Contrib(m, taken)) => {
                cnt("contribute_ok");
                if st.s.is_positive() {
                    cnt("contribute_ok_existing_pool");
                    if st.r.iter().any(|r| r.is_zero()) {
                        cnt("contribute_ok_with_a_zero_reserve");
                    }
                    for j in 0..cs.len() {
                        if p.divs[j] < 18 && taken[j] < cs[j] {
                            cnt(&format!("change_returned_at_divisibility_{}", p.divs[j]));
                        }
                    }
                    ok_contrib_ratio = true;
                } else {
                    cnt("contribute_ok_new_pool");
                }
                if !m.is_positive() {
                    fail("contribution minted no pool units".into());
                }
                if cs.iter().all(|c| c.is_zero()) {
                    // multi-resource pool without units: the empty geometric mean is ONE (see Props/C41.v)
                    cnt("empty_contribution_minted_pool_units");
                }
                if &(&after.s - &st.s) != m {
                    fail("minted units differ from supply change".into());
                }
                let mut any_change = false;
                for j in 0..cs.len() {
                    let change = &after.acc[j] - &st.acc[j];
                    if &(&taken[j] + &change) != &cs[j] {
                        fail(format!("resource {}: provided {} != taken {} + change {}", j, cs[j], taken[j], change));
                    }
                    if taken[j].is_negative() || taken[j] > cs[j] {
                        fail(format!("resource {}: taken {} outside [0, provided {}]", j, taken[j], cs[j]));
                    }
                    if change.is_positive() {
                        any_change = true;
                    }
                    if !(&taken[j] % step_of(p.divs[j])).is_zero() {
                        fail(format!("resource {}: taken {} not a multiple of the step", j, taken[j]));
                    }
                }
                if any_change {
                    cnt("contribute_with_change");
                }
                if st.s.is_positive() {
                    // taken_j <= kmin * R_j with kmin = min_i c_i / R_i over non-empty reserves, exactly:
                    // taken_j * R_i <= c_i * R_j for all i with R_i > 0
                    for j in 0..cs.len() {
                        for i2 in 0..cs.len() {
                            if i2 == j || !st.r[i2].is_positive() {
                                continue;
                            }
                            // exact ratio: taken_j / R_j <= c_i / R_i. The blueprints compute ratios with 36
                            // decimal places, so the amount taken may exceed the exact ratio by the precision
                            // slack R_j/10^36 + R_j/(R_i*10^18) (in attos); beyond that it is a failure.
                            if &taken[j] * &st.r[i2] > &cs[i2] * &st.r[j] {
                                let lhs = &taken[j] * &st.r[i2] * pow10(36);
                                let rhs = &cs[i2] * &st.r[j] * pow10(36) + &st.r[j] * pow10(18) + &st.r[j] * &st.r[i2];
                                if lhs > rhs || p.kind == Kind::Multi {
                                    fail(format!("resource {}: taken {} exceeds the ratio set by resource {}", j, taken[j], i2));
                                } else {
                                    cnt("ratio_exceeded_within_36_digit_precision");
                                }
                            }
                        }
                    }
                } else {
                    for j in 0..cs.len() {
                        if taken[j] != cs[j] {
                            fail(format!("new pool: resource {} not taken in full", j));
                        }
                    }
                }
                // follow-up: what would the minted units redeem for right now?
                pending = Some(Op::GetRedemption(m.clone()));
            }
            (Op::GetRedemption(u), Out::Value(owed)) | (Op::Redeem(u), Out::Redeem(owed)) => {
                let is_redeem = matches!(op, Op::Redeem(_));
                cnt(if is_redeem { "redeem_ok" } else { "get_redemption_ok" });
                if u == &st.s {
                    cnt(if is_redeem { "redeem_of_entire_supply" } else { "get_redemption_of_entire_supply" });
                }
                for j in 0..owed.len() {
                    if p.divs[j] < 18 && st.s.is_positive() && owed[j] < u * &st.r[j] / &st.s {
                        cnt(&format!("owed_rounded_down_at_divisibility_{}", p.divs[j]));
                    }
                }
                if is_redeem {
                    ok_redeem = true;
                    if &(&st.s - &after.s) != u {
                        fail("burned units differ from supply change".into());
                    }
                }
                for j in 0..owed.len() {
                    if owed[j].is_negative() {
                        fail(format!("resource {}: negative amount owed", j));
                    }
                    if &owed[j] * &st.s > u * &st.r[j] {
                        fail(format!("resource {}: owed {} exceeds pro-rata share of units {}", j, owed[j], u));
                    }
                    if !(&owed[j] % step_of(p.divs[j])).is_zero() {
                        fail(format!("resource {}: owed {} not a multiple of the step", j, owed[j]));
                    }
                    if owed[j] > st.r[j] {
                        fail(format!("resource {}: owed {} exceeds reserves", j, owed[j]));
                    }
                    if is_redeem && &(&st.r[j] - &after.r[j]) != &owed[j] {
                        fail(format!("resource {}: paid amount differs from reserve change", j));
                    }
                    if owed[j].is_positive() && owed[j] < st.r[j] {
                        cnt("owed_strictly_between_0_and_reserve");
                    }
                }
                if forced && !is_redeem {
                    // round trip of the contribution made in the previous step
                    if let Some((Op::Contribute(_), Out::Contrib(m, taken), prev)) = steps.last().map(|(a, b, c)| (a.clone(), b.clone(), c)) {
                        let _ = prev;
                        if &m == u {
                            let before_contrib_s = &st.s - &m;
                            let had_reserves = steps.len() >= 1 && {
                                // reserves before the contribution = reserves now - taken
                                st.r.iter().zip(taken.iter()).any(|(r, t)| (r - t).is_positive())
                            };
                            let unowned = before_contrib_s.is_zero() && had_reserves;
                            for j in 0..owed.len() {
                                if owed[j] > taken[j] {
                                    if unowned {
                                        cnt("unowned_reserves_claimed_by_first_contributor");
                                    } else {
                                        fail(format!("round trip gain on resource {}: contributed {} redeemable {}", j, taken[j], owed[j]));
                                    }
                                }
                            }
                            cnt("round_trips_checked");
                            if owed.iter().zip(taken.iter()).any(|(o, t)| o < t) {
                                cnt("round_trips_with_rounding_loss");
                            }
                        }
                    }
                }
            }
            (Op::Deposit(i2, a), Out::Unit) => {
                cnt("deposit_ok");
                if &(&after.r[*i2] - &st.r[*i2]) != a {
                    fail("deposit amount differs from reserve change".into());
                }
            }
            (Op::Withdraw(i2, a, strat), Out::Withdraw(t)) => {
                cnt("withdraw_ok");
                if t != a {
                    cnt(if *strat == 1 { "withdraw_rounded_down" } else { "withdraw_rounded_up" });
                }
                if t == &st.r[*i2] {
                    cnt("withdraw_of_entire_reserve");
                }
                if &(&st.r[*i2] - &after.r[*i2]) != t {
                    fail("withdrawn amount differs from reserve change".into());
                }
            }
            (_, Out::Err(e)) => {
                cnt(&format!("err_{}", e));
                if after.s != st.s || after.r != st.r {
                    fail("failed transaction changed the pool".into());
                }
            }
            (_, Out::Panic) => cnt("unexpected"),
            _ => fail("output kind mismatch".into()),
        }
        cnt(match p.kind {
            Kind::One => "ops_one",
            Kind::Two => "ops_two",
            Kind::Multi => "ops_multi",
        });
        let snap_for_case = Snapshot { s: after.s.clone(), r: after.r.clone(), acc_units: after.acc_units.clone(), acc: after.acc.clone() };
        steps.push((op, out, snap_for_case));
        st = after;
    }
    let obs = coq_list(steps.iter().map(|(op, out, s)| format!("({}, {}, ({}, {}))", op_coq(op), out_coq(out), coq_zb(&s.s), zs(&s.r))));
    let kind_s = match kind {
        Kind::One => "KOne",
        Kind::Two => "KTwo",
        Kind::Multi => "KMulti",
    };
    let divs_s = coq_list(p.divs.iter().map(|d| d.to_string()));
    let coq = format!("(({}, {}, {}))%Z", kind_s, divs_s, obs);
    let canon = format!("{} {} {}", kind_s, divs_s, steps.iter().map(|(op, _, _)| op_coq(op)).collect::<Vec<_>>().join(";"));
    let sample = json!({"kind": kind_s, "divs": p.divs, "steps": steps.iter().take(8).map(|(op, out, s)| json!({"op": op_coq(op), "out": out_coq(out), "S": s.s.to_string(), "R": s.r.iter().map(|x| x.to_string()).collect::<Vec<_>>()})).collect::<Vec<_>>()});
    CaseResult {
        index,
        coq,
        canon,
        nontrivial: ok_contrib_ratio && ok_redeem,
        counts: counts.into_iter().collect(),
        failures,
        sample,
    }
}

/// The deterministic boundary family: every branch of contribute / redeem / get_redemption_value /
/// protected_withdraw of the three blueprints, both sides of and exactly at each comparison.
fn boundary_scripts() -> Vec<(&'static str, Kind, Vec<u8>, Vec<SOp>)> {
    use SOp::*;
    let e18 = |k: u64| BigInt::from(k) * pow10(18);
    let at = |k: i64| BigInt::from(k);
    let c = |v: Vec<BigInt>| Lit(Op::Contribute(v));
    let dep = |i: usize, a: BigInt| Lit(Op::Deposit(i, a));
    let get = |a: BigInt| Lit(Op::GetRedemption(a));
    let mm = max_mint();
    let big_x = BigInt::from_str("43640360518335793289675144805308907827152616").unwrap();
    vec![
        // one-resource pool, divisibility 18: the four (units, reserves) states, empty bucket, zero
        // units minted, redemption of the entire supply and of all but one atto, quotes at 0 / <0 / S / S+1
        ("one_states_18", Kind::One, vec![18], vec![
            c(vec![at(0)]), c(vec![e18(100)]), get(at(0)), get(at(-1)), GetFrac(1, 1, 0), GetFrac(1, 1, 1), GetFrac(1, 1, -1),
            RedeemFrac(1, 1, -1), c(vec![e18(7)]), RedeemFrac(1, 3, 0), RedeemFrac(1, 1, 0),
            dep(0, e18(5)), c(vec![e18(1)]), WithdrawFrac(0, 1, 1, 0, 0), c(vec![e18(1)]), RedeemFrac(1, 2, 0),
            dep(0, mm.clone()), c(vec![at(1)]), c(vec![e18(1)]), RedeemFrac(1, 1, 0),
        ]),
        // overflow of contribution / reserves, and the mint limit at 2^152 - 1 / 2^152 / 2^152 + 1 attos
        ("one_overflow_and_mint_limit", Kind::One, vec![18], vec![
            c(vec![&mm + at(1)]), c(vec![mm.clone()]), RedeemFrac(1, 1, 0), c(vec![&mm - at(1)]), RedeemFrac(1, 1, 0),
            c(vec![at(1)]), c(vec![mm.clone()]), c(vec![at(1)]), RedeemFrac(1, 1, 0),
        ]),
        // divisibility 2: rounding of owed amounts and of withdrawals, zero owed, withdraw at balance / balance + step / negative / 0
        ("one_rounding_2", Kind::One, vec![2], vec![
            c(vec![e18(100)]), dep(0, pow10(16)), RedeemFrac(1, 3, 0), GetFrac(1, 7, 0), Lit(Op::Redeem(at(1))), Lit(Op::Redeem(pow10(14))),
            WithdrawFrac(0, 1, 3, 1, 0), WithdrawFrac(0, 1, 3, 1, 1), WithdrawFrac(0, 1, 3, 1, 2), Lit(Op::Withdraw(0, at(0), 0)), Lit(Op::Withdraw(0, -pow10(16), 0)),
            Lit(Op::Withdraw(0, at(1), 2)), Lit(Op::Withdraw(0, at(1), 1)),
            WithdrawFrac(0, 1, 1, 10_000_000_000_000_000, 0), WithdrawFrac(0, 1, 1, 1, 2), WithdrawFrac(0, 1, 1, 0, 0), RedeemFrac(1, 2, 0),
        ]),
        ("one_rounding_0", Kind::One, vec![0], vec![
            c(vec![e18(10)]), dep(0, e18(1)), RedeemFrac(1, 4, 0), GetFrac(1, 3, 0), Lit(Op::Redeem(pow10(17))), RedeemFrac(1, 1, -1), RedeemFrac(1, 1, 0),
        ]),
        // two-resource pool without units: both empty, one empty (either side), both present (square roots, rounding up)
        ("two_new_pool", Kind::Two, vec![18, 2], vec![
            c(vec![at(0), at(0)]), c(vec![e18(4), at(0)]), RedeemFrac(1, 1, 0), c(vec![at(0), e18(9)]), RedeemFrac(1, 1, 0),
            c(vec![e18(4), e18(9)]), RedeemFrac(1, 1, 0), c(vec![e18(2), e18(3)]), GetFrac(1, 1, 0), RedeemFrac(1, 2, 0), RedeemFrac(1, 1, 0),
            dep(1, e18(1)), c(vec![e18(2), e18(3)]), RedeemFrac(1, 1, 0),
        ]),
        // two-resource pool with units: reserve 1 empty, both empty, reserve 2 empty, normal operation with the exact
        // ratio (both candidates, tie), resource 1 limiting (first candidate only), resource 2 limiting (second only)
        ("two_reserve_states", Kind::Two, vec![18, 18], vec![
            c(vec![e18(100), e18(200)]), WithdrawFrac(0, 1, 1, 0, 0), c(vec![e18(5), e18(10)]), c(vec![e18(5), at(0)]), WithdrawFrac(1, 1, 1, 0, 0),
            c(vec![e18(5), e18(10)]), RedeemFrac(1, 10, 0), dep(0, e18(50)), c(vec![e18(5), e18(10)]), c(vec![at(0), e18(10)]), dep(1, e18(100)),
            ContributeRel(vec![(1, 10, 0), (1, 10, 0)]), ContributeRel(vec![(1, 100, 0), (1, 1, 0)]), ContributeRel(vec![(1, 1, 0), (1, 100, 0)]),
            ContributeRel(vec![(1, 3, 0), (1, 3, 1)]), ContributeRel(vec![(1, 3, 1), (1, 3, 0)]), c(vec![at(1), at(1)]), RedeemFrac(1, 1, 0),
        ]),
        // the tie between the two candidates at 36 digits with different amounts (second one is kept)
        ("two_tie_with_excess", Kind::Two, vec![0, 18], vec![
            c(vec![e18(4), big_x.clone()]), c(vec![e18(6), &big_x * at(3) / at(2) + at(1)]), c(vec![e18(6), &big_x * at(3) / at(2)]), RedeemFrac(1, 1, 0),
        ]),
        // divisibility 0 on both sides: amounts rounded to whole tokens, contribution rounded to zero
        ("two_rounding_0", Kind::Two, vec![0, 0], vec![
            c(vec![e18(10), e18(30)]), c(vec![e18(1), e18(1)]), c(vec![e18(2), e18(7)]), c(vec![e18(1), e18(3)]), c(vec![e18(3), e18(8)]),
            RedeemFrac(1, 7, 0), GetFrac(1, 3, 0), RedeemFrac(1, 1, 0),
        ]),
        // multi-resource pool without units: 0, 1, 2, 3 non-zero contributions (empty product, n-th roots)
        ("multi_new_pool", Kind::Multi, vec![18, 2, 0], vec![
            c(vec![at(0), at(0), at(0)]), c(vec![e18(1), e18(1), e18(1)]), RedeemFrac(1, 1, 0),
            c(vec![e18(8), at(0), at(0)]), RedeemFrac(1, 1, 0), c(vec![e18(4), e18(9), at(0)]), RedeemFrac(1, 1, 0),
            c(vec![e18(2), e18(4), e18(8)]), GetFrac(1, 1, 0), RedeemFrac(1, 1, 0), c(vec![e18(2), e18(3), e18(5)]), RedeemFrac(1, 1, 0),
        ]),
        // multi-resource pool with units: exact ratio (all ratios tie), first / last resource limiting, a zero
        // contribution for a resource with reserves, one reserve empty (its bucket comes back), all reserves empty
        ("multi_ratios", Kind::Multi, vec![18, 2, 0], vec![
            c(vec![e18(100), e18(200), e18(300)]), ContributeRel(vec![(1, 10, 0), (1, 10, 0), (1, 10, 0)]),
            ContributeRel(vec![(1, 20, 0), (1, 1, 0), (1, 1, 0)]), ContributeRel(vec![(1, 1, 0), (1, 1, 0), (1, 100, 0)]),
            ContributeRel(vec![(1, 10, 0), (0, 1, 0), (1, 10, 0)]), ContributeRel(vec![(1, 10, 1), (1, 10, 0), (1, 10, 0)]),
            RedeemFrac(1, 7, 0), GetFrac(1, 3, 0),
            WithdrawFrac(1, 1, 1, 0, 0), c(vec![e18(10), e18(20), e18(30)]), WithdrawFrac(0, 1, 1, 0, 0), WithdrawFrac(2, 1, 1, 0, 0),
            c(vec![e18(10), e18(20), e18(30)]), RedeemFrac(1, 2, 0), dep(2, e18(5)), c(vec![e18(10), e18(20), e18(30)]), RedeemFrac(1, 1, 0),
        ]),
        // a ratio whose computation overflows is skipped; single-resource multi pool
        ("multi_overflowing_ratio", Kind::Multi, vec![18, 18], vec![
            c(vec![at(1), e18(100)]), c(vec![mm.clone(), e18(1)]), c(vec![at(1), e18(100)]), RedeemFrac(1, 1, 0),
        ]),
        ("multi_single_resource", Kind::Multi, vec![2], vec![
            c(vec![at(0)]), RedeemFrac(1, 1, 0), c(vec![e18(3)]), c(vec![e18(1)]), RedeemFrac(1, 3, 0), RedeemFrac(1, 1, 0),
        ]),
    ]
}

fn main() {
    let args = Args::parse();
    let mut report = Report::new(
        "C41",
        args.seed,
        "random contribute/redeem/protected_deposit/protected_withdraw/get_redemption_value sequences (5..14 ops, thorough 6..22) on \
         one-/two-/multi-resource pools (1..4 resources, divisibilities mostly {0,2,18}), amounts from 1 step to 3*2^152 attos, run as \
         ledger transactions; non-trivial = at least one successful contribution to a pool that already had units and one successful \
         redemption; distinct by canonical op text",
    );
    let mut cw = CaseWriter::new("RV.Corr.C41_run RV.Model.C41_Pool", "check");
    let root = Rng::new(args.seed);
    let threads: usize = args.extra.get("threads").and_then(|s| s.parse().ok()).unwrap_or(4).max(1);
    let thorough = args.tier == "thorough";
    let cases = args.cases;
    let mut results: Vec<CaseResult> = std::thread::scope(|sc| {
        let handles: Vec<_> = (0..threads)
            .map(|t| {
                let root = root.clone();
                sc.spawn(move || {
                    let mut w = World::new();
                    let mut v = Vec::new();
                    let mut i = t;
                    while i < cases {
                        v.push(run_case(&mut w, &root, i, thorough, None));
                        i += threads;
                    }
                    if t == 0 {
                        // deterministic boundary family, identical for every seed
                        for (k, sc) in boundary_scripts().into_iter().enumerate() {
                            v.push(run_case(&mut w, &root, cases + k, thorough, Some(sc)));
                        }
                    }
                    v
                })
            })
            .collect();
        handles.into_iter().flat_map(|h| h.join().expect("worker thread")).collect()
    });
    results.sort_by_key(|r| r.index);
    for r in results {
        report.case(&r.canon, r.nontrivial);
        for (k, n) in &r.counts {
            report.count_n(k, *n);
        }
        for (what, input) in r.failures {
            report.oracle_failure(r.index, "", &what, input);
        }
        if r.index < 3 {
            report.sample(r.sample);
        }
        cw.push(r.coq);
    }
    let c = args.cases as u64;
    report.floor("contribute_ok_existing_pool", c / 4);
    report.floor("redeem_ok", c / 4);
    report.floor("round_trips_checked", c / 2);
    report.floor("owed_strictly_between_0_and_reserve", c / 4);
    report.floor("contribute_with_change", c / 8);
    report.floor("empty_contribution_minted_pool_units", 1);
    for name in boundary_scripts().iter().map(|x| x.0) {
        report.floor(&format!("bnd_script_{}", name), 1);
    }
    for k in [
        "err_EEmptyBucket", "err_EDecOverflow", "err_EZeroMinted", "err_ERedeemedZero", "err_ESupplyNoReserves", "err_ELargerContribution",
        "err_ENoMinRatio", "err_EInvalidRedemption", "err_EMaxMint", "err_EVault",
        "contribute_ok_new_pool", "contribute_ok_existing_pool", "contribute_ok_with_a_zero_reserve", "contribute_with_change",
        "unowned_reserves_claimed_by_first_contributor", "ratio_exceeded_within_36_digit_precision", "empty_contribution_minted_pool_units",
        "redeem_of_entire_supply", "get_redemption_of_entire_supply", "owed_rounded_down_at_divisibility_2", "owed_rounded_down_at_divisibility_0",
        "change_returned_at_divisibility_2", "change_returned_at_divisibility_0", "round_trips_with_rounding_loss",
        "withdraw_rounded_down", "withdraw_rounded_up", "withdraw_of_entire_reserve", "deposit_ok",
    ] {
        report.floor(&format!("bnd_{}", k), 1);
    }
    cw.write(&args.out, args.shards).unwrap();
    report.write(&args.out).unwrap();
}
