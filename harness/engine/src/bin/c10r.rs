//! C10 (rounded withdrawals) correspondence harness: `pool.protected_withdraw(amount, strategy)` on
//! one-resource pools over resources of divisibility 18, 2 and 0 calls
//! `FungibleVault::take_advanced(amount, strategy)` in the real engine, with every WithdrawStrategy
//! (Exact and the seven rounding modes).  The Coq model (Model/C10_Rounded.v `f_take_adv`, over
//! C25's model of checked_round) is evaluated on the same (balance, divisibility, strategy, amount).
//! Direct oracle: the declarative rounding (largest / smallest multiple of 10^(18-div) around the
//! amount, nearest with the mode's tie rule) in exact big-integer arithmetic; the call must take
//! exactly that amount iff it is representable, non-negative and at most the vault balance.
use num_bigint::BigInt;
use num_traits::{One, Signed, Zero};
use radix_common::prelude::*;
use radix_engine::blueprints::resource::*;
use radix_engine::errors::*;
use radix_engine::transaction::*;
use radix_engine_interface::blueprints::pool::*;
use radix_engine_interface::blueprints::resource::*;
use radix_engine_interface::prelude::*;
use radix_transactions::manifest::*;
use radix_transactions::model::*;
use radix_transactions::prelude::*;
use scrypto_test::prelude::*;
use serde_json::json;
use std::collections::BTreeSet;
use std::str::FromStr;
use vh_common::*;

const DIVS: [u8; 3] = [18, 2, 0];

fn pow10(n: u32) -> BigInt {
    BigInt::from(10u32).pow(n)
}
fn dec_of(x: &BigInt) -> Option<Decimal> {
    I192::from_str(&x.to_string()).ok().map(Decimal::from_attos)
}
fn big_of(d: Decimal) -> BigInt {
    BigInt::from_str(&d.attos().to_string()).unwrap()
}
fn floor_div(a: &BigInt, d: &BigInt) -> BigInt {
    // d > 0
    let q = a / d; // truncates toward zero
    if (a % d).is_negative() {
        q - 1
    } else {
        q
    }
}

/// the multiple of d the mode prescribes (mode 0 = Exact)
fn round_decl(mode: u8, d: &BigInt, x: &BigInt) -> BigInt {
    if mode == 0 {
        return x.clone();
    }
    let lo = floor_div(x, d) * d;
    let hi = if &lo == x { x.clone() } else { &lo + d };
    let nonneg = !x.is_negative();
    let toward_zero = if nonneg { lo.clone() } else { hi.clone() };
    let away = if nonneg { hi.clone() } else { lo.clone() };
    let even = if (floor_div(x, d) % BigInt::from(2)).is_zero() { lo.clone() } else { hi.clone() };
    let twice = (x - &lo) * 2;
    let nearest = |tie: &BigInt| -> BigInt {
        if &twice < d {
            lo.clone()
        } else if &twice > d {
            hi.clone()
        } else {
            tie.clone()
        }
    };
    match mode {
        1 => hi,
        2 => lo,
        3 => toward_zero,
        4 => away,
        5 => nearest(&toward_zero),
        6 => nearest(&away),
        _ => nearest(&even),
    }
}

fn strategy(mode: u8) -> WithdrawStrategy {
    match mode {
        0 => WithdrawStrategy::Exact,
        1 => WithdrawStrategy::Rounded(RoundingMode::ToPositiveInfinity),
        2 => WithdrawStrategy::Rounded(RoundingMode::ToNegativeInfinity),
        3 => WithdrawStrategy::Rounded(RoundingMode::ToZero),
        4 => WithdrawStrategy::Rounded(RoundingMode::AwayFromZero),
        5 => WithdrawStrategy::Rounded(RoundingMode::ToNearestMidpointTowardZero),
        6 => WithdrawStrategy::Rounded(RoundingMode::ToNearestMidpointAwayFromZero),
        _ => WithdrawStrategy::Rounded(RoundingMode::ToNearestMidpointToEven),
    }
}

#[derive(Debug, Clone, PartialEq)]
enum Out {
    Taken(BigInt),
    Err(&'static str),
    Other(String),
}

struct World {
    ledger: DefaultLedgerSimulator,
    account: ComponentAddress,
    pools: Vec<ComponentAddress>,
    vaults: Vec<NodeId>,
    balance: BigInt,
}

impl World {
    fn new() -> World {
        let mut ledger = LedgerSimulatorBuilder::new().build();
        let account = ledger.new_account_advanced(OwnerRole::Fixed(rule!(allow_all)));
        let balance = BigInt::from(1000u32) * pow10(18);
        let mut pools = Vec::new();
        let mut vaults = Vec::new();
        for div in DIVS {
            let m = ManifestBuilder::new()
                .lock_fee_from_faucet()
                .create_fungible_resource(OwnerRole::None, true, div, FungibleResourceRoles::default(), metadata!(), Some(dec_of(&balance).unwrap()))
                .try_deposit_entire_worktop_or_abort(account, None)
                .build();
            let res = ledger.execute_manifest(m, vec![]).expect_commit(true).new_resource_addresses()[0];
            let (pool, _) = ledger.create_one_resource_pool(res, rule!(allow_all));
            let m = ManifestBuilder::new()
                .lock_fee_from_faucet()
                .withdraw_from_account(account, res, dec_of(&balance).unwrap())
                .take_all_from_worktop(res, "b")
                .with_name_lookup(|b, l| b.call_method(pool, ONE_RESOURCE_POOL_CONTRIBUTE_IDENT, manifest_args!(l.bucket("b"))))
                .try_deposit_entire_worktop_or_abort(account, None)
                .build();
            ledger.execute_manifest(m, vec![]).expect_commit_success();
            vaults.push(ledger.get_component_vaults(pool, res)[0]);
            pools.push(pool);
        }
        World { ledger, account, pools, vaults, balance }
    }

    fn run(&mut self, which: usize, mode: u8, amount: &BigInt) -> Out {
        let Some(amount_dec) = dec_of(amount) else { return Out::Other("amount not a Decimal".into()) };
        let none: Option<ResourceOrNonFungible> = None;
        let instrs = vec![
            InstructionV1::CallMethod(CallMethod {
                address: ManifestGlobalAddress::Static(FAUCET.into()),
                method_name: "lock_fee".to_string(),
                args: to_manifest_value_and_unwrap!(&(Decimal::from(5000u32),)),
            }),
            InstructionV1::CallMethod(CallMethod {
                address: ManifestGlobalAddress::Static(self.pools[which].into()),
                method_name: ONE_RESOURCE_POOL_PROTECTED_WITHDRAW_IDENT.to_string(),
                args: to_manifest_value_and_unwrap!(&(amount_dec, strategy(mode))),
            }),
            InstructionV1::CallMethod(CallMethod {
                address: ManifestGlobalAddress::Static(self.account.into()),
                method_name: "try_deposit_batch_or_abort".to_string(),
                args: to_manifest_value_and_unwrap!(&(ManifestExpression::EntireWorktop, none)),
            }),
        ];
        let manifest = TransactionManifestV1 { instructions: instrs, blobs: Default::default(), object_names: ManifestObjectNames::Unknown };
        let nonce = self.ledger.next_transaction_nonce();
        let executable = manifest.into_executable_with_proofs(nonce, BTreeSet::new(), self.ledger.transaction_validator()).expect("executable");
        let ledger = &mut self.ledger;
        let receipt = match catch(std::panic::AssertUnwindSafe(|| ledger.execute_transaction_no_commit(executable, ExecutionConfig::for_test_transaction()))) {
            Ok(r) => r,
            Err(_) => return Out::Err("EPanic"),
        };
        match &receipt.result {
            TransactionResult::Commit(c) => match &c.outcome {
                TransactionOutcome::Success(_) => {
                    let mut taken = BigInt::zero();
                    for (node, (_, ch)) in c.vault_balance_changes() {
                        if *node == self.vaults[which] {
                            if let BalanceChange::Fungible(x) = ch {
                                taken = -big_of(*x);
                            }
                        }
                    }
                    Out::Taken(taken)
                }
                TransactionOutcome::Failure(RuntimeError::ApplicationError(ApplicationError::VaultError(e))) => match e {
                    VaultError::InvalidAmount(_) => Out::Err("EInvalidAmount"),
                    VaultError::DecimalOverflow => Out::Err("EOverflow"),
                    VaultError::ResourceError(ResourceError::InsufficientBalance { .. }) => Out::Err("EInsufficient"),
                    other => Out::Other(format!("{:?}", other)),
                },
                TransactionOutcome::Failure(e) => Out::Other(format!("{:?}", e)),
            },
            TransactionResult::Reject(r) => Out::Other(format!("rejected {:?}", r.reason)),
            TransactionResult::Abort(a) => Out::Other(format!("aborted {:?}", a.reason)),
        }
    }
}

/// deterministic boundary amounts for a unit d and a balance b
fn boundary_amounts(d: &BigInt, b: &BigInt) -> Vec<BigInt> {
    let one = BigInt::one();
    let mut v: Vec<BigInt> = Vec::new();
    let half: BigInt = d / BigInt::from(2);
    for k in 0..4i32 {
        let base = d * k;
        v.push(base.clone());
        v.push(&base + &one);
        v.push(&base - &one);
        if half > BigInt::zero() {
            v.push(&base + &half);
            v.push(&base + &half + &one);
            v.push(&base + &half - &one);
        }
    }
    let negs: Vec<BigInt> = vec![-one.clone(), -d.clone(), -(d.clone() + one.clone()), -half.clone(), -(half.clone() + one.clone()), -(d.clone() * BigInt::from(3) / BigInt::from(2))];
    for x in negs {
        v.push(x);
    }
    for x in [b.clone(), b + &one, b - &one, b + &half, b + &half - &one, b + &half + &one, b - &half, b - &half - &one, b + d, b - d] {
        v.push(x);
    }
    let max: BigInt = BigInt::from(2u32).pow(191u32) - BigInt::one();
    let min: BigInt = -BigInt::from(2u32).pow(191u32);
    v.push(max.clone());
    v.push(&max - &one);
    v.push(&max - d);
    v.push(min.clone());
    v.push(&min + &one);
    v.push(&min + d);
    v.sort();
    v.dedup();
    v
}

fn main() {
    let args = Args::parse();
    let mut report = Report::new(
        "C10",
        args.seed,
        "pool.protected_withdraw -> vault.take_advanced for divisibility 18 / 2 / 0, every WithdrawStrategy (Exact + 7 rounding modes): \
         deterministic boundary amounts (multiples of the unit, +-1 atto, exact midpoints and +-1 atto around them for even and odd \
         multiples, negatives, the vault balance +- 1 atto / +- half a unit, Decimal::MAX / MIN neighbourhood) then random amounts; \
         non-trivial = rounding changed the amount; distinct by (divisibility, strategy, amount)",
    );
    let mut cw = CaseWriter::new("RV.Corr.C10r_run RV.Model.C10_ProofLock", "check_r");
    let root = Rng::new(args.seed);
    let mut w = World::new();
    let balance = w.balance.clone();
    let mut plan: Vec<(&'static str, usize, u8, BigInt)> = Vec::new();
    for (which, div) in DIVS.iter().enumerate() {
        let d = pow10(18 - *div as u32);
        for a in boundary_amounts(&d, &balance) {
            for mode in 0..8u8 {
                plan.push((["bnd_round_div18", "bnd_round_div2", "bnd_round_div0"][which], which, mode, a.clone()));
            }
        }
    }
    let nb = plan.len();
    for i in 0..args.cases {
        let mut rng = root.fork(i as u64);
        let which = rng.usize_below(3);
        let d = pow10(18 - DIVS[which] as u32);
        let mode = rng.below(8) as u8;
        let a = match rng.below(6) {
            0 => BigInt::from(rng.next_u64()) * BigInt::from(rng.next_u64() % 1000),
            1 => &d * BigInt::from(rng.below(1200)) + BigInt::from(rng.below(3)) - 1,
            2 => &d * BigInt::from(rng.below(1200)) + &d / 2 + BigInt::from(rng.below(3)) - 1,
            3 => -(BigInt::from(rng.next_u64() % 5_000_000_000_000_000_000u64)),
            4 => &balance - BigInt::from(rng.next_u64() % 3_000_000_000_000_000_000u64) + BigInt::from(rng.next_u64() % 3_000_000_000_000_000_000u64),
            _ => BigInt::from(rng.next_u64() % 2_000_000_000_000_000_000_000u128 as u64),
        };
        plan.push(("random_cases", which, mode, a));
    }
    for (i, (class, which, mode, a)) in plan.iter().enumerate() {
        report.count(class);
        let out = w.run(*which, *mode, a);
        let div = DIVS[*which];
        let d = pow10(18 - div as u32);
        // oracle
        let r = round_decl(*mode, &d, a);
        let max: BigInt = BigInt::from(2u32).pow(191u32) - BigInt::one();
        let min: BigInt = -BigInt::from(2u32).pow(191u32);
        let expect = if r > max || r < min {
            Out::Err("EOverflow")
        } else if r.is_negative() || !(&r % &d).is_zero() {
            Out::Err("EInvalidAmount")
        } else if r > balance {
            Out::Err("EInsufficient")
        } else {
            Out::Taken(r.clone())
        };
        let canon = format!("{}|{}|{}", div, mode, a);
        report.case(&canon, &r != a);
        report.count(match &out {
            Out::Taken(_) => "taken",
            Out::Err(e) => e,
            Out::Other(_) => "other_outcome",
        });
        let input = json!({"divisibility": div, "strategy": mode, "amount": a.to_string(), "engine": format!("{:?}", out), "expected": format!("{:?}", expect)});
        if out != expect {
            report.oracle_failure(i, "", "take_advanced did not take exactly the amount the strategy prescribes (or failed / succeeded wrongly)", input.clone());
        }
        if let Out::Other(s) = &out {
            report.notes.push(format!("case {}: unexpected outcome {}", i, s.chars().take(300).collect::<String>()));
        }
        if i < 3 {
            report.sample(input);
        }
        let res = match &out {
            Out::Taken(t) => format!("RTaken {}", coq_z(t)),
            Out::Err(e) => format!("RErr {}", e),
            Out::Other(_) => "RErr EOther".to_string(),
        };
        cw.push(format!("({}, {}, {}, {}, {})", coq_z(&balance), coq_z(div), mode, coq_z(a), res));
    }
    let _ = nb;
    for c in ["bnd_round_div18", "bnd_round_div2", "bnd_round_div0"] {
        let n = plan.iter().filter(|p| p.0 == c).count() as u64;
        report.floor(c, n);
    }
    report.floor("taken", (plan.len() as u64) / 5);
    report.floor("EInsufficient", 20);
    report.floor("EInvalidAmount", 20);
    report.floor("EOverflow", 3);
    cw.write(&args.out, args.shards).unwrap();
    report.write(&args.out).unwrap();
}
