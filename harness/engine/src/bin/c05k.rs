//! C05 kernel-level correspondence harness: a BARE `Kernel` (no system layer: a `KernelCallbackObject`
//! whose hooks all return Ok, the construction of radix-engine-tests/tests/kernel) is driven through
//! op sequences — create node (heap or global, substates holding owns / references), open / write /
//! close substate (process_substate_diff: added / removed owns and refs, heap and store device), drop,
//! pin, create_node_from (move partition = the globalize path) — and the Coq model
//! Model/C05_KernelFull.v is evaluated on the same sequences. Compared per op: Ok or the error class
//! (TakeNodeError::OwnNotFound / SubstateBorrowed, duplicate owns, RefNotFound, NonGlobalRefNotAllowed,
//! CantDropNodeInStore, PersistNodeError::{NodeBorrowed, CannotPersistPinnedNode, ContainsNonGlobalRef},
//! DropNodeError::NodeBorrowed, lock conflicts, NoWritePermission, HandleNotFound, NodeNotVisible,
//! MovePartitionError::*), after every successful op the kernel's visibility of every node, and at
//! the end the frame-owned nodes and the stored ownership / reference graph read back from the Track.
//! A sequence stops at its first rejected op (the transaction would abort there).
//! Direct oracle (no model): in the final store every internal node has exactly one stored owner, no
//! stored value references a non-global node, every owner is stored, no node is both frame-owned and
//! stored — the property's own statement on the real kernel's output.
use radix_common::prelude::*;
use radix_engine::errors::*;
use radix_engine::kernel::call_frame::*;
use radix_engine::kernel::id_allocator::IdAllocator;
use radix_engine::kernel::kernel::{Kernel, KernelBoot};
use radix_engine::kernel::kernel_api::*;
use radix_engine::kernel::kernel_callback_api::*;
use radix_engine::kernel::substate_io::SubstateDevice;
use radix_engine::track::*;
use radix_engine_interface::prelude::*;
use radix_substate_store_impls::memory_db::InMemorySubstateDatabase;
use serde_json::json;
use std::collections::{BTreeMap, BTreeSet};
use vh_common::*;

#[derive(Default)]
struct FrameData;
impl CallFrameReferences for FrameData {
    fn global_references(&self) -> Vec<NodeId> {
        vec![]
    }
    fn direct_access_references(&self) -> Vec<NodeId> {
        vec![]
    }
    fn stable_transient_references(&self) -> Vec<NodeId> {
        vec![]
    }
    fn len(&self) -> usize {
        0
    }
}

struct Cb;
macro_rules! ok_hooks {
    ($($name:ident ( $($arg:ident : $ty:ty),* ) ;)*) => {
        $(fn $name<Y: KernelInternalApi<System = Self>>($($arg: $ty,)* _api: &mut Y) -> Result<(), RuntimeError> { Ok(()) })*
    };
}
impl KernelCallbackObject for Cb {
    type LockData = ();
    type CallFrameData = FrameData;
    ok_hooks! {
        on_pin_node(_n: &NodeId);
        on_create_node(_e: CreateNodeEvent);
        on_drop_node(_e: DropNodeEvent);
        on_move_module(_e: MoveModuleEvent);
        on_open_substate(_e: OpenSubstateEvent);
        on_close_substate(_e: CloseSubstateEvent);
        on_read_substate(_e: ReadSubstateEvent);
        on_write_substate(_e: WriteSubstateEvent);
        on_set_substate(_e: SetSubstateEvent);
        on_remove_substate(_e: RemoveSubstateEvent);
        on_scan_keys(_e: ScanKeysEvent);
        on_drain_substates(_e: DrainSubstatesEvent);
        on_scan_sorted_substates(_e: ScanSortedSubstatesEvent);
        on_execution_start();
        on_execution_finish(_m: &CallFrameMessage);
        on_allocate_node_id(_e: EntityType);
        on_mark_substate_as_transient(_n: &NodeId, _p: &PartitionNumber, _k: &SubstateKey);
        on_get_stack_id();
        on_switch_stack();
        on_send_to_stack(_v: &IndexedScryptoValue);
        on_set_call_frame_data(_d: &FrameData);
        on_get_owned_nodes();
    }
    fn before_invoke<Y: KernelApi<CallbackObject = Self>>(_i: &KernelInvocation<FrameData>, _api: &mut Y) -> Result<(), RuntimeError> {
        Ok(())
    }
    fn after_invoke<Y: KernelApi<CallbackObject = Self>>(_o: &IndexedScryptoValue, _api: &mut Y) -> Result<(), RuntimeError> {
        Ok(())
    }
    fn invoke_upstream<Y: KernelApi<CallbackObject = Self>>(args: &IndexedScryptoValue, _api: &mut Y) -> Result<IndexedScryptoValue, RuntimeError> {
        Ok(args.clone())
    }
    fn auto_drop<Y: KernelApi<CallbackObject = Self>>(_nodes: Vec<NodeId>, _api: &mut Y) -> Result<(), RuntimeError> {
        Ok(())
    }
    fn on_substate_lock_fault<Y: KernelApi<CallbackObject = Self>>(_n: NodeId, _p: PartitionNumber, _k: &SubstateKey, _api: &mut Y) -> Result<bool, RuntimeError> {
        Ok(false)
    }
    fn on_drop_node_mut<Y: KernelApi<CallbackObject = Self>>(_n: &NodeId, _api: &mut Y) -> Result<(), RuntimeError> {
        Ok(())
    }
}

/// model node ids: internal nodes 0.., global nodes 1000.., ghosts (allocated, never created) 900 / 1900
#[derive(Clone, Debug, PartialEq)]
struct Val {
    owns: Vec<u64>,
    refs: Vec<u64>,
}
#[derive(Clone, Debug, PartialEq)]
enum Op {
    Create { id: u64, f0: Val, f1: Val },
    Open { node: u64, field: u8, mutable: bool },
    Write { handle: u32, val: Val },
    Close { handle: u32 },
    Drop { node: u64 },
    Pin { node: u64 },
    CreateFrom { id: u64, src: u64 },
}

fn is_global(n: u64) -> bool {
    n >= 1000
}

fn err_class(e: &RuntimeError) -> String {
    use CallFrameError as C;
    let RuntimeError::KernelError(KernelError::CallFrameError(c)) = e else {
        return format!("EOther_{}", format!("{:?}", e).chars().filter(|c| c.is_ascii_alphanumeric()).take(40).collect::<String>());
    };
    fn pse(p: &ProcessSubstateError) -> &'static str {
        match p {
            ProcessSubstateError::TakeNodeError(TakeNodeError::OwnNotFound(_)) => "EOwnNotFound",
            ProcessSubstateError::TakeNodeError(TakeNodeError::SubstateBorrowed(_)) => "ETakeBorrowed",
            ProcessSubstateError::CantDropNodeInStore(_) => "ECantDropNodeInStore",
            ProcessSubstateError::RefNotFound(_) => "ERefNotFound",
            ProcessSubstateError::RefCantBeAddedToSubstate(_) => "ERefCantBeAdded",
            ProcessSubstateError::NonGlobalRefNotAllowed(_) => "ENonGlobalRefNotAllowed",
            ProcessSubstateError::PersistNodeError(p) => persist(p),
        }
    }
    fn persist(p: &PersistNodeError) -> &'static str {
        match p {
            PersistNodeError::ContainsNonGlobalRef(_) => "EPersistNonGlobalRef",
            PersistNodeError::NodeBorrowed(_) => "EPersistNodeBorrowed",
            PersistNodeError::CannotPersistPinnedNode(_) => "EPersistPinned",
        }
    }
    match c {
        C::CreateNodeError(CreateNodeError::SubstateDiffError(_)) | C::WriteSubstateError(WriteSubstateError::SubstateDiffError(_)) => "EDupOwns".into(),
        C::CreateNodeError(CreateNodeError::ProcessSubstateError(p)) | C::WriteSubstateError(WriteSubstateError::ProcessSubstateError(p)) => pse(p).into(),
        C::DropNodeError(DropNodeError::TakeNodeError(TakeNodeError::OwnNotFound(_))) => "EOwnNotFound".into(),
        C::DropNodeError(DropNodeError::TakeNodeError(TakeNodeError::SubstateBorrowed(_))) | C::DropNodeError(DropNodeError::SubstateBorrowed(_)) => "ETakeBorrowed".into(),
        C::DropNodeError(DropNodeError::NodeBorrowed(_)) => "ENodeBorrowed".into(),
        C::DropNodeError(DropNodeError::ProcessSubstateError(p)) => pse(p).into(),
        C::OpenSubstateError(OpenSubstateError::NodeNotVisible(_)) | C::PinNodeError(PinNodeError::NodeNotVisible(_)) => "ENodeNotVisible".into(),
        C::OpenSubstateError(OpenSubstateError::SubstateLocked(..)) => "ELocked".into(),
        C::OpenSubstateError(OpenSubstateError::SubstateFault) => "ESubstateFault".into(),
        C::WriteSubstateError(WriteSubstateError::HandleNotFound(_)) | C::CloseSubstateError(CloseSubstateError::HandleNotFound(_)) => "EHandleNotFound".into(),
        C::WriteSubstateError(WriteSubstateError::NoWritePermission) => "ENoWritePermission".into(),
        C::CloseSubstateError(CloseSubstateError::SubstateBorrowed(_)) => "ECloseBorrowed".into(),
        C::MovePartitionError(m) => match m {
            MovePartitionError::NodeNotAvailable(_) => "ENodeNotVisible".into(),
            MovePartitionError::SubstateBorrowed(_) => "ETakeBorrowed".into(),
            MovePartitionError::MoveFromStoreNotPermitted => "EMoveFromStore".into(),
            MovePartitionError::NonGlobalRefNotAllowed(_) => "ENonGlobalRefNotAllowed".into(),
            MovePartitionError::PersistNodeError(p) => persist(p).into(),
            MovePartitionError::HeapRemovePartitionError(_) => "EPartitionNotFound".into(),
        },
        other => format!("EOther_{}", format!("{:?}", other).chars().filter(|c| c.is_ascii_alphanumeric()).take(40).collect::<String>()),
    }
}

#[derive(Clone, Debug)]
enum Res {
    Ok(Vec<(u64, u32)>),
    Err(String),
    Panic,
}

struct Outcome {
    results: Vec<Res>,
    /// (frame-owned nodes, stored nodes with their fields (key, owns, refs)) when every op succeeded
    fin: Option<(Vec<u64>, Vec<(u64, Vec<(u8, Vec<u64>, Vec<u64>)>)>)>,
}

fn run_ops(ops: &[Op]) -> Outcome {
    let database = InMemorySubstateDatabase::standard();
    let mut track = Track::new(&database);
    let mut id_allocator = IdAllocator::new(Hash([0u8; Hash::LENGTH]));
    let mut callback = Cb;
    let mut ids: BTreeMap<u64, NodeId> = BTreeMap::new();
    let mut results = Vec::new();
    let mut all_ok = true;
    let mut owned_final: Vec<u64> = vec![];
    {
        let init = CallFrameInit {
            data: FrameData,
            global_addresses: Default::default(),
            direct_accesses: Default::default(),
            always_visible_global_nodes: KernelBoot::babylon().always_visible_global_nodes(),
            stack_id: 0,
        };
        let mut kernel = Kernel::new(&mut track, &mut id_allocator, &mut callback, vec![init]);
        // ghosts: allocated ids of nodes that are never created
        ids.insert(900, kernel.kernel_allocate_node_id(EntityType::InternalGenericComponent).unwrap());
        ids.insert(1900, kernel.kernel_allocate_node_id(EntityType::GlobalGenericComponent).unwrap());
        let mut created: Vec<u64> = Vec::new();
        let mut handles: Vec<u32> = Vec::new();
        for op in ops {
            let mk = |ids: &BTreeMap<u64, NodeId>, v: &Val| -> IndexedScryptoValue {
                let owns: Vec<Own> = v.owns.iter().map(|n| Own(ids[n])).collect();
                let refs: Vec<Reference> = v.refs.iter().map(|n| Reference(ids[n])).collect();
                IndexedScryptoValue::from_typed(&(owns, refs))
            };
            let r: Result<Result<(), RuntimeError>, String> = catch(std::panic::AssertUnwindSafe(|| match op {
                Op::Create { id, f0, f1 } => {
                    let et = if is_global(*id) { EntityType::GlobalGenericComponent } else { EntityType::InternalGenericComponent };
                    let nid = kernel.kernel_allocate_node_id(et)?;
                    ids.insert(*id, nid);
                    let substates = btreemap!(PartitionNumber(0u8) => btreemap!(
                        SubstateKey::Field(0u8) => mk(&ids, f0),
                        SubstateKey::Field(1u8) => mk(&ids, f1)
                    ));
                    kernel.kernel_create_node(nid, substates)?;
                    created.push(*id);
                    Ok(())
                }
                Op::Open { node, field, mutable } => {
                    let flags = if *mutable { LockFlags::MUTABLE } else { LockFlags::read_only() };
                    let h = kernel.kernel_open_substate(&ids[node], PartitionNumber(0u8), &SubstateKey::Field(*field), flags, ())?;
                    handles.push(h);
                    Ok(())
                }
                Op::Write { handle, val } => kernel.kernel_write_substate(*handle, mk(&ids, val)),
                Op::Close { handle } => kernel.kernel_close_substate(*handle),
                Op::Drop { node } => kernel.kernel_drop_node(&ids[node]).map(|_| ()),
                Op::Pin { node } => kernel.kernel_pin_node(ids[node]),
                Op::CreateFrom { id, src } => {
                    let nid = kernel.kernel_allocate_node_id(EntityType::GlobalGenericComponent)?;
                    ids.insert(*id, nid);
                    created.push(*id);
                    kernel.kernel_create_node_from(nid, btreemap!(PartitionNumber(0u8) => (ids[src], PartitionNumber(0u8))))
                }
            }));
            match r {
                Ok(Ok(())) => {
                    let mut vis = Vec::new();
                    let mut all: Vec<u64> = created.clone();
                    all.push(900);
                    all.push(1900);
                    for n in all {
                        let v = kernel.kernel_get_node_visibility_uncosted(&ids[&n]);
                        let mut code = 0u32;
                        for x in &v.0 {
                            match x {
                                Visibility::StableReference(StableReferenceType::Global) => code |= 1,
                                Visibility::StableReference(StableReferenceType::DirectAccess) => code |= 64,
                                Visibility::FrameOwned => code |= 2,
                                Visibility::Borrowed(o) => {
                                    code += 4 * match o {
                                        ReferenceOrigin::FrameOwned => 1,
                                        ReferenceOrigin::Global(_) => 2,
                                        ReferenceOrigin::SubstateNonGlobalReference(SubstateDevice::Heap) => 3,
                                        ReferenceOrigin::SubstateNonGlobalReference(SubstateDevice::Store) => 4,
                                        ReferenceOrigin::DirectlyAccessed => 5,
                                    }
                                }
                            }
                        }
                        vis.push((n, code));
                    }
                    results.push(Res::Ok(vis));
                }
                Ok(Err(e)) => {
                    results.push(Res::Err(err_class(&e)));
                    all_ok = false;
                    break;
                }
                Err(_) => {
                    results.push(Res::Panic);
                    all_ok = false;
                    break;
                }
            }
        }
        if all_ok {
            let rev: BTreeMap<NodeId, u64> = ids.iter().map(|(k, v)| (*v, *k)).collect();
            owned_final = kernel.kernel_get_owned_nodes().unwrap_or_default().iter().map(|n| rev[n]).collect();
            owned_final.sort();
        }
    }
    if !all_ok {
        return Outcome { results, fin: None };
    }
    let rev: BTreeMap<NodeId, u64> = ids.iter().map(|(k, v)| (*v, *k)).collect();
    let mut stored: Vec<(u64, Vec<(u8, Vec<u64>, Vec<u64>)>)> = Vec::new();
    if let Ok((tracked, _)) = track.finalize() {
        let (_new, su) = tracked.to_state_updates();
        for (node, nsu) in &su.by_node {
            let NodeStateUpdates::Delta { by_partition } = nsu;
            let mut fields = Vec::new();
            for (_p, psu) in by_partition {
                if let PartitionStateUpdates::Delta { by_substate } = psu {
                    for (k, u) in by_substate {
                        if let (SubstateKey::Field(f), DatabaseUpdate::Set(bytes)) = (k, u) {
                            let v = IndexedScryptoValue::from_slice(bytes).unwrap();
                            fields.push((*f, v.owned_nodes().iter().map(|n| rev[n]).collect(), v.references().iter().map(|n| rev[n]).collect()));
                        }
                    }
                }
            }
            fields.sort();
            stored.push((rev[node], fields));
        }
    }
    stored.sort();
    Outcome { results, fin: Some((owned_final, stored)) }
}

// ------------------------------------------------------------------------------------------------
// Coq printing
// ------------------------------------------------------------------------------------------------
fn coq_val(v: &Val) -> String {
    format!("(mkV {} {})", coq_list(v.owns.iter().map(|n| coq_n(*n))), coq_list(v.refs.iter().map(|n| coq_n(*n))))
}
fn coq_op(o: &Op) -> String {
    match o {
        Op::Create { id, f0, f1 } => format!("KCreate2 {} {} {}", coq_n(*id), coq_val(f0), coq_val(f1)),
        Op::Open { node, field, mutable } => format!("KOpen {} {} {}", coq_n(*node), coq_n(*field), coq_bool(*mutable)),
        Op::Write { handle, val } => format!("KWrite {} {}", coq_n(*handle), coq_val(val)),
        Op::Close { handle } => format!("KClose {}", coq_n(*handle)),
        Op::Drop { node } => format!("KDrop2 {}", coq_n(*node)),
        Op::Pin { node } => format!("KPin {}", coq_n(*node)),
        Op::CreateFrom { id, src } => format!("KCreateFrom {} {}", coq_n(*id), coq_n(*src)),
    }
}
fn coq_res(r: &Res) -> String {
    match r {
        Res::Ok(v) => format!("ROk {}", coq_list(v.iter().map(|(n, c)| format!("({}, {})", coq_n(*n), coq_n(*c))))),
        Res::Err(e) => format!("RErr {}", if e.starts_with("EOther") { "EOther" } else { e.as_str() }),
        Res::Panic => "RPanic".to_string(),
    }
}
fn coq_case(ops: &[Op], out: &Outcome) -> String {
    let fin = match &out.fin {
        None => "None".to_string(),
        Some((owned, stored)) => format!(
            "(Some ({}, {}))",
            coq_list(owned.iter().map(|n| coq_n(*n))),
            coq_list(stored.iter().map(|(n, fs)| format!(
                "({}, {})",
                coq_n(*n),
                coq_list(fs.iter().map(|(k, o, r)| format!("({}, mkV {} {})", coq_n(*k), coq_list(o.iter().map(|x| coq_n(*x))), coq_list(r.iter().map(|x| coq_n(*x))))))
            )))
        ),
    };
    format!("(mkC {} {} {})", coq_list(ops.iter().map(coq_op)), coq_list(out.results.iter().map(coq_res)), fin)
}

// ------------------------------------------------------------------------------------------------
// generators
// ------------------------------------------------------------------------------------------------
fn v(owns: &[u64], refs: &[u64]) -> Val {
    Val { owns: owns.to_vec(), refs: refs.to_vec() }
}
fn e() -> Val {
    v(&[], &[])
}
fn create(id: u64, f0: Val, f1: Val) -> Op {
    Op::Create { id, f0, f1 }
}
fn leaf(id: u64) -> Op {
    create(id, e(), e())
}
fn open(node: u64, field: u8, mutable: bool) -> Op {
    Op::Open { node, field, mutable }
}
fn write(handle: u32, val: Val) -> Op {
    Op::Write { handle, val }
}

/// deterministic boundary family: (class, sequence); the class names the kernel branch it targets
fn boundary() -> Vec<(&'static str, Vec<Op>)> {
    vec![
        ("create_heap_leaf", vec![leaf(0)]),
        ("create_heap_owning_child", vec![leaf(0), create(1, v(&[0], &[]), e())]),
        ("own_of_never_created_node", vec![create(0, v(&[900], &[]), e())]),
        ("duplicate_own_in_one_value", vec![leaf(0), create(1, v(&[0, 0], &[]), e())]),
        ("same_own_in_two_fields", vec![leaf(0), create(1, v(&[0], &[]), v(&[0], &[]))]),
        ("own_of_node_owned_by_another", vec![leaf(0), create(1, v(&[0], &[]), e()), create(2, v(&[0], &[]), e())]),
        ("own_itself_impossible_then_chain", vec![leaf(0), create(1, v(&[0], &[]), e()), create(2, v(&[1], &[]), e()), create(3, v(&[2], &[]), e())]),
        ("global_owning_child", vec![leaf(0), create(1000, v(&[0], &[]), e())]),
        ("global_owning_chain", vec![leaf(0), create(1, v(&[0], &[]), e()), create(1000, v(&[1], &[]), e())]),
        ("global_with_non_global_ref", vec![leaf(0), create(1000, v(&[], &[0]), e())]),
        ("global_with_global_ref", vec![create(1000, e(), e()), create(1001, v(&[], &[1000]), e())]),
        ("global_owning_child_with_non_global_ref", vec![leaf(0), create(1, v(&[], &[0]), e()), create(1000, v(&[1], &[]), e())]),
        ("ref_to_never_created_node", vec![create(0, v(&[], &[900]), e())]),
        ("ref_to_unknown_global", vec![create(0, v(&[], &[1900]), e())]),
        ("heap_ref_then_drop_referenced", vec![leaf(0), create(1, v(&[], &[0]), e()), Op::Drop { node: 0 }]),
        ("heap_ref_then_drop_referrer_then_referenced", vec![leaf(0), create(1, v(&[], &[0]), e()), Op::Drop { node: 1 }, Op::Drop { node: 0 }]),
        ("drop_leaf", vec![leaf(0), Op::Drop { node: 0 }]),
        ("drop_twice", vec![leaf(0), Op::Drop { node: 0 }, Op::Drop { node: 0 }]),
        ("drop_parent_children_return_to_frame", vec![leaf(0), leaf(1), create(2, v(&[0], &[]), v(&[1], &[])), Op::Drop { node: 2 }, Op::Drop { node: 0 }, Op::Drop { node: 1 }]),
        ("drop_owned_child_directly", vec![leaf(0), create(1, v(&[0], &[]), e()), Op::Drop { node: 0 }]),
        ("drop_global", vec![create(1000, e(), e()), Op::Drop { node: 1000 }]),
        ("drop_never_created", vec![Op::Drop { node: 900 }]),
        ("drop_while_open", vec![leaf(0), open(0, 0, false), Op::Drop { node: 0 }]),
        ("drop_after_close", vec![leaf(0), open(0, 0, true), Op::Close { handle: 0 }, Op::Drop { node: 0 }]),
        ("write_adds_own_heap", vec![leaf(0), leaf(1), open(1, 0, true), write(0, v(&[0], &[])), Op::Close { handle: 0 }]),
        ("write_removes_own_heap", vec![leaf(0), create(1, v(&[0], &[]), e()), open(1, 0, true), write(0, e()), Op::Close { handle: 0 }, Op::Drop { node: 0 }]),
        ("write_replaces_own_heap", vec![leaf(0), leaf(2), create(1, v(&[0], &[]), e()), open(1, 0, true), write(0, v(&[2], &[])), Op::Close { handle: 0 }]),
        ("write_keeps_own", vec![leaf(0), create(1, v(&[0], &[]), e()), open(1, 0, true), write(0, v(&[0], &[])), Op::Close { handle: 0 }]),
        ("write_duplicate_owns", vec![leaf(0), leaf(1), open(1, 0, true), write(0, v(&[0, 0], &[]))]),
        ("write_own_not_in_frame", vec![leaf(1), open(1, 0, true), write(0, v(&[900], &[]))]),
        ("write_adds_own_store", vec![leaf(0), create(1000, e(), e()), open(1000, 0, true), write(0, v(&[0], &[])), Op::Close { handle: 0 }]),
        ("write_removes_own_store", vec![leaf(0), create(1000, v(&[0], &[]), e()), open(1000, 0, true), write(0, e())]),
        ("write_non_global_ref_store", vec![leaf(0), create(1000, e(), e()), open(1000, 0, true), write(0, v(&[], &[0]))]),
        ("write_global_ref_store", vec![create(1001, e(), e()), create(1000, e(), e()), open(1000, 0, true), write(0, v(&[], &[1001])), Op::Close { handle: 0 }]),
        ("write_ref_heap_then_remove", vec![leaf(0), leaf(1), open(1, 0, true), write(0, v(&[], &[0])), write(0, e()), Op::Close { handle: 0 }, Op::Drop { node: 0 }]),
        ("write_read_only_handle", vec![leaf(0), open(0, 0, false), write(0, e())]),
        ("write_unknown_handle", vec![leaf(0), write(7, e())]),
        ("close_unknown_handle", vec![Op::Close { handle: 3 }]),
        ("close_twice", vec![leaf(0), open(0, 0, false), Op::Close { handle: 0 }, Op::Close { handle: 0 }]),
        ("open_mutable_twice", vec![leaf(0), open(0, 0, true), open(0, 0, true)]),
        ("open_read_then_mutable", vec![leaf(0), open(0, 0, false), open(0, 0, true)]),
        ("open_read_twice", vec![leaf(0), open(0, 0, false), open(0, 0, false), Op::Close { handle: 0 }, Op::Close { handle: 1 }]),
        ("open_two_fields_mutable", vec![leaf(0), open(0, 0, true), open(0, 1, true)]),
        ("open_invisible_child", vec![leaf(0), create(1, v(&[0], &[]), e()), open(0, 0, false)]),
        ("open_child_through_parent", vec![leaf(0), create(1, v(&[0], &[]), e()), open(1, 0, false), open(0, 0, false), Op::Close { handle: 1 }, Op::Close { handle: 0 }]),
        ("close_parent_while_child_open", vec![leaf(0), create(1, v(&[0], &[]), e()), open(1, 0, false), open(0, 0, false), Op::Close { handle: 0 }]),
        ("open_never_created", vec![open(900, 0, false)]),
        ("open_stored_child_through_global", vec![leaf(0), create(1000, v(&[0], &[]), e()), open(1000, 0, false), open(0, 0, true), Op::Close { handle: 1 }, Op::Close { handle: 0 }]),
        ("move_locked_node_into_store", vec![leaf(0), open(0, 0, false), create(1000, v(&[0], &[]), e())]),
        ("move_locked_node_via_write", vec![leaf(0), open(0, 0, false), create(1000, e(), e()), open(1000, 0, true), write(1, v(&[0], &[]))]),
        ("own_locked_node_heap", vec![leaf(0), open(0, 0, false), create(1, v(&[0], &[]), e())]),
        ("persist_referenced_node", vec![leaf(0), create(1, v(&[], &[0]), e()), create(1000, v(&[0], &[]), e())]),
        ("persist_pinned_node", vec![leaf(0), Op::Pin { node: 0 }, create(1000, v(&[0], &[]), e())]),
        ("persist_child_of_pinned_ok", vec![leaf(0), Op::Pin { node: 0 }, create(1, v(&[0], &[]), e())]),
        ("pin_never_created", vec![Op::Pin { node: 900 }]),
        ("pin_global", vec![create(1000, e(), e()), Op::Pin { node: 1000 }]),
        ("globalize_from_heap_node_with_children", vec![leaf(0), create(1, v(&[0], &[]), e()), Op::CreateFrom { id: 1000, src: 1 }, Op::Drop { node: 1 }]),
        ("globalize_from_locked_source", vec![leaf(0), open(0, 0, false), Op::CreateFrom { id: 1000, src: 0 }]),
        ("globalize_from_source_with_non_global_ref", vec![leaf(0), create(1, v(&[], &[0]), e()), Op::CreateFrom { id: 1000, src: 1 }]),
        ("globalize_from_store_node", vec![create(1000, e(), e()), Op::CreateFrom { id: 1001, src: 1000 }]),
        ("globalize_from_same_source_twice", vec![leaf(0), Op::CreateFrom { id: 1000, src: 0 }, Op::CreateFrom { id: 1001, src: 0 }]),
        ("globalize_from_never_created", vec![Op::CreateFrom { id: 1000, src: 900 }]),
        ("globalize_from_child_with_pinned_grandchild", vec![leaf(0), Op::Pin { node: 0 }, create(1, v(&[0], &[]), e()), Op::CreateFrom { id: 1000, src: 1 }]),
        ("globalize_from_child_owning_referenced_node", vec![leaf(0), create(2, v(&[], &[0]), e()), create(1, v(&[0], &[]), e()), Op::CreateFrom { id: 1000, src: 1 }]),
        ("two_globals_second_owns_first_child_attempt", vec![leaf(0), create(1000, v(&[0], &[]), e()), create(1001, v(&[0], &[]), e())]),
        ("store_write_own_then_reopen_and_own_again", vec![leaf(0), create(1000, e(), e()), open(1000, 0, true), write(0, v(&[0], &[])), Op::Close { handle: 0 }, create(1001, v(&[0], &[]), e())]),
    ]
}

/// random sequences, mostly valid: the generator keeps an approximation of the frame (owned nodes,
/// children, open handles) so that long sequences survive; about one choice in six is deliberately wild
fn random_ops(rng: &mut Rng) -> Vec<Op> {
    let len = rng.range(4, 24) as usize;
    let mut ops = Vec::new();
    let mut owned: Vec<u64> = vec![]; // frame-owned heap nodes
    let mut all_heap: Vec<u64> = vec![];
    let mut globals: Vec<u64> = vec![];
    let mut kids: BTreeMap<u64, Vec<u64>> = BTreeMap::new();
    let mut handles: Vec<(u32, u64, bool, bool)> = vec![]; // handle, node, mutable, still open
    let mut nh = 0u32;
    let (mut ni, mut ng) = (0u64, 1000u64);
    for _ in 0..len {
        let wild = rng.chance(1, 14);
        let locked: BTreeSet<u64> = handles.iter().filter(|h| h.3).map(|h| h.1).collect();
        let free_owned: Vec<u64> = owned.iter().filter(|n| !locked.contains(n)).cloned().collect();
        let universe: Vec<u64> = all_heap.iter().chain(globals.iter()).cloned().chain([900u64, 1900u64]).collect();
        let globals_now: Vec<u64> = globals.clone();
        let any_node = |rng: &mut Rng| -> u64 { *rng.pick(&universe) };
        let mut gen_val = |rng: &mut Rng, owned: &mut Vec<u64>, take: bool, for_store: bool| -> Val {
            let mut owns = vec![];
            let mut refs = vec![];
            if wild {
                for _ in 0..rng.below(3) {
                    owns.push(any_node(rng));
                }
                for _ in 0..rng.below(3) {
                    refs.push(any_node(rng));
                }
            } else {
                let k = rng.below(3).min(free_owned.len() as u64);
                let mut cand = free_owned.clone();
                rng.shuffle(&mut cand);
                for n in cand.into_iter().take(k as usize) {
                    owns.push(n);
                    if take {
                        owned.retain(|x| *x != n);
                    }
                }
                for _ in 0..rng.below(3) {
                    if !globals_now.is_empty() && (for_store || rng.bool()) {
                        refs.push(*rng.pick(&globals_now));
                    } else if !for_store && !owned.is_empty() {
                        refs.push(*rng.pick(owned));
                    }
                }
            }
            Val { owns, refs }
        };
        let k = rng.below(100);
        let op = if k < 30 || all_heap.is_empty() {
            let global = rng.chance(1, 3);
            let id = if global { ng } else { ni };
            let f0 = gen_val(rng, &mut owned, true, global);
            let f1 = if rng.chance(1, 3) { gen_val(rng, &mut owned, true, global) } else { e() };
            let mut ch = f0.owns.clone();
            ch.extend(f1.owns.iter().cloned());
            if global {
                ng += 1;
                globals.push(id);
            } else {
                ni += 1;
                all_heap.push(id);
                owned.push(id);
                kids.insert(id, ch);
            }
            create(id, f0, f1)
        } else if k < 50 {
            let node = if wild { any_node(rng) } else if rng.chance(2, 3) && !owned.is_empty() { *rng.pick(&owned) } else if !globals_now.is_empty() { *rng.pick(&globals_now) } else { any_node(rng) };
            let mutable = rng.chance(2, 3);
            handles.push((nh, node, mutable, true));
            nh += 1;
            open(node, rng.below(2) as u8, mutable)
        } else if k < 66 {
            let open_mut: Vec<(u32, u64, bool, bool)> = handles.iter().filter(|h| h.3 && h.2).cloned().collect();
            if open_mut.is_empty() && !wild && !owned.is_empty() {
                let node = *rng.pick(&owned);
                handles.push((nh, node, true, true));
                nh += 1;
                open(node, rng.below(2) as u8, true)
            } else if wild || open_mut.is_empty() {
                write(rng.below(nh as u64 + 2) as u32, gen_val(rng, &mut owned, false, false))
            } else {
                let h = *rng.pick(&open_mut);
                let for_store = is_global(h.1);
                write(h.0, gen_val(rng, &mut owned, true, for_store))
            }
        } else if k < 80 {
            let open_h: Vec<u32> = handles.iter().filter(|h| h.3).map(|h| h.0).collect();
            if open_h.is_empty() && !wild {
                // nothing to close: create a leaf instead
                let id = ni;
                ni += 1;
                all_heap.push(id);
                owned.push(id);
                kids.insert(id, vec![]);
                ops.push(leaf(id));
                continue;
            }
            let h = if wild || open_h.is_empty() { rng.below(nh as u64 + 2) as u32 } else { *rng.pick(&open_h) };
            for x in handles.iter_mut() {
                if x.0 == h {
                    x.3 = false;
                }
            }
            Op::Close { handle: h }
        } else if k < 90 {
            let node = if wild || free_owned.is_empty() { any_node(rng) } else { *rng.pick(&free_owned) };
            if owned.contains(&node) {
                owned.retain(|x| *x != node);
                for c in kids.remove(&node).unwrap_or_default() {
                    owned.push(c);
                }
            }
            Op::Drop { node }
        } else if k < 94 {
            Op::Pin { node: if wild || owned.is_empty() { any_node(rng) } else { *rng.pick(&owned) } }
        } else {
            let id = ng;
            ng += 1;
            globals.push(id);
            Op::CreateFrom { id, src: if wild || free_owned.is_empty() { any_node(rng) } else { *rng.pick(&free_owned) } }
        };
        ops.push(op);
    }
    ops
}

fn main() {
    let args = Args::parse();
    let mut report = Report::new(
        "C05",
        args.seed,
        "op sequences on a bare Kernel (create / open / write / close / drop / pin / create_node_from), deterministic boundary family first \
         (one sequence per rejection branch, identical for every seed), then random sequences of 3..14 ops; non-trivial = at least two ops \
         ran; distinct by the op list",
    );
    let mut cw = CaseWriter::new("RV.Corr.C05k_run RV.Model.C05_KernelFull", "check");
    let root = Rng::new(args.seed);
    let fam = boundary();
    let nb = fam.len();
    for i in 0..(nb + args.cases) {
        let (class, ops) = if i < nb { (fam[i].0, fam[i].1.clone()) } else { ("random", random_ops(&mut root.fork(i as u64))) };
        report.count(&format!("k_{}", class));
        let out = run_ops(&ops);
        let last = out.results.last();
        match last {
            Some(Res::Err(e)) => report.count(&format!("stop_{}", if e.starts_with("EOther") { "EOther" } else { e.as_str() })),
            Some(Res::Panic) => report.count("stop_panic"),
            _ => report.count("all_ops_ok"),
        }
        let input = json!({"index": i, "class": class, "seed": args.seed, "ops": format!("{:?}", ops)});
        if let Some(Res::Err(e)) = last {
            if e.starts_with("EOther") {
                report.notes.push(format!("case {}: unclassified error {}", i, e));
            }
        }
        if matches!(last, Some(Res::Panic)) {
            report.oracle_failure(i, "", "the kernel panicked on an op sequence (every misuse must be an error value)", input.clone());
        }
        // direct oracle on the kernel's own final state
        if let Some((owned, stored)) = &out.fin {
            let mut bad = Vec::new();
            // heap nodes whose only partition was moved out by create_node_from: the kernel lets such an
            // emptied shell be owned and persisted (it has no substate, so the Track shows nothing for it);
            // the system layer always drops the shell right after globalizing, so this is counted, not flagged
            let shells: BTreeSet<u64> = ops.iter().filter_map(|o| if let Op::CreateFrom { src, .. } = o { Some(*src) } else { None }).collect();
            let stored_ids: BTreeSet<u64> = stored.iter().map(|(n, _)| *n).collect();
            let mut owner: BTreeMap<u64, Vec<u64>> = BTreeMap::new();
            for (n, fs) in stored {
                for (_, owns, refs) in fs {
                    for o in owns {
                        owner.entry(*o).or_default().push(*n);
                        if !stored_ids.contains(o) {
                            if shells.contains(o) {
                                report.count("emptied_shell_node_persisted");
                            } else {
                                bad.push(format!("stored node {} owns node {} which is not stored", n, o));
                            }
                        }
                    }
                    for r in refs {
                        if !is_global(*r) {
                            bad.push(format!("stored node {} references the non-global node {}", n, r));
                        }
                    }
                }
            }
            for n in &stored_ids {
                let k = owner.get(n).map(|v| v.len()).unwrap_or(0);
                if is_global(*n) && k != 0 {
                    bad.push(format!("global node {} has an owner", n));
                }
                if !is_global(*n) && k != 1 {
                    bad.push(format!("stored internal node {} has {} owners", n, k));
                }
                if owned.contains(n) {
                    bad.push(format!("node {} is stored and frame-owned", n));
                }
            }
            if !bad.is_empty() {
                report.oracle_failure(i, "", &format!("the kernel produced a malformed store: {}", bad.join("; ")), input);
            }
            report.count("final_store_checked");
        }
        report.case(&format!("{:?}", ops), out.results.len() >= 2);
        cw.push(coq_case(&ops, &out));
    }
    let mut per: BTreeMap<&'static str, u64> = BTreeMap::new();
    for (c, _) in &fam {
        *per.entry(*c).or_default() += 1;
    }
    for (c, k) in per {
        report.floor(&format!("k_{}", c), k);
    }
    for e in [
        "EOwnNotFound", "ETakeBorrowed", "EDupOwns", "ERefNotFound", "ENonGlobalRefNotAllowed", "ECantDropNodeInStore", "EPersistNonGlobalRef", "EPersistNodeBorrowed", "EPersistPinned",
        "ENodeBorrowed", "ENodeNotVisible", "ELocked", "EHandleNotFound", "ENoWritePermission", "ECloseBorrowed", "EMoveFromStore", "EPartitionNotFound",
    ] {
        report.floor(&format!("stop_{}", e), 1);
    }
    report.floor("all_ops_ok", 10);
    report.floor("final_store_checked", 10);
    cw.write(&args.out, args.shards).unwrap();
    report.write(&args.out).unwrap();
}
