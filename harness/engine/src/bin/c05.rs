//! C05 harness: the stored ledger is always well-formed.
//!
//! Random histories (`vh_engine::histories`; `--cases` = number of transactions, histories of ~40
//! on fresh ledgers). After every commit the repository's whole-database checkers are run on the
//! full database (under catch_unwind: the checkers report most violations by panicking):
//!   * KernelDatabaseChecker     — every internal node has exactly one owner, owners exist, every
//!                                  node has a type-info substate, references point to global nodes;
//!   * SystemDatabaseChecker     — every stored field / collection entry conforms to the schema
//!                                  declared by its blueprint or key-value store, entity type matches
//!                                  the blueprint, features / outer objects / partitions consistent;
//!   * ResourceDatabaseChecker   — supplies vs vault sums, vault indices (application layer);
//!   * RoleAssignmentDatabaseChecker — stored access rules / role keys are valid.
//! Direct oracle = "all four checkers accept the database". Additionally the harness checks with
//! its own scan that every vault's outer object is a stored resource manager of the right kind.
//! The ownership mechanism itself is the Coq model Model/C05_Kernel.v (theorem C05_ownership_forest);
//! there are no per-case model evaluations for this property (the kernel has no stand-alone public
//! driver); the case written per history is the final (stored node, owner) relation extracted from
//! the database, which `Corr/C05_run.check` tests for being a forest in the model's sense.
use radix_common::prelude::*;
use radix_engine::system::checkers::*;
use radix_engine::system::system_db_reader::SystemDatabaseReader;
use radix_engine::system::type_info::TypeInfoSubstate;
use radix_engine::transaction::*;
use radix_engine_interface::prelude::*;
use radix_substate_store_interface::interface::*;
use serde_json::json;
use std::collections::{BTreeMap, BTreeSet};
use vh_common::*;
use vh_engine::histories::*;

fn run_checkers(world: &World) -> Vec<String> {
    let mut bad = Vec::new();
    let db = world.db();
    match catch(std::panic::AssertUnwindSafe(|| KernelDatabaseChecker::new().check_db(db))) {
        Ok(Ok(())) => {}
        Ok(Err(e)) => bad.push(format!("KernelDatabaseChecker: {:?}", e)),
        Err(p) => bad.push(format!("KernelDatabaseChecker panicked: {}", p)),
    }
    match catch(std::panic::AssertUnwindSafe(|| world.ledger.check_db::<ResourceDatabaseChecker>())) {
        Ok(Ok(_)) => {}
        Ok(Err(e)) => bad.push(format!("SystemDatabaseChecker/ResourceDatabaseChecker: {:?}", e)),
        Err(p) => bad.push(format!("SystemDatabaseChecker/ResourceDatabaseChecker panicked: {}", p)),
    }
    match catch(std::panic::AssertUnwindSafe(|| world.ledger.check_db::<RoleAssignmentDatabaseChecker>())) {
        Ok(Ok((_, violations))) => {
            if !violations.is_empty() {
                bad.push(format!("RoleAssignmentDatabaseChecker: {} violations, first {:?}", violations.len(), violations[0]));
            }
        }
        Ok(Err(e)) => bad.push(format!("SystemDatabaseChecker/RoleAssignmentDatabaseChecker: {:?}", e)),
        Err(p) => bad.push(format!("RoleAssignmentDatabaseChecker panicked: {}", p)),
    }
    bad.into_iter().map(|s| s.chars().take(400).collect()).collect()
}

/// (node, owner) for every stored node: owner = the node whose substate contains an Own of it.
fn ownership(world: &World) -> (BTreeMap<NodeId, Vec<NodeId>>, BTreeSet<NodeId>) {
    let db = world.db();
    let mut nodes: BTreeSet<NodeId> = BTreeSet::new();
    let mut parts: Vec<(NodeId, PartitionNumber)> = Vec::new();
    for (n, p) in db.read_partition_keys() {
        nodes.insert(n);
        parts.push((n, p));
    }
    let mut owners: BTreeMap<NodeId, Vec<NodeId>> = BTreeMap::new();
    for (n, p) in parts {
        for (_k, v) in db.list_raw_values(n, p, None::<SubstateKey>) {
            if let Ok(iv) = IndexedScryptoValue::from_slice(&v) {
                for o in iv.owned_nodes() {
                    owners.entry(*o).or_default().push(n);
                }
            }
        }
    }
    (owners, nodes)
}

fn main() {
    let args = Args::parse();
    let mut report = Report::new(
        "C05",
        args.seed,
        "random histories of ~40 transactions on fresh ledgers; an evaluation = one committed transaction followed by the four whole-database \
         checkers; non-trivial = the commit created at least one node; distinct by (history, index, label, node count)",
    );
    let mut cw = CaseWriter::new("RV.Corr.C05_run RV.Model.C05_Kernel", "check");
    let root = Rng::new(args.seed);
    let per = 40usize;
    let nh = ((args.cases + per - 1) / per).max(1);
    let mut done = 0usize;
    for h in 0..nh {
        let hroot = root.fork(2_000_000 + h as u64);
        let mut world = World::new();
        let mut nodes_before = scan(world.db()).nodes;
        let n = per.min(args.cases.saturating_sub(done)).max(1);
        for i in 0..n {
            let gi = done + i;
            let mut rng = hroot.fork(i as u64);
            let tx = world.next_tx(&mut rng);
            report.count(&format!("tx_{}", tx.label));
            let receipt = match world.run(&tx) {
                Ok(r) => r,
                Err(msg) => {
                    report.oracle_failure(gi, "", &format!("engine panicked: {}", msg.chars().take(300).collect::<String>()), json!({"history": h, "index": i, "tx": tx.label}));
                    continue;
                }
            };
            report.count(&format!("outcome_{}", outcome_class(&receipt)));
            if !matches!(receipt.result, TransactionResult::Commit(_)) {
                continue;
            }
            let bad = run_checkers(&world);
            report.count("checker_runs");
            let s = scan(world.db());
            let mut bad = bad;
            for (v, (r, _)) in &s.fvaults {
                if !s.res.get(r).map(|i| !i.nf).unwrap_or(false) {
                    bad.push(format!("fungible vault {:?} belongs to {:?} which is not a stored fungible resource manager", v, r));
                }
            }
            for (v, (r, _, _)) in &s.nvaults {
                if !s.res.get(r).map(|i| i.nf).unwrap_or(false) {
                    bad.push(format!("non-fungible vault {:?} belongs to {:?} which is not a stored non-fungible resource manager", v, r));
                }
            }
            if !bad.is_empty() {
                report.oracle_failure(gi, "", &format!("stored ledger is not well-formed: {}", bad.join("; ")), json!({"history": h, "index": i, "tx": tx.label, "seed": args.seed}));
            }
            report.case(&format!("{}:{}:{}:{}", h, i, tx.label, s.nodes), s.nodes > nodes_before);
            if s.nodes > nodes_before {
                report.count("commit_created_nodes");
            }
            nodes_before = s.nodes;
        }
        done += n;
        // the final ownership relation as a model store: internal nodes with their owner, oldest owner first
        let (owners, nodes) = ownership(&world);
        let mut idx: BTreeMap<NodeId, u64> = BTreeMap::new();
        for (k, n) in nodes.iter().enumerate() {
            idx.insert(*n, k as u64);
        }
        let mut entries = Vec::new();
        for n in &nodes {
            let os = owners.get(n).cloned().unwrap_or_default();
            let global = n.is_global();
            entries.push(format!(
                "({}, {}, {})",
                coq_n(idx[n]),
                coq_bool(global),
                coq_list(os.iter().map(|o| coq_n(*idx.get(o).unwrap_or(&u64::MAX))))
            ));
        }
        let _ = SystemDatabaseReader::new(world.db()).get_type_info(nodes.iter().next().unwrap()).map(|t| matches!(t, TypeInfoSubstate::Object(_)));
        report.count_n("nodes_in_final_relations", nodes.len() as u64);
        cw.push(coq_list(entries));
    }
    let n = args.cases as u64;
    report.floor("checker_runs", n / 2);
    report.floor("commit_created_nodes", n / 10);
    cw.write(&args.out, args.shards).unwrap();
    report.write(&args.out).unwrap();
}
