//! C05 harness: the stored ledger is always well-formed.
//!
//! Random histories (`vh_engine::histories`; `--cases` = number of transactions, histories of ~40
//! on fresh ledgers). After every commit the repository's whole-database checkers are run on the
//! full database (under catch_unwind: the checkers report most violations by panicking):
//!   * KernelDatabaseChecker     — every internal node has exactly one owner, owners exist, every
//!                                  node has a type-info substate, references point to global nodes;
//!   * SystemDatabaseChecker     — every stored field / collection entry conforms to the schema
//!                                  declared by its blueprint or key-value store, entity type matches
//!                                  the blueprint, features / outer objects / partitions consistent;
//!   * ResourceDatabaseChecker   — supplies vs vault sums, vault indices (application layer);
//!   * RoleAssignmentDatabaseChecker — stored access rules / role keys are valid.
//! Direct oracle = "all four checkers accept the database". Additionally the harness checks with
//! its own scan that every vault's outer object is a stored resource manager of the right kind, and
//! — the repository's checkers do not compare them — that EVERY stored node's entity type (first
//! byte of its id) matches the blueprint recorded in its type-info substate, using the harness's
//! own blueprint -> entity type table (written from the documentation of `EntityType`, not by
//! calling `id_allocation.rs`); key-value stores must have the key-value-store entity type.
//! The ownership mechanism itself is the Coq model Model/C05_Kernel.v (theorem C05_ownership_forest);
//! there are no per-case model evaluations for this property (the kernel has no stand-alone public
//! driver); the case written per history is the final (stored node, owner) relation extracted from
//! the database, which `Corr/C05_run.check` tests for being a forest in the model's sense.
use radix_common::prelude::*;
use radix_engine::system::checkers::*;
use radix_engine::system::system_db_reader::SystemDatabaseReader;
use radix_engine::system::type_info::TypeInfoSubstate;
use radix_engine::transaction::*;
use radix_engine_interface::prelude::*;
use radix_substate_store_interface::interface::*;
use serde_json::json;
use std::collections::{BTreeMap, BTreeSet};
use vh_common::*;
use vh_engine::histories::*;

fn run_checkers(world: &World) -> Vec<String> {
    let mut bad = Vec::new();
    let db = world.db();
    match catch(std::panic::AssertUnwindSafe(|| KernelDatabaseChecker::new().check_db(db))) {
        Ok(Ok(())) => {}
        Ok(Err(e)) => bad.push(format!("KernelDatabaseChecker: {:?}", e)),
        Err(p) => bad.push(format!("KernelDatabaseChecker panicked: {}", p)),
    }
    match catch(std::panic::AssertUnwindSafe(|| world.ledger.check_db::<ResourceDatabaseChecker>())) {
        Ok(Ok(_)) => {}
        Ok(Err(e)) => bad.push(format!("SystemDatabaseChecker/ResourceDatabaseChecker: {:?}", e)),
        Err(p) => bad.push(format!("SystemDatabaseChecker/ResourceDatabaseChecker panicked: {}", p)),
    }
    match catch(std::panic::AssertUnwindSafe(|| world.ledger.check_db::<RoleAssignmentDatabaseChecker>())) {
        Ok(Ok((_, violations))) => {
            if !violations.is_empty() {
                bad.push(format!("RoleAssignmentDatabaseChecker: {} violations, first {:?}", violations.len(), violations[0]));
            }
        }
        Ok(Err(e)) => bad.push(format!("SystemDatabaseChecker/RoleAssignmentDatabaseChecker: {:?}", e)),
        Err(p) => bad.push(format!("RoleAssignmentDatabaseChecker panicked: {}", p)),
    }
    bad.into_iter().map(|s| s.chars().take(400).collect()).collect()
}

/// (node, owner) for every stored node: owner = the node whose substate contains an Own of it.
fn ownership(world: &World) -> (BTreeMap<NodeId, Vec<NodeId>>, BTreeSet<NodeId>) {
    let db = world.db();
    let mut nodes: BTreeSet<NodeId> = BTreeSet::new();
    let mut parts: Vec<(NodeId, PartitionNumber)> = Vec::new();
    for (n, p) in db.read_partition_keys() {
        nodes.insert(n);
        parts.push((n, p));
    }
    let mut owners: BTreeMap<NodeId, Vec<NodeId>> = BTreeMap::new();
    for (n, p) in parts {
        for (_k, v) in db.list_raw_values(n, p, None::<SubstateKey>) {
            if let Ok(iv) = IndexedScryptoValue::from_slice(&v) {
                for o in iv.owned_nodes() {
                    owners.entry(*o).or_default().push(n);
                }
            }
        }
    }
    (owners, nodes)
}

/// the entity types a node of the given native blueprint may have (None = not a native blueprint
/// with a dedicated entity type: generic component)
fn expected_entity_types(package: &PackageAddress, blueprint: &str, global: bool) -> Vec<EntityType> {
    use EntityType as E;
    let generic = if global { vec![E::GlobalGenericComponent] } else { vec![E::InternalGenericComponent] };
    if *package == PACKAGE_PACKAGE && blueprint == "Package" {
        vec![E::GlobalPackage]
    } else if *package == RESOURCE_PACKAGE {
        match blueprint {
            "FungibleResourceManager" => vec![E::GlobalFungibleResourceManager],
            "NonFungibleResourceManager" => vec![E::GlobalNonFungibleResourceManager],
            "FungibleVault" => vec![E::InternalFungibleVault],
            "NonFungibleVault" => vec![E::InternalNonFungibleVault],
            _ => generic,
        }
    } else if *package == ACCOUNT_PACKAGE && blueprint == "Account" {
        vec![E::GlobalAccount, E::GlobalPreallocatedSecp256k1Account, E::GlobalPreallocatedEd25519Account]
    } else if *package == IDENTITY_PACKAGE && blueprint == "Identity" {
        vec![E::GlobalIdentity, E::GlobalPreallocatedSecp256k1Identity, E::GlobalPreallocatedEd25519Identity]
    } else if *package == CONSENSUS_MANAGER_PACKAGE {
        match blueprint {
            "ConsensusManager" => vec![E::GlobalConsensusManager],
            "Validator" => vec![E::GlobalValidator],
            _ => generic,
        }
    } else if *package == ACCESS_CONTROLLER_PACKAGE && blueprint == "AccessController" {
        vec![E::GlobalAccessController]
    } else if *package == POOL_PACKAGE {
        match blueprint {
            "OneResourcePool" => vec![E::GlobalOneResourcePool],
            "TwoResourcePool" => vec![E::GlobalTwoResourcePool],
            "MultiResourcePool" => vec![E::GlobalMultiResourcePool],
            _ => generic,
        }
    } else if *package == TRANSACTION_TRACKER_PACKAGE && blueprint == "TransactionTracker" {
        vec![E::GlobalTransactionTracker]
    } else if *package == LOCKER_PACKAGE && blueprint == "AccountLocker" {
        vec![E::GlobalAccountLocker]
    } else {
        generic
    }
}

fn entity_type_violations(world: &World) -> Vec<String> {
    let db = world.db();
    let reader = SystemDatabaseReader::new(db);
    let mut nodes: BTreeSet<NodeId> = BTreeSet::new();
    for (n, _) in db.read_partition_keys() {
        nodes.insert(n);
    }
    let mut bad = Vec::new();
    for n in nodes {
        let Some(et) = n.entity_type() else {
            bad.push(format!("node {:?} has no entity type", n));
            continue;
        };
        match reader.get_type_info(&n) {
            Ok(TypeInfoSubstate::Object(info)) => {
                let id = &info.blueprint_info.blueprint_id;
                let exp = expected_entity_types(&id.package_address, &id.blueprint_name, info.is_global());
                if !exp.contains(&et) {
                    bad.push(format!("node {:?} has entity type {:?} but is a {}{} (expected one of {:?})", n, et, if info.is_global() { "global " } else { "internal " }, id.blueprint_name, exp));
                }
            }
            Ok(TypeInfoSubstate::KeyValueStore(_)) => {
                if et != EntityType::InternalKeyValueStore {
                    bad.push(format!("key-value store {:?} has entity type {:?}", n, et));
                }
            }
            Ok(_) => {}
            Err(e) => bad.push(format!("node {:?} has no readable type info: {:?}", n, e)),
        }
    }
    bad.truncate(5);
    bad
}

fn main() {
    let args = Args::parse();
    let mut report = Report::new(
        "C05",
        args.seed,
        "random histories of ~40 transactions on fresh ledgers; an evaluation = one committed transaction followed by the four whole-database \
         checkers; non-trivial = the commit created at least one node; distinct by (history, index, label, node count)",
    );
    let mut cw = CaseWriter::new("RV.Corr.C05_run RV.Model.C05_Kernel", "check");
    let root = Rng::new(args.seed);
    let per = 40usize;
    let nh = ((args.cases + per - 1) / per).max(1);
    let mut done = 0usize;
    let plan = boundary_plan();
    for h in 0..(nh + 1) {
        let scripted = h == 0;
        let hroot = root.fork(2_000_000 + h as u64);
        let mut world = match World::try_new() {
        Ok(w) => w,
        Err(msg) => {
            report.oracle_failure(0, "", &format!("the engine failed while bootstrapping the ledger and creating accounts: {}", msg.chars().take(400).collect::<String>()), json!({"phase": "bootstrap", "seed": args.seed}));
            report.write(&args.out).unwrap();
            return;
        }
    };
        let mut nodes_before = scan(world.db()).nodes;
        let n = if scripted { plan.len() } else { per.min(args.cases.saturating_sub(done)).max(1) };
        for i in 0..n {
            let gi = done + i;
            let mut rng = hroot.fork(i as u64);
            let tx = if scripted {
                match world.boundary_step(i) {
                    Some((class, tx)) => {
                        report.count(&format!("bf_{}", class));
                        tx
                    }
                    None => {
                        report.count(&format!("bf_skipped_{}", plan[i].0));
                        continue;
                    }
                }
            } else {
                world.next_tx(&mut rng)
            };
            report.count(&format!("tx_{}", tx.label));
            let receipt = match world.run(&tx) {
                Ok(r) => r,
                Err(msg) => {
                    report.oracle_failure(gi, "", &format!("engine panicked: {}", msg.chars().take(300).collect::<String>()), json!({"history": h, "index": i, "tx": tx.label}));
                    continue;
                }
            };
            report.count(&format!("outcome_{}", outcome_class(&receipt)));
            if scripted && std::env::var("VH_DEBUG").is_ok() && outcome_class(&receipt) != "success" {
                if let TransactionResult::Commit(c) = &receipt.result {
                    report.notes.push(format!("{} {}: {}", i, tx.label, format!("{:?}", c.outcome).chars().take(500).collect::<String>()));
                }
            }
            if scripted && (outcome_class(&receipt) != "success") != tx.expect_fail {
                report.count("bf_outcome_not_as_scripted");
                let why = match &receipt.result {
                    TransactionResult::Commit(c) => format!("{:?}", c.outcome).chars().take(300).collect::<String>(),
                    other => format!("{:?}", other).chars().take(300).collect::<String>(),
                };
                report.notes.push(format!("boundary step {} ({}) ended as {} (scripted: {}): {}", i, tx.label, outcome_class(&receipt), if tx.expect_fail { "failure" } else { "success" }, why));
            }
            if !matches!(receipt.result, TransactionResult::Commit(_)) {
                continue;
            }
            let mut bad = run_checkers(&world);
            bad.extend(entity_type_violations(&world));
            report.count("checker_runs");
            let s = scan(world.db());
            for (v, (r, _)) in &s.fvaults {
                if !s.res.get(r).map(|i| !i.nf).unwrap_or(false) {
                    bad.push(format!("fungible vault {:?} belongs to {:?} which is not a stored fungible resource manager", v, r));
                }
            }
            for (v, (r, _, _)) in &s.nvaults {
                if !s.res.get(r).map(|i| i.nf).unwrap_or(false) {
                    bad.push(format!("non-fungible vault {:?} belongs to {:?} which is not a stored non-fungible resource manager", v, r));
                }
            }
            if !bad.is_empty() {
                report.oracle_failure(gi, "", &format!("stored ledger is not well-formed: {}", bad.join("; ")), json!({"history": h, "index": i, "tx": tx.label, "seed": args.seed}));
            }
            report.case(&format!("{}:{}:{}:{}", h, i, tx.label, s.nodes), s.nodes > nodes_before);
            if s.nodes > nodes_before {
                report.count("commit_created_nodes");
            }
            nodes_before = s.nodes;
        }
        if !scripted {
            done += n;
        }
        // the final ownership relation as a model store: internal nodes with their owner, oldest owner first
        let (owners, nodes) = ownership(&world);
        let mut idx: BTreeMap<NodeId, u64> = BTreeMap::new();
        for (k, n) in nodes.iter().enumerate() {
            idx.insert(*n, k as u64);
        }
        let mut entries = Vec::new();
        for n in &nodes {
            let os = owners.get(n).cloned().unwrap_or_default();
            let global = n.is_global();
            entries.push(format!(
                "({}, {}, {})",
                coq_n(idx[n]),
                coq_bool(global),
                coq_list(os.iter().map(|o| coq_n(*idx.get(o).unwrap_or(&u64::MAX))))
            ));
        }
        report.count_n("nodes_in_final_relations", nodes.len() as u64);
        cw.push(coq_list(entries));
    }
    let mut per_class: BTreeMap<&'static str, u64> = BTreeMap::new();
    for (c, _) in &plan {
        *per_class.entry(*c).or_default() += 1;
    }
    for (c, k) in &per_class {
        report.floor(&format!("bf_{}", c), *k);
    }
    let n = args.cases as u64;
    report.floor("checker_runs", n / 2);
    report.floor("commit_created_nodes", n / 10);
    cw.write(&args.out, args.shards).unwrap();
    report.write(&args.out).unwrap();
}
