//! C44 correspondence harness (model: coq/Model/C44_Consensus.v, evaluation: coq/Corr/C44_run.v).
//! Per case: a LedgerSimulator with a random epoch-change condition and genesis time, then a random
//! sequence of real `next_round` system transactions (equal / decreasing / jumping timestamps,
//! round gaps with right and wrong gap-leader counts, stale rounds, invalid validator index,
//! timestamps beyond the i32 minute range) interleaved with get_current_time / compare_current_time
//! calls at both precisions. After every round update the consensus manager substates are read back.
//! Direct oracle (no model): observed clocks never decrease, epoch +0/+1 with round reset, minute ==
//! milli/60000, time queries and comparisons equal plain i128 arithmetic on the read-back clock.
use radix_common::prelude::*;
use radix_engine::blueprints::consensus_manager::*;
use radix_engine::errors::*;
use radix_engine::transaction::*;
use radix_engine::updates::BabylonSettings;
use radix_engine_interface::blueprints::consensus_manager::*;
use radix_engine_interface::prelude::*;
use radix_substate_store_impls::memory_db::InMemorySubstateDatabase;
use radix_transactions::prelude::*;
use scrypto_test::prelude::{LedgerSimulator, LedgerSimulatorBuilder, NoExtension};
use serde_json::json;
use vh_common::*;

type Ledger = LedgerSimulator<NoExtension, InMemorySubstateDatabase>;

#[derive(Clone, Debug, PartialEq)]
struct Cm {
    epoch: u64,
    round: u64,
    milli: i64,
    minute: i32,
    eff: i64,
    act: i64,
}
fn cm_coq(s: &Cm) -> String {
    format!("(mkCm {}%N {}%N {} {} {} {})", s.epoch, s.round, coq_z(s.milli), coq_z(s.minute), coq_z(s.eff), coq_z(s.act))
}

fn read_cm(ledger: &mut Ledger) -> Cm {
    let st = ledger.get_consensus_manager_state();
    let milli = ledger.get_current_proposer_timestamp_ms();
    let reader = radix_engine::system::system_db_reader::SystemDatabaseReader::new(ledger.substate_db());
    let minute = reader
        .read_typed_object_field::<ConsensusManagerProposerMinuteTimestampFieldPayload>(
            CONSENSUS_MANAGER.as_node_id(),
            ModuleId::Main,
            ConsensusManagerField::ProposerMinuteTimestamp.field_index(),
        )
        .unwrap()
        .fully_update_and_into_latest_version()
        .epoch_minute;
    Cm {
        epoch: st.epoch.number(),
        round: st.round.number(),
        milli,
        minute,
        eff: st.effective_epoch_start_milli,
        act: st.actual_epoch_start_milli,
    }
}

fn err_name(receipt: &TransactionReceipt) -> Option<String> {
    match &receipt.result {
        TransactionResult::Commit(c) => match &c.outcome {
            TransactionOutcome::Success(_) => None,
            TransactionOutcome::Failure(e) => Some(match e {
                RuntimeError::ApplicationError(ApplicationError::ConsensusManagerError(e)) => match e {
                    ConsensusManagerError::InvalidRoundUpdate { .. } => "InvalidRoundUpdate".to_string(),
                    ConsensusManagerError::InvalidProposerTimestampUpdate { .. } => "InvalidProposerTimestampUpdate".to_string(),
                    ConsensusManagerError::InconsistentGapRounds { .. } => "InconsistentGapRounds".to_string(),
                    ConsensusManagerError::InvalidValidatorIndex { .. } => "InvalidValidatorIndex".to_string(),
                    ConsensusManagerError::EpochMathOverflow => "EpochMathOverflow".to_string(),
                    ConsensusManagerError::InvalidConsensusTime(_) => "InvalidConsensusTime".to_string(),
                    other => format!("Other_{:?}", other).chars().filter(|c| c.is_ascii_alphanumeric() || *c == '_').take(40).collect(),
                },
                other => format!("Other_{:?}", other).chars().filter(|c| c.is_ascii_alphanumeric() || *c == '_').take(40).collect(),
            }),
        },
        TransactionResult::Reject(_) => Some("Other_Reject".to_string()),
        TransactionResult::Abort(_) => Some("Other_Abort".to_string()),
    }
}

fn op_name(o: TimeComparisonOperator) -> &'static str {
    match o {
        TimeComparisonOperator::Eq => "OpEq",
        TimeComparisonOperator::Lt => "OpLt",
        TimeComparisonOperator::Lte => "OpLte",
        TimeComparisonOperator::Gt => "OpGt",
        TimeComparisonOperator::Gte => "OpGte",
    }
}
fn cmp128(a: i128, b: i128, o: TimeComparisonOperator) -> bool {
    match o {
        TimeComparisonOperator::Eq => a == b,
        TimeComparisonOperator::Lt => a < b,
        TimeComparisonOperator::Lte => a <= b,
        TimeComparisonOperator::Gt => a > b,
        TimeComparisonOperator::Gte => a >= b,
    }
}

fn sys_call<A: ManifestEncode + ManifestSborTuple>(ledger: &mut Ledger, method: &str, args: A) -> TransactionReceipt {
    ledger.execute_system_transaction(
        ManifestBuilder::new_system_v1().call_method(CONSENSUS_MANAGER, method, args).build(),
        btreeset![system_execution(SystemExecution::Validator)],
    )
}

fn pick_instant(rng: &mut Rng, s: &Cm) -> i64 {
    let now = s.milli / 1000;
    match rng.below(14) {
        0 => now,
        1 => now + 1,
        2 => now - 1,
        3 => (s.minute as i64) * 60,
        4 => (s.minute as i64) * 60 + 59,
        5 => (s.minute as i64) * 60 + 60,
        6 => (s.minute as i64) * 60 - 1,
        7 => i64::MAX,
        8 => i64::MIN,
        9 => i64::MAX / 1000 + rng.below(3) as i64 - 1,
        10 => i64::MIN / 1000 - rng.below(3) as i64 + 1,
        11 => (i32::MAX as i64) * 60 + rng.below(121) as i64 - 60,
        12 => (i32::MIN as i64) * 60 - rng.below(121) as i64 + 60,
        _ => now + rng.below(100_000) as i64 - 50_000,
    }
}

const LIMIT_MS: i64 = (i32::MAX as i64) * 60_000;

fn build_ledger(min_round: u64, max_round: u64, target: u64, initial_time: i64) -> Result<Ledger, String> {
    let mut genesis = BabylonSettings::test_default().with_consensus_manager_config(
        ConsensusManagerConfig::test_default().with_epoch_change_condition(EpochChangeCondition {
            min_round_count: min_round,
            max_round_count: max_round,
            target_duration_millis: target,
        }),
    );
    genesis.initial_time_ms = initial_time;
    catch(std::panic::AssertUnwindSafe(|| {
        LedgerSimulatorBuilder::new()
            .with_custom_protocol(|b| b.configure_babylon(|_| genesis).from_bootstrap_to_latest())
            .without_kernel_trace()
            .build()
    }))
}

/// One case: a ledger, the ops performed so far (as Coq terms) and the direct-oracle failures.
struct Runner {
    ledger: Ledger,
    cfg_coq: String,
    init: Cm,
    s: Cm,
    items: Vec<String>,
    failures: Vec<String>,
    n_ok: u64,
    n_err: u64,
    n_epoch: u64,
}

impl Runner {
    fn new(min_round: u64, max_round: u64, target: u64, initial_time: i64) -> Result<Runner, String> {
        let mut ledger = build_ledger(min_round, max_round, target, initial_time)?;
        let init = read_cm(&mut ledger);
        Ok(Runner {
            ledger,
            cfg_coq: format!("(mkCfg {}%N {}%N {}%N)", min_round, max_round, target),
            s: init.clone(),
            init,
            items: vec![],
            failures: vec![],
            n_ok: 0,
            n_err: 0,
            n_epoch: 0,
        })
    }

    /// a real next_round system transaction; returns (error name, epoch changed)
    fn next_round(&mut self, report: &mut Report, round: u64, ts: i64, gap_leaders: Vec<u8>, current_leader: u8, fallback: bool) -> (Option<String>, bool) {
        let gaps = gap_leaders.len() as u64;
        let leaders_ok = current_leader == 0 && gap_leaders.iter().all(|x| *x == 0);
        let receipt = sys_call(
            &mut self.ledger,
            CONSENSUS_MANAGER_NEXT_ROUND_IDENT,
            ConsensusManagerNextRoundInput {
                round: Round::of(round),
                proposer_timestamp_ms: ts,
                leader_proposal_history: LeaderProposalHistory { gap_round_leaders: gap_leaders, current_leader, is_fallback: fallback },
            },
        );
        let e = err_name(&receipt);
        let after = read_cm(&mut self.ledger);
        let s = self.s.clone();
        // direct oracle
        if after.milli < s.milli || after.minute < s.minute {
            self.failures.push(format!("clock decreased: {:?} -> {:?}", s, after));
        }
        if !(after.epoch == s.epoch || (after.epoch == s.epoch.wrapping_add(1) && after.round == 0)) {
            self.failures.push(format!("epoch step not 0/+1 with round reset: {:?} -> {:?}", s, after));
        }
        if after.epoch == s.epoch && e.is_none() && after.round <= s.round {
            self.failures.push(format!("round did not advance within the epoch: {:?} -> {:?}", s, after));
        }
        if (after.milli / 60_000) as i128 != after.minute as i128 {
            self.failures.push(format!("minute clock {} != milli clock {} / 60000", after.minute, after.milli));
        }
        if e.is_some() && after != s {
            self.failures.push(format!("failed round update changed the state: {:?} -> {:?}", s, after));
        }
        if e.is_none() {
            self.n_ok += 1;
            if after.milli != ts {
                self.failures.push(format!("accepted timestamp {} not recorded (milli {})", ts, after.milli));
            }
            if ts < s.milli {
                self.failures.push(format!("decreasing timestamp {} accepted (clock {})", ts, s.milli));
            }
        } else {
            self.n_err += 1;
            report.count(&format!("err_{}", e.clone().unwrap()));
        }
        let changed = after.epoch != s.epoch;
        if changed {
            self.n_epoch += 1;
            if after.act != ts {
                self.failures.push(format!("epoch change did not record the proposer timestamp as epoch start: {:?}", after));
            }
        }
        self.items.push(format!(
            "(ONext (mkIn {}%N {} {}%N {}), RNext {} {})",
            round,
            coq_z(ts),
            gaps,
            coq_bool(leaders_ok),
            match &e { None => "None".to_string(), Some(n) => format!("(Some {})", n) },
            cm_coq(&after)
        ));
        self.s = after;
        (e, changed)
    }

    fn get_time(&mut self, report: &mut Report, second: bool) -> i64 {
        let receipt = sys_call(
            &mut self.ledger,
            CONSENSUS_MANAGER_GET_CURRENT_TIME_IDENT,
            ConsensusManagerGetCurrentTimeInputV2 { precision: if second { TimePrecisionV2::Second } else { TimePrecisionV2::Minute } },
        );
        let t: Instant = receipt.expect_commit(true).output(0);
        let expect = if second { (self.s.milli / 1000) as i128 } else { (self.s.minute as i128) * 60 };
        if t.seconds_since_unix_epoch as i128 != expect {
            self.failures.push(format!("get_current_time({}) = {} but clock says {}", if second { "Second" } else { "Minute" }, t.seconds_since_unix_epoch, expect));
        }
        report.count("op_get_time");
        self.items.push(format!("({}, RTime {})", if second { "OGetSecond" } else { "OGetMinute" }, coq_z(t.seconds_since_unix_epoch)));
        t.seconds_since_unix_epoch
    }

    fn compare(&mut self, report: &mut Report, inst: i64, second: bool, o: TimeComparisonOperator) -> bool {
        let receipt = sys_call(
            &mut self.ledger,
            CONSENSUS_MANAGER_COMPARE_CURRENT_TIME_IDENT,
            ConsensusManagerCompareCurrentTimeInputV2 {
                instant: Instant::new(inst),
                precision: if second { TimePrecisionV2::Second } else { TimePrecisionV2::Minute },
                operator: o,
            },
        );
        let b: bool = receipt.expect_commit(true).output(0);
        // the statement: recorded clock vs the argument truncated to the precision (saturated)
        let expect = if second {
            cmp128((self.s.milli / 1000) as i128, inst as i128, o)
        } else {
            let m = ((inst as i128) / 60).clamp(i32::MIN as i128, i32::MAX as i128);
            cmp128(self.s.minute as i128, m, o)
        };
        if b != expect {
            self.failures.push(format!("compare_current_time({}, {}, {}) = {} but the recorded clock {:?} gives {}", inst, if second { "Second" } else { "Minute" }, op_name(o), b, self.s, expect));
        }
        report.count("op_compare");
        self.items.push(format!("({} {} {}, RBool {})", if second { "OCmpSecond" } else { "OCmpMinute" }, coq_z(inst), op_name(o), coq_bool(b)));
        b
    }

    fn finish(self, report: &mut Report, cw: &mut CaseWriter, ci: usize, sample: bool) {
        report.count_n("round_updates_accepted", self.n_ok);
        report.count_n("round_updates_rejected", self.n_err);
        report.count_n("epoch_changes", self.n_epoch);
        let canon = self.items.join(";");
        report.case(&format!("{}{}{}", self.cfg_coq, cm_coq(&self.init), canon), self.n_ok > 0 && self.n_err > 0 && self.n_epoch > 0);
        for f in &self.failures {
            report.oracle_failure(ci, "", f, json!({"cfg": self.cfg_coq, "init": cm_coq(&self.init), "ops": self.items.iter().take(80).collect::<Vec<_>>()}));
        }
        if sample {
            report.sample(json!({"cfg": self.cfg_coq, "init": cm_coq(&self.init), "ops": self.items.iter().take(12).collect::<Vec<_>>()}));
        }
        cw.push(format!("({}, {}, {})", self.cfg_coq, cm_coq(&self.init), coq_list(self.items.into_iter())));
    }
}

const ALL_OPS: [TimeComparisonOperator; 5] = [
    TimeComparisonOperator::Eq,
    TimeComparisonOperator::Lt,
    TimeComparisonOperator::Lte,
    TimeComparisonOperator::Gt,
    TimeComparisonOperator::Gte,
];

/// a scripted round update whose outcome is expected: the class is counted only when it is observed
fn expect_round(r: &mut Runner, report: &mut Report, class: &str, round: u64, ts: i64, gaps: usize, expect_err: Option<&str>, expect_change: bool) {
    let (e, changed) = r.next_round(report, round, ts, vec![0; gaps], 0, false);
    if e.as_deref() == expect_err && changed == expect_change {
        report.count(class);
    } else {
        report.count("b_unexpected_outcome");
        report.notes.push(format!("scripted step {}: expected ({:?}, change={}) got ({:?}, change={})", class, expect_err, expect_change, e, changed));
    }
}

fn compare_all(r: &mut Runner, report: &mut Report, class: &str, inst: i64, second: bool) {
    for o in ALL_OPS {
        r.compare(report, inst, second, o);
    }
    report.count(class);
}

/// Deterministic boundary family (identical for every seed).
fn boundary_family(report: &mut Report, cw: &mut CaseWriter) -> usize {
    let mut ci = 0usize;
    // ---- A: negative clock, minute rounding toward zero, every timestamp comparison at equality ----
    {
        let mut r = Runner::new(2, 1000, 1_000_000_000, -120_001).expect("genesis");
        if r.s.minute == -2 && r.s.milli == -120_001 {
            report.count("b_genesis_negative_time_truncated_minute");
        }
        r.get_time(report, false);
        r.get_time(report, true);
        compare_all(&mut r, report, "b_cmp_negative_minute_eq", -120, false);
        compare_all(&mut r, report, "b_cmp_negative_minute_below", -121, false); // -121/60 truncates to -2
        compare_all(&mut r, report, "b_cmp_negative_minute_above", -119, false); // truncates to -1
        compare_all(&mut r, report, "b_cmp_negative_second_eq", -120, true);
        compare_all(&mut r, report, "b_cmp_negative_second_off_by_one", -121, true);
        expect_round(&mut r, report, "b_ts_equal_to_previous", 1, -120_001, 0, None, false);
        expect_round(&mut r, report, "b_ts_one_below_previous", 2, -120_002, 0, Some("InvalidProposerTimestampUpdate"), false);
        expect_round(&mut r, report, "b_ts_one_above_previous_same_minute", 2, -120_000, 0, None, false);
        expect_round(&mut r, report, "b_ts_negative_minute_step", 3, -119_999, 0, None, false); // -119999/60000 = -1
        expect_round(&mut r, report, "b_ts_negative_minute_exact", 4, -60_000, 0, None, false);
        expect_round(&mut r, report, "b_ts_negative_to_minute_zero", 5, -59_999, 0, None, false); // truncates to 0
        r.get_time(report, false);
        r.get_time(report, true); // -59999/1000 = -59
        expect_round(&mut r, report, "b_ts_minus_one_ms", 6, -1, 0, None, false);
        compare_all(&mut r, report, "b_cmp_minus_one_second_minute_precision", -1, false); // -1/60 = 0
        compare_all(&mut r, report, "b_cmp_zero_second_precision_clock_minus_1ms", 0, true); // -1/1000 = 0
        expect_round(&mut r, report, "b_ts_zero", 7, 0, 0, None, false);
        expect_round(&mut r, report, "b_ts_last_ms_of_minute", 8, 59_999, 0, None, false);
        expect_round(&mut r, report, "b_ts_first_ms_of_minute", 9, 60_000, 0, None, false);
        r.get_time(report, false);
        r.get_time(report, true);
        compare_all(&mut r, report, "b_cmp_minute_eq", 60, false);
        compare_all(&mut r, report, "b_cmp_minute_last_second_of_minute", 119, false);
        compare_all(&mut r, report, "b_cmp_minute_next_minute", 120, false);
        compare_all(&mut r, report, "b_cmp_minute_prev_minute", 59, false);
        compare_all(&mut r, report, "b_cmp_second_eq", 60, true);
        compare_all(&mut r, report, "b_cmp_second_plus_1", 61, true);
        compare_all(&mut r, report, "b_cmp_second_minus_1", 59, true);
        // saturation of the argument: i64 extremes, checked_mul edge, i32 minute edge
        for (class, inst) in [
            ("b_cmp_sat_i64_max", i64::MAX),
            ("b_cmp_sat_i64_min", i64::MIN),
            ("b_cmp_mul_edge_fits", i64::MAX / 1000),
            ("b_cmp_mul_edge_overflows", i64::MAX / 1000 + 1),
            ("b_cmp_mul_edge_fits_neg", i64::MIN / 1000),
            ("b_cmp_mul_edge_overflows_neg", i64::MIN / 1000 - 1),
            ("b_cmp_i32_minute_max", (i32::MAX as i64) * 60 + 59),
            ("b_cmp_i32_minute_max_plus_1", (i32::MAX as i64) * 60 + 60),
            ("b_cmp_i32_minute_min", (i32::MIN as i64) * 60 - 59),
            ("b_cmp_i32_minute_min_minus_1", (i32::MIN as i64) * 60 - 60),
        ] {
            compare_all(&mut r, report, class, inst, false);
            compare_all(&mut r, report, class, inst, true);
        }
        r.finish(report, cw, ci, false);
        ci += 1;
    }
    // ---- B: rounds and the epoch-change criterion (min 3, max 6, target 60 s), genesis time 1000 ----
    {
        let mut r = Runner::new(3, 6, 60_000, 1000).expect("genesis");
        let t0 = r.s.eff;
        let cur_round = r.s.round;
        expect_round(&mut r, report, "b_round_same", cur_round, t0, 0, Some("InvalidRoundUpdate"), false);
        expect_round(&mut r, report, "b_round_plus_1", 1, t0, 0, None, false);
        expect_round(&mut r, report, "b_round_minus_1", 0, t0, 0, Some("InvalidRoundUpdate"), false);
        expect_round(&mut r, report, "b_round_below_min_duration_reached", 2, t0 + 60_000, 0, None, false); // round < min: no change
        // round >= min: duration decides, at target - 1 / target
        let mut r2 = Runner::new(3, 6, 60_000, 1000).expect("genesis");
        let u0 = r2.s.eff;
        expect_round(&mut r2, report, "b_round_gap_right_count", 3, u0 + 59_999, 2, None, false); // duration = target - 1
        expect_round(&mut r2, report, "b_round_gap_too_few_leaders", 5, u0 + 59_999, 0, Some("InconsistentGapRounds"), false);
        expect_round(&mut r2, report, "b_round_gap_too_many_leaders", 5, u0 + 59_999, 2, Some("InconsistentGapRounds"), false);
        expect_round(&mut r2, report, "b_epoch_change_duration_equals_target", 4, u0 + 60_000, 0, None, true);
        if r2.s.eff == u0 + 60_000 {
            report.count("b_effective_start_snapped_to_target");
        }
        // max round reached with a short duration (< 1000 ms: not "close"), effective start = timestamp
        let v0 = r2.s.milli;
        expect_round(&mut r2, report, "b_round_max_minus_1_short_duration", 5, v0 + 10, 4, None, false);
        expect_round(&mut r2, report, "b_epoch_change_by_max_round", 6, v0 + 20, 0, None, true);
        if r2.s.eff == v0 + 20 {
            report.count("b_effective_start_is_timestamp");
        }
        // invalid validator index, in the gap list and as current leader
        let m = r2.s.milli;
        let (e, _) = r2.next_round(report, 1, m, vec![], 7, false);
        if e.as_deref() == Some("InvalidValidatorIndex") {
            report.count("b_invalid_current_leader");
        }
        let (e, _) = r2.next_round(report, 2, m, vec![7], 0, false);
        if e.as_deref() == Some("InvalidValidatorIndex") {
            report.count("b_invalid_gap_leader");
        }
        let (e, _) = r2.next_round(report, 1, m, vec![], 0, true);
        if e.is_none() {
            report.count("b_fallback_round");
        }
        r.finish(report, cw, ci, false);
        ci += 1;
        r2.finish(report, cw, ci, false);
        ci += 1;
    }
    // ---- C: "close to target" boundary: 10 % exactly / one ms more; target below 1000 ms ----
    for (class, target, extra, snapped) in [
        ("b_close_exactly_10_percent", 60_000u64, 6_000i64, true),
        ("b_close_10_percent_plus_1ms", 60_000, 6_001, false),
        ("b_close_small_target_exact", 1000, 100, true),
        ("b_close_small_target_plus_1ms", 1000, 101, false),
        ("b_close_target_below_1000", 999, 0, false),
    ] {
        let mut r = Runner::new(1, 1000, target, 5000).expect("genesis");
        let t0 = r.s.eff;
        expect_round(&mut r, report, "b_epoch_change_first_round_by_duration", 1, t0 + target as i64 + extra, 0, None, true);
        let want = if snapped { t0 + target as i64 } else { t0 + target as i64 + extra };
        if r.s.eff == want {
            report.count(class);
        } else {
            report.count("b_unexpected_outcome");
            report.notes.push(format!("{}: effective start {} expected {}", class, r.s.eff, want));
        }
        r.finish(report, cw, ci, false);
        ci += 1;
    }
    // ---- D: the i32 minute limit, and the u64 epoch limit ----
    {
        let mut r = Runner::new(1, 1, 0, LIMIT_MS - 1).expect("genesis");
        expect_round(&mut r, report, "b_minute_i32_max_first_ms", 1, LIMIT_MS, 0, None, true);
        expect_round(&mut r, report, "b_minute_i32_max_last_ms", 1, LIMIT_MS + 59_999, 0, None, true);
        expect_round(&mut r, report, "b_minute_i32_max_plus_1", 1, LIMIT_MS + 60_000, 0, Some("InvalidConsensusTime"), false);
        expect_round(&mut r, report, "b_ts_i64_max", 1, i64::MAX, 0, Some("InvalidConsensusTime"), false);
        compare_all(&mut r, report, "b_cmp_at_i32_minute_limit", (i32::MAX as i64) * 60, false);
        compare_all(&mut r, report, "b_cmp_at_i32_minute_limit", (i32::MAX as i64) * 60 + 60, false);
        r.ledger.set_current_epoch(Epoch::of(u64::MAX));
        r.s = read_cm(&mut r.ledger);
        // the model continues from the state read back after the direct epoch write: start a new case
        let mut r3 = Runner { cfg_coq: r.cfg_coq.clone(), init: r.s.clone(), s: r.s.clone(), items: vec![], failures: vec![], n_ok: 0, n_err: 0, n_epoch: 0, ledger: std::mem::replace(&mut r.ledger, build_ledger(1, 1, 0, 1).expect("genesis")) };
        expect_round(&mut r3, report, "b_epoch_u64_max_overflow", 1, LIMIT_MS + 59_999, 0, Some("EpochMathOverflow"), false);
        r.finish(report, cw, ci, false);
        ci += 1;
        r3.finish(report, cw, ci, false);
        ci += 1;
    }
    ci
}

fn main() {
    let args = Args::parse();
    let mut report = Report::new(
        "C44",
        args.seed,
        "deterministic boundary family (negative clock and minute truncation, every timestamp/round/criterion comparison at equality and +-1,          the 10 % closeness boundary, i32 minute and u64 epoch limits, saturating comparisons) followed by random cases: per case one ledger          (random epoch-change condition, genesis time incl. negative and near the i32-minute limit) and a random sequence of next_round system          transactions + time queries/comparisons; non-trivial = the history contains an accepted update, a rejected update and an epoch change",
    );
    let mut cw = CaseWriter::new("RV.Corr.C44_run RV.Model.C44_Consensus", "check");
    let root = Rng::new(args.seed);
    let thorough = args.tier == "thorough";
    let nb = boundary_family(&mut report, &mut cw);
    const REQUIRED: &[&str] = &[
        "b_genesis_negative_time_truncated_minute", "b_cmp_negative_minute_eq", "b_cmp_negative_minute_below",
        "b_cmp_negative_minute_above", "b_cmp_negative_second_eq", "b_cmp_negative_second_off_by_one",
        "b_ts_equal_to_previous", "b_ts_one_below_previous", "b_ts_one_above_previous_same_minute",
        "b_ts_negative_minute_step", "b_ts_negative_minute_exact", "b_ts_negative_to_minute_zero", "b_ts_minus_one_ms",
        "b_cmp_minus_one_second_minute_precision", "b_cmp_zero_second_precision_clock_minus_1ms", "b_ts_zero",
        "b_ts_last_ms_of_minute", "b_ts_first_ms_of_minute", "b_cmp_minute_eq", "b_cmp_minute_last_second_of_minute",
        "b_cmp_minute_next_minute", "b_cmp_minute_prev_minute", "b_cmp_second_eq", "b_cmp_second_plus_1",
        "b_cmp_second_minus_1", "b_cmp_sat_i64_max", "b_cmp_sat_i64_min", "b_cmp_mul_edge_fits",
        "b_cmp_mul_edge_overflows", "b_cmp_mul_edge_fits_neg", "b_cmp_mul_edge_overflows_neg", "b_cmp_i32_minute_max",
        "b_cmp_i32_minute_max_plus_1", "b_cmp_i32_minute_min", "b_cmp_i32_minute_min_minus_1",
        "b_round_same", "b_round_plus_1", "b_round_minus_1", "b_round_below_min_duration_reached",
        "b_round_gap_right_count", "b_round_gap_too_few_leaders", "b_round_gap_too_many_leaders",
        "b_epoch_change_duration_equals_target", "b_effective_start_snapped_to_target",
        "b_round_max_minus_1_short_duration", "b_epoch_change_by_max_round", "b_effective_start_is_timestamp",
        "b_invalid_current_leader", "b_invalid_gap_leader", "b_fallback_round",
        "b_close_exactly_10_percent", "b_close_10_percent_plus_1ms", "b_close_small_target_exact",
        "b_close_small_target_plus_1ms", "b_close_target_below_1000", "b_epoch_change_first_round_by_duration",
        "b_minute_i32_max_first_ms", "b_minute_i32_max_last_ms", "b_minute_i32_max_plus_1", "b_ts_i64_max",
        "b_cmp_at_i32_minute_limit", "b_epoch_u64_max_overflow",
    ];
    for c in REQUIRED {
        report.floor(c, 1);
    }
    report.floor("b_epoch_change_first_round_by_duration", 5);
    for k in 0..args.cases {
        let ci = nb + k;
        let mut rng = root.fork(k as u64);
        let min_round = *rng.pick(&[1u64, 1, 2, 5]);
        let max_round = *rng.pick(&[min_round, min_round + 2, 10, 1000]);
        let target = *rng.pick(&[0u64, 500, 1000, 5000, 60_000, 300_000]);
        let limit_ms = LIMIT_MS;
        let initial_time = match rng.below(8) {
            0 => 0,
            1 => -(rng.below(200_000) as i64) - 1,
            2 if rng.chance(1, 2) => limit_ms - rng.below(3_000_000) as i64,
            3 if rng.chance(1, 4) => limit_ms + 59_999 - rng.below(1000) as i64,
            4 => rng.below(1_000_000_000_000) as i64,
            _ => 1 + rng.below(120_000) as i64,
        };
        let mut r = match Runner::new(min_round, max_round, target, initial_time) {
            Ok(r) => r,
            Err(e) => {
                report.count("genesis_failed");
                report.notes.push(format!("case {}: genesis with initial_time {} failed: {}", ci, initial_time, e.chars().take(120).collect::<String>()));
                continue;
            }
        };
        let nops = if thorough { 70 } else { 40 };
        for _ in 0..nops {
            let x = rng.below(100);
            let s = r.s.clone();
            if x < 62 {
                let round = match rng.below(12) {
                    0 => s.round,
                    1 => s.round.saturating_sub(1),
                    2 | 3 => s.round + 2 + rng.below(3),
                    _ => s.round + 1,
                };
                let progressed = round.saturating_sub(s.round);
                let gaps = if rng.chance(1, 12) { progressed + rng.below(2) } else { progressed.saturating_sub(1) };
                let leaders_ok = !rng.chance(1, 20);
                let ts = match rng.below(16) {
                    0 => s.milli,
                    1 => s.milli - 1 - rng.below(5000) as i64,
                    2 => s.milli + 1,
                    3 => (s.milli / 60_000 + 1) * 60_000 - 1,
                    4 => (s.milli / 60_000 + 1) * 60_000,
                    5 => s.eff.saturating_add(target as i64),
                    6 => s.eff.saturating_add(target as i64 + (target / 10) as i64 + rng.below(3) as i64 - 1),
                    7 => s.eff.saturating_add(target as i64).saturating_sub(1),
                    8 if rng.chance(1, 3) => limit_ms + 60_000 + rng.below(1000) as i64,
                    9 if rng.chance(1, 3) => limit_ms + 59_999,
                    10 if rng.chance(1, 6) => i64::MAX - rng.below(3) as i64,
                    _ => s.milli + rng.below(90_000) as i64,
                };
                let gap_leaders: Vec<u8> = (0..gaps).map(|j| if !leaders_ok && j == gaps - 1 && rng.bool() { 7 } else { 0 }).collect();
                let fallback = rng.chance(1, 10);
                r.next_round(&mut report, round, ts, gap_leaders, if leaders_ok { 0 } else { 7 }, fallback);
            } else if x < 74 {
                let second = rng.bool();
                r.get_time(&mut report, second);
            } else {
                let second = rng.bool();
                let inst = pick_instant(&mut rng, &s);
                let o = *rng.pick(&ALL_OPS);
                r.compare(&mut report, inst, second, o);
            }
        }
        r.finish(&mut report, &mut cw, ci, k < 2);
    }
    report.floor("round_updates_accepted", args.cases as u64);
    report.floor("round_updates_rejected", (args.cases as u64) / 2);
    report.floor("epoch_changes", (args.cases as u64) / 4);
    report.floor("op_compare", args.cases as u64);
    cw.write(&args.out, args.shards).unwrap();
    report.write(&args.out).unwrap();
}
