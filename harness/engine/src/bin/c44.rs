//! C44 correspondence harness (model: coq/Model/C44_Consensus.v, evaluation: coq/Corr/C44_run.v).
//! Per case: a LedgerSimulator with a random epoch-change condition and genesis time, then a random
//! sequence of real `next_round` system transactions (equal / decreasing / jumping timestamps,
//! round gaps with right and wrong gap-leader counts, stale rounds, invalid validator index,
//! timestamps beyond the i32 minute range) interleaved with get_current_time / compare_current_time
//! calls at both precisions. After every round update the consensus manager substates are read back.
//! Direct oracle (no model): observed clocks never decrease, epoch +0/+1 with round reset, minute ==
//! milli/60000, time queries and comparisons equal plain i128 arithmetic on the read-back clock.
use radix_common::prelude::*;
use radix_engine::blueprints::consensus_manager::*;
use radix_engine::errors::*;
use radix_engine::transaction::*;
use radix_engine::updates::BabylonSettings;
use radix_engine_interface::blueprints::consensus_manager::*;
use radix_engine_interface::prelude::*;
use radix_substate_store_impls::memory_db::InMemorySubstateDatabase;
use radix_transactions::prelude::*;
use scrypto_test::prelude::{LedgerSimulator, LedgerSimulatorBuilder, NoExtension};
use serde_json::json;
use vh_common::*;

type Ledger = LedgerSimulator<NoExtension, InMemorySubstateDatabase>;

#[derive(Clone, Debug, PartialEq)]
struct Cm {
    epoch: u64,
    round: u64,
    milli: i64,
    minute: i32,
    eff: i64,
    act: i64,
}
fn cm_coq(s: &Cm) -> String {
    format!("(mkCm {}%N {}%N {} {} {} {})", s.epoch, s.round, coq_z(s.milli), coq_z(s.minute), coq_z(s.eff), coq_z(s.act))
}

fn read_cm(ledger: &mut Ledger) -> Cm {
    let st = ledger.get_consensus_manager_state();
    let milli = ledger.get_current_proposer_timestamp_ms();
    let reader = radix_engine::system::system_db_reader::SystemDatabaseReader::new(ledger.substate_db());
    let minute = reader
        .read_typed_object_field::<ConsensusManagerProposerMinuteTimestampFieldPayload>(
            CONSENSUS_MANAGER.as_node_id(),
            ModuleId::Main,
            ConsensusManagerField::ProposerMinuteTimestamp.field_index(),
        )
        .unwrap()
        .fully_update_and_into_latest_version()
        .epoch_minute;
    Cm {
        epoch: st.epoch.number(),
        round: st.round.number(),
        milli,
        minute,
        eff: st.effective_epoch_start_milli,
        act: st.actual_epoch_start_milli,
    }
}

fn err_name(receipt: &TransactionReceipt) -> Option<String> {
    match &receipt.result {
        TransactionResult::Commit(c) => match &c.outcome {
            TransactionOutcome::Success(_) => None,
            TransactionOutcome::Failure(e) => Some(match e {
                RuntimeError::ApplicationError(ApplicationError::ConsensusManagerError(e)) => match e {
                    ConsensusManagerError::InvalidRoundUpdate { .. } => "InvalidRoundUpdate".to_string(),
                    ConsensusManagerError::InvalidProposerTimestampUpdate { .. } => "InvalidProposerTimestampUpdate".to_string(),
                    ConsensusManagerError::InconsistentGapRounds { .. } => "InconsistentGapRounds".to_string(),
                    ConsensusManagerError::InvalidValidatorIndex { .. } => "InvalidValidatorIndex".to_string(),
                    ConsensusManagerError::EpochMathOverflow => "EpochMathOverflow".to_string(),
                    ConsensusManagerError::InvalidConsensusTime(_) => "InvalidConsensusTime".to_string(),
                    other => format!("Other_{:?}", other).chars().filter(|c| c.is_ascii_alphanumeric() || *c == '_').take(40).collect(),
                },
                other => format!("Other_{:?}", other).chars().filter(|c| c.is_ascii_alphanumeric() || *c == '_').take(40).collect(),
            }),
        },
        TransactionResult::Reject(_) => Some("Other_Reject".to_string()),
        TransactionResult::Abort(_) => Some("Other_Abort".to_string()),
    }
}

fn op_name(o: TimeComparisonOperator) -> &'static str {
    match o {
        TimeComparisonOperator::Eq => "OpEq",
        TimeComparisonOperator::Lt => "OpLt",
        TimeComparisonOperator::Lte => "OpLte",
        TimeComparisonOperator::Gt => "OpGt",
        TimeComparisonOperator::Gte => "OpGte",
    }
}
fn cmp128(a: i128, b: i128, o: TimeComparisonOperator) -> bool {
    match o {
        TimeComparisonOperator::Eq => a == b,
        TimeComparisonOperator::Lt => a < b,
        TimeComparisonOperator::Lte => a <= b,
        TimeComparisonOperator::Gt => a > b,
        TimeComparisonOperator::Gte => a >= b,
    }
}

fn sys_call<A: ManifestEncode + ManifestSborTuple>(ledger: &mut Ledger, method: &str, args: A) -> TransactionReceipt {
    ledger.execute_system_transaction(
        ManifestBuilder::new_system_v1().call_method(CONSENSUS_MANAGER, method, args).build(),
        btreeset![system_execution(SystemExecution::Validator)],
    )
}

fn pick_instant(rng: &mut Rng, s: &Cm) -> i64 {
    let now = s.milli / 1000;
    match rng.below(14) {
        0 => now,
        1 => now + 1,
        2 => now - 1,
        3 => (s.minute as i64) * 60,
        4 => (s.minute as i64) * 60 + 59,
        5 => (s.minute as i64) * 60 + 60,
        6 => (s.minute as i64) * 60 - 1,
        7 => i64::MAX,
        8 => i64::MIN,
        9 => i64::MAX / 1000 + rng.below(3) as i64 - 1,
        10 => i64::MIN / 1000 - rng.below(3) as i64 + 1,
        11 => (i32::MAX as i64) * 60 + rng.below(121) as i64 - 60,
        12 => (i32::MIN as i64) * 60 - rng.below(121) as i64 + 60,
        _ => now + rng.below(100_000) as i64 - 50_000,
    }
}

fn main() {
    let args = Args::parse();
    let mut report = Report::new(
        "C44",
        args.seed,
        "per case one ledger (random epoch-change condition, genesis time incl. negative and near the i32-minute limit) and a random \
         sequence of next_round system transactions + time queries/comparisons; non-trivial = the history contains an accepted update, \
         a rejected update and an epoch change; distinct by canonical op text",
    );
    let mut cw = CaseWriter::new("RV.Corr.C44_run RV.Model.C44_Consensus", "check");
    let root = Rng::new(args.seed);
    let thorough = args.tier == "thorough";
    for ci in 0..args.cases {
        let mut rng = root.fork(ci as u64);
        let min_round = *rng.pick(&[1u64, 1, 2, 5]);
        let max_round = *rng.pick(&[min_round, min_round + 2, 10, 1000]);
        let target = *rng.pick(&[0u64, 500, 1000, 5000, 60_000, 300_000]);
        let limit_ms = (i32::MAX as i64) * 60_000;
        let initial_time = match rng.below(8) {
            0 => 0,
            1 => -(rng.below(200_000) as i64) - 1,
            2 if rng.chance(1, 2) => limit_ms - rng.below(3_000_000) as i64,
            3 if rng.chance(1, 4) => limit_ms + 59_999 - rng.below(1000) as i64,
            4 => rng.below(1_000_000_000_000) as i64,
            _ => 1 + rng.below(120_000) as i64,
        };
        let mut genesis = BabylonSettings::test_default().with_consensus_manager_config(
            ConsensusManagerConfig::test_default().with_epoch_change_condition(EpochChangeCondition {
                min_round_count: min_round,
                max_round_count: max_round,
                target_duration_millis: target,
            }),
        );
        genesis.initial_time_ms = initial_time;
        let built = catch(std::panic::AssertUnwindSafe(|| {
            LedgerSimulatorBuilder::new()
                .with_custom_protocol(|b| b.configure_babylon(|_| genesis).from_bootstrap_to_latest())
                .without_kernel_trace()
                .build()
        }));
        let mut ledger = match built {
            Ok(l) => l,
            Err(e) => {
                report.count("genesis_failed");
                report.notes.push(format!("case {}: genesis with initial_time {} failed: {}", ci, initial_time, e.chars().take(120).collect::<String>()));
                continue;
            }
        };
        let init = read_cm(&mut ledger);
        let cfg_coq = format!("(mkCfg {}%N {}%N {}%N)", min_round, max_round, target);
        let mut items: Vec<String> = vec![];
        let mut failures: Vec<String> = vec![];
        let nops = if thorough { 70 } else { 40 };
        let (mut n_ok, mut n_err, mut n_epoch) = (0u64, 0u64, 0u64);
        let mut s = init.clone();
        for _ in 0..nops {
            let r = rng.below(100);
            if r < 62 {
                // next_round
                let round = match rng.below(12) {
                    0 => s.round,
                    1 => s.round.saturating_sub(1),
                    2 | 3 => s.round + 2 + rng.below(3),
                    _ => s.round + 1,
                };
                let progressed = round.saturating_sub(s.round);
                let gaps = if rng.chance(1, 12) { progressed + rng.below(2) } else { progressed.saturating_sub(1) };
                let leaders_ok = !rng.chance(1, 20);
                let ts = match rng.below(16) {
                    0 => s.milli,
                    1 => s.milli - 1 - rng.below(5000) as i64,
                    2 => s.milli + 1,
                    3 => (s.milli / 60_000 + 1) * 60_000 - 1,
                    4 => (s.milli / 60_000 + 1) * 60_000,
                    5 => s.eff.saturating_add(target as i64),
                    6 => s.eff.saturating_add(target as i64 + (target / 10) as i64 + rng.below(3) as i64 - 1),
                    7 => s.eff.saturating_add(target as i64).saturating_sub(1),
                    8 if rng.chance(1, 3) => limit_ms + 60_000 + rng.below(1000) as i64,
                    9 if rng.chance(1, 3) => limit_ms + 59_999,
                    10 if rng.chance(1, 6) => i64::MAX - rng.below(3) as i64,
                    _ => s.milli + rng.below(90_000) as i64,
                };
                let receipt = sys_call(
                    &mut ledger,
                    CONSENSUS_MANAGER_NEXT_ROUND_IDENT,
                    ConsensusManagerNextRoundInput {
                        round: Round::of(round),
                        proposer_timestamp_ms: ts,
                        leader_proposal_history: LeaderProposalHistory {
                            gap_round_leaders: (0..gaps).map(|j| if !leaders_ok && j == gaps - 1 && rng.bool() { 7 } else { 0 }).collect(),
                            current_leader: if leaders_ok { 0 } else { 7 },
                            is_fallback: rng.chance(1, 10),
                        },
                    },
                );
                let e = err_name(&receipt);
                let after = read_cm(&mut ledger);
                // direct oracle
                if after.milli < s.milli || after.minute < s.minute {
                    failures.push(format!("clock decreased: {:?} -> {:?}", s, after));
                }
                if !(after.epoch == s.epoch || (after.epoch == s.epoch + 1 && after.round == 0)) {
                    failures.push(format!("epoch step not 0/+1 with round reset: {:?} -> {:?}", s, after));
                }
                if after.epoch == s.epoch && e.is_none() && after.round <= s.round {
                    failures.push(format!("round did not advance within the epoch: {:?} -> {:?}", s, after));
                }
                if (after.milli / 60_000) as i128 != after.minute as i128 {
                    failures.push(format!("minute clock {} != milli clock {} / 60000", after.minute, after.milli));
                }
                if e.is_some() && after != s {
                    failures.push(format!("failed round update changed the state: {:?} -> {:?}", s, after));
                }
                if e.is_none() {
                    n_ok += 1;
                    if after.milli != ts {
                        failures.push(format!("accepted timestamp {} not recorded (milli {})", ts, after.milli));
                    }
                } else {
                    n_err += 1;
                    report.count(&format!("err_{}", e.clone().unwrap()));
                }
                if after.epoch != s.epoch {
                    n_epoch += 1;
                }
                items.push(format!(
                    "(ONext (mkIn {}%N {} {}%N {}), RNext {} {})",
                    round,
                    coq_z(ts),
                    gaps,
                    coq_bool(leaders_ok),
                    match &e { None => "None".to_string(), Some(n) => format!("(Some {})", n) },
                    cm_coq(&after)
                ));
                s = after;
            } else if r < 74 {
                let second = rng.bool();
                let receipt = sys_call(
                    &mut ledger,
                    CONSENSUS_MANAGER_GET_CURRENT_TIME_IDENT,
                    ConsensusManagerGetCurrentTimeInputV2 { precision: if second { TimePrecisionV2::Second } else { TimePrecisionV2::Minute } },
                );
                let t: Instant = receipt.expect_commit(true).output(0);
                let expect = if second { (s.milli / 1000) as i128 } else { (s.minute as i128) * 60 };
                if t.seconds_since_unix_epoch as i128 != expect {
                    failures.push(format!("get_current_time({}) = {} but clock says {}", if second { "Second" } else { "Minute" }, t.seconds_since_unix_epoch, expect));
                }
                report.count("op_get_time");
                items.push(format!("({}, RTime {})", if second { "OGetSecond" } else { "OGetMinute" }, coq_z(t.seconds_since_unix_epoch)));
            } else {
                let second = rng.bool();
                let inst = pick_instant(&mut rng, &s);
                let o = *rng.pick(&[
                    TimeComparisonOperator::Eq,
                    TimeComparisonOperator::Lt,
                    TimeComparisonOperator::Lte,
                    TimeComparisonOperator::Gt,
                    TimeComparisonOperator::Gte,
                ]);
                let receipt = sys_call(
                    &mut ledger,
                    CONSENSUS_MANAGER_COMPARE_CURRENT_TIME_IDENT,
                    ConsensusManagerCompareCurrentTimeInputV2 {
                        instant: Instant::new(inst),
                        precision: if second { TimePrecisionV2::Second } else { TimePrecisionV2::Minute },
                        operator: o,
                    },
                );
                let b: bool = receipt.expect_commit(true).output(0);
                // the statement: recorded clock vs the argument truncated to the precision (saturated)
                let expect = if second {
                    cmp128((s.milli / 1000) as i128, inst as i128, o)
                } else {
                    let m = ((inst as i128) / 60).clamp(i32::MIN as i128, i32::MAX as i128);
                    cmp128(s.minute as i128, m, o)
                };
                if b != expect {
                    failures.push(format!("compare_current_time({}, {}, {}) = {} but the recorded clock {:?} gives {}", inst, if second { "Second" } else { "Minute" }, op_name(o), b, s, expect));
                }
                report.count("op_compare");
                items.push(format!("({} {} {}, RBool {})", if second { "OCmpSecond" } else { "OCmpMinute" }, coq_z(inst), op_name(o), coq_bool(b)));
            }
        }
        report.count_n("round_updates_accepted", n_ok);
        report.count_n("round_updates_rejected", n_err);
        report.count_n("epoch_changes", n_epoch);
        let canon = items.join(";");
        report.case(&format!("{}{}{}", cfg_coq, cm_coq(&init), canon), n_ok > 0 && n_err > 0 && n_epoch > 0);
        for f in failures {
            report.oracle_failure(ci, "", &f, json!({"cfg": cfg_coq, "init": cm_coq(&init), "ops": items.iter().take(80).collect::<Vec<_>>()}));
        }
        if ci < 2 {
            report.sample(json!({"cfg": cfg_coq, "init": cm_coq(&init), "ops": items.iter().take(12).collect::<Vec<_>>()}));
        }
        cw.push(format!("({}, {}, {})", cfg_coq, cm_coq(&init), coq_list(items.into_iter())));
    }
    report.floor("round_updates_accepted", args.cases as u64);
    report.floor("round_updates_rejected", (args.cases as u64) / 2);
    report.floor("epoch_changes", (args.cases as u64) / 4);
    report.floor("op_compare", args.cases as u64);
    cw.write(&args.out, args.shards).unwrap();
    report.write(&args.out).unwrap();
}
