//! C09 correspondence harness: random instruction sequences over the worktop, named buckets and
//! proofs (take / take ids / take all / return / assert / burn / deposit / deposit batch / bucket
//! proofs, reuse of consumed names, leftovers at the end), executed as real transactions; the Coq
//! model Model/C09_Worktop.v is evaluated on the same op lists (first failing instruction, error
//! class, final vault balances).
//! Direct oracles: (1) conservation from the receipt alone: on success, for every resource the sum
//! of all vault balance changes plus the burn events is zero (nothing vanished, nothing was
//! duplicated) — independent of any simulation; (2) declarative accounting (`txsim::Oracle`):
//! success iff every take is covered by what is on the worktop, every assertion holds, no name is
//! used after being consumed, and at the end every taken resource was deposited, burned or
//! returned-and-deposited (empty worktop, no bucket left).
#[path = "../txsim.rs"]
mod txsim;
use serde_json::json;
use std::collections::BTreeSet;
use txsim::*;
use vh_common::*;

struct Gen<'a> {
    rng: &'a mut Rng,
    o: Oracle,
}

impl<'a> Gen<'a> {
    fn amt(&mut self, res: usize, pivot: i128) -> i128 {
        let big = if res == 0 { UNIT } else { CENT };
        let u = unit_of(res);
        match self.rng.below(10) {
            0 | 1 | 2 => pivot,
            3 => pivot + u,
            4 => (pivot - u).max(0),
            5 => pivot / 2 / big * big,
            6 => big * (1 + self.rng.below(30) as i128),
            7 => 0,
            8 => match self.rng.below(3) {
                0 => -big,
                1 => pivot + 1,
                _ => pivot + big,
            },
            _ => {
                let k = (pivot / big).max(1);
                (self.rng.below(k as u64 + 1) as i128) * big
            }
        }
    }
    fn ids(&mut self, from: &BTreeSet<u64>) -> Vec<u64> {
        let mut pool: Vec<u64> = from.iter().cloned().collect();
        if self.rng.chance(1, 8) {
            pool.push(self.rng.range(1, 9));
            pool.sort();
            pool.dedup();
        }
        if pool.is_empty() {
            return if self.rng.chance(1, 2) { vec![] } else { vec![self.rng.range(1, 9)] };
        }
        self.rng.shuffle(&mut pool);
        let n = match self.rng.below(6) {
            0 => pool.len(),
            1 => 0,
            _ => 1 + self.rng.usize_below(pool.len().min(4)),
        };
        pool.truncate(n);
        pool
    }
    fn bucket(&mut self) -> u32 {
        let names: Vec<u32> = self.o.named.keys().cloned().collect();
        if names.is_empty() || self.rng.chance(1, 12) {
            // a consumed or never-created name
            self.rng.below(self.o.next_b as u64 + 2) as u32
        } else {
            *self.rng.pick(&names)
        }
    }
    fn next_op(&mut self) -> Op {
        let r = self.rng.usize_below(NRES);
        let wt = self.o.worktop_total(r);
        let wids: BTreeSet<u64> = self.o.worktop[r].map(|w| self.o.objs[&w].ids.clone()).unwrap_or_default();
        let has_bucket = !self.o.named.is_empty();
        let mut k = self.rng.below(100);
        if (62..90).contains(&k) && !has_bucket {
            k = self.rng.below(62);
        }
        if k < 16 {
            if r == 2 {
                let free = self.o.vaults[2].free_ids();
                Op::WithdrawNF(2, self.ids(&free))
            } else {
                let avail = self.o.vaults[r].avail();
                let big = if r == 0 { UNIT } else { CENT };
                let a = match self.rng.below(6) {
                    0 => avail,
                    1 => avail + unit_of(r),
                    _ => big * (1 + self.rng.below(40) as i128),
                };
                Op::Withdraw(r, a)
            }
        } else if k < 34 {
            if r == 2 {
                match self.rng.below(8) {
                    0 => Op::TakeFromWorktop(2, wt),                                  // whole bucket by amount
                    1 => Op::TakeFromWorktop(2, UNIT * self.rng.below(4) as i128),    // by amount: first n ids
                    2 => Op::TakeFromWorktop(2, UNIT / 2),
                    _ => Op::TakeNFFromWorktop(2, self.ids(&wids)),
                }
            } else {
                Op::TakeFromWorktop(r, self.amt(r, wt))
            }
        } else if k < 40 {
            Op::TakeAllFromWorktop(r)
        } else if k < 54 {
            if r == 2 {
                if self.rng.chance(1, 3) {
                    Op::AssertContainsAny(2)
                } else if self.rng.chance(1, 4) {
                    Op::AssertContains(2, self.amt(0, wt))
                } else {
                    Op::AssertContainsNF(2, self.ids(&wids))
                }
            } else if self.rng.chance(1, 4) {
                Op::AssertContainsAny(r)
            } else {
                Op::AssertContains(r, self.amt(r, wt))
            }
        } else if k < 58 {
            Op::DepositBatch
        } else if k < 62 {
            match self.rng.below(4) {
                0 => {
                    let a = self.amt(r.min(1), self.o.vaults[r.min(1)].avail());
                    Op::AcctBurn(r.min(1), a)
                }
                1 => Op::PopAuthZone,
                2 => Op::DropNamedProofs,
                _ => {
                    let a = self.amt(0, self.o.vaults[0].avail());
                    Op::Recall(0, a)
                }
            }
        } else if k < 74 {
            Op::ReturnToWorktop(self.bucket())
        } else if k < 80 {
            Op::Deposit(self.bucket())
        } else if k < 84 {
            Op::BurnBucket(self.bucket())
        } else if k < 90 {
            let b = self.bucket();
            match self.rng.below(3) {
                0 => Op::BucketProofAll(b),
                1 => match self.o.named.get(&b).map(|o| self.o.objs[o].clone()) {
                    Some(ob) if ob.res == 2 => Op::BucketProofNF(b, self.ids(&ob.ids)),
                    Some(ob) => Op::BucketProofAmount(b, self.amt(ob.res, ob.amt)),
                    None => Op::BucketProofAll(b),
                },
                _ => {
                    let names: Vec<u32> = self.o.pnamed.iter().map(|x| x.0).collect();
                    if names.is_empty() { Op::DropNamedProofs } else { Op::DropProof(*self.rng.pick(&names)) }
                }
            }
        } else if k < 96 {
            if r == 2 {
                let all = self.o.vaults[2].ids.clone();
                Op::AcctProofNF(2, self.ids(&all))
            } else {
                let t = self.o.vaults[r].amt;
                Op::AcctProofAmount(r, self.amt(r, t))
            }
        } else {
            match self.rng.below(3) {
                0 => Op::DropAllProofs,
                1 => Op::CloneProof(self.rng.below(self.o.next_p as u64 + 1) as u32),
                _ => Op::DropAuthZoneProofs,
            }
        }
    }
}


/// Deterministic boundary family (identical for every seed): takes of exactly / one unit below /
/// one unit above what the worktop holds, zero and negative takes, non-fungible takes by ids and by
/// amount (all, subset, missing, empty, after an order-changing removal), assertions exactly at the
/// held amount, every way of ending a transaction with something left, every reuse of a consumed
/// bucket / proof name.
fn boundary_cases() -> Vec<(&'static str, Vec<Op>)> {
    use Op::*;
    let w = 10 * UNIT;
    let mut v: Vec<(&'static str, Vec<Op>)> = Vec::new();
    for (r, unit, total) in [(0usize, 1i128, w), (1usize, CENT, w)] {
        for a in [total, total - unit, total + unit, 0, -unit, unit, total - 1, total + 1] {
            v.push(("bnd_take", vec![Withdraw(r, total), TakeFromWorktop(r, a), Deposit(0), DepositBatch]));
            v.push(("bnd_assert", vec![Withdraw(r, total), AssertContains(r, a), DepositBatch]));
        }
        v.push(("bnd_take", vec![Withdraw(r, total), TakeFromWorktop(r, total), TakeFromWorktop(r, unit)]));
        v.push(("bnd_take", vec![Withdraw(r, total), TakeFromWorktop(r, total), TakeFromWorktop(r, 0), ReturnToWorktop(1), Deposit(0)]));
        v.push(("bnd_take", vec![Withdraw(r, total), TakeFromWorktop(r, total - unit), TakeFromWorktop(r, unit), AssertContains(r, 0), Deposit(0), Deposit(1)]));
        v.push(("bnd_take", vec![Withdraw(r, total), TakeFromWorktop(r, total - unit), TakeFromWorktop(r, 2 * unit)]));
        v.push(("bnd_take", vec![Withdraw(r, total), Withdraw(r, total), TakeFromWorktop(r, 2 * total), Deposit(0)]));
        v.push(("bnd_take", vec![Withdraw(r, total), TakeAllFromWorktop(r), TakeAllFromWorktop(r), ReturnToWorktop(1), ReturnToWorktop(0), TakeFromWorktop(r, total), Deposit(2)]));
        v.push(("bnd_take", vec![Withdraw(r, total), TakeFromWorktop(r, total), BucketProofAll(0), ReturnToWorktop(0), TakeFromWorktop(r, total), DropNamedProofs, Deposit(1)]));
        v.push(("bnd_take", vec![Withdraw(r, total), TakeFromWorktop(r, total), BucketProofAmount(0, unit), ReturnToWorktop(0), TakeFromWorktop(r, total - unit), TakeFromWorktop(r, unit), DropNamedProofs, Deposit(1), Deposit(2)]));
        v.push(("bnd_take", vec![TakeFromWorktop(r, unit)]));
        v.push(("bnd_take", vec![TakeFromWorktop(r, 0)]));
        v.push(("bnd_take", vec![TakeFromWorktop(r, 0), ReturnToWorktop(0)]));
        v.push(("bnd_take", vec![TakeAllFromWorktop(r), Deposit(0)]));
        v.push(("bnd_take", vec![TakeAllFromWorktop(r), BurnBucket(0)]));
        v.push(("bnd_assert", vec![AssertContains(r, 0)]));
        v.push(("bnd_assert", vec![AssertContains(r, unit)]));
        v.push(("bnd_assert", vec![AssertContainsAny(r)]));
        v.push(("bnd_assert", vec![Withdraw(r, unit), AssertContainsAny(r), DepositBatch]));
        v.push(("bnd_assert", vec![Withdraw(r, total), TakeFromWorktop(r, total), AssertContainsAny(r)]));
        v.push(("bnd_assert", vec![Withdraw(r, total), TakeFromWorktop(r, total - unit), AssertContains(r, unit), AssertContains(r, 2 * unit)]));
        v.push(("bnd_assert", vec![Withdraw(r, 0), AssertContainsAny(r)]));
    }
    // non-fungible takes
    let nfw = WithdrawNF(2, vec![1, 2, 3]);
    for ids in [vec![1, 2, 3], vec![3, 1, 2], vec![1, 2], vec![3], vec![1, 9], vec![9], vec![], vec![1, 2, 3, 4]] {
        v.push(("bnd_nf_take", vec![nfw.clone(), TakeNFFromWorktop(2, ids.clone()), Deposit(0), DepositBatch]));
        v.push(("bnd_nf_assert", vec![nfw.clone(), AssertContainsNF(2, ids.clone()), DepositBatch]));
        v.push(("bnd_nf_take", vec![nfw.clone(), TakeNFFromWorktop(2, ids), BurnBucket(0), DepositBatch]));
    }
    for a in [3 * UNIT, 2 * UNIT, UNIT, 0, 4 * UNIT, UNIT / 2, 3 * UNIT + 1, -UNIT] {
        v.push(("bnd_nf_take", vec![nfw.clone(), TakeFromWorktop(2, a), BurnBucket(0), DepositBatch]));
        v.push(("bnd_nf_assert", vec![nfw.clone(), AssertContains(2, a), DepositBatch]));
    }
    // order of the id set after removals decides what a take-by-amount picks
    v.push(("bnd_nf_take", vec![nfw.clone(), TakeNFFromWorktop(2, vec![1]), TakeFromWorktop(2, UNIT), BurnBucket(1), Deposit(0), DepositBatch]));
    v.push(("bnd_nf_take", vec![WithdrawNF(2, vec![4, 1, 3, 2]), TakeNFFromWorktop(2, vec![1]), TakeFromWorktop(2, 2 * UNIT), BurnBucket(1), Deposit(0), DepositBatch]));
    v.push(("bnd_nf_take", vec![nfw.clone(), TakeNFFromWorktop(2, vec![2]), ReturnToWorktop(0), TakeFromWorktop(2, 2 * UNIT), BurnBucket(1), DepositBatch]));
    v.push(("bnd_nf_take", vec![nfw.clone(), WithdrawNF(2, vec![5]), TakeFromWorktop(2, 4 * UNIT), TakeNFFromWorktop(2, vec![5]), Deposit(0)]));
    v.push(("bnd_nf_assert", vec![AssertContainsNF(2, vec![])]));
    v.push(("bnd_nf_assert", vec![AssertContainsNF(2, vec![1])]));
    v.push(("bnd_nf_assert", vec![AssertContainsAny(2)]));
    v.push(("bnd_nf_assert", vec![nfw.clone(), TakeNFFromWorktop(2, vec![1, 2, 3]), AssertContainsNF(2, vec![1])]));
    // endings and reuse of consumed names
    let pre = vec![Withdraw(0, w), TakeFromWorktop(0, 4 * UNIT)];
    let with = |extra: Vec<Op>| {
        let mut o = pre.clone();
        o.extend(extra);
        o
    };
    v.push(("bnd_dispose", with(vec![])));
    v.push(("bnd_dispose", with(vec![DepositBatch])));
    v.push(("bnd_dispose", with(vec![Deposit(0)])));
    v.push(("bnd_dispose", with(vec![Deposit(0), DepositBatch])));
    v.push(("bnd_dispose", with(vec![BurnBucket(0), DepositBatch])));
    v.push(("bnd_dispose", with(vec![ReturnToWorktop(0), DepositBatch])));
    v.push(("bnd_dispose", with(vec![ReturnToWorktop(0), AssertContains(0, w), AssertContains(0, w + 1)])));
    v.push(("bnd_dispose", with(vec![Deposit(0), Deposit(0)])));
    v.push(("bnd_dispose", with(vec![ReturnToWorktop(0), ReturnToWorktop(0)])));
    v.push(("bnd_dispose", with(vec![BurnBucket(0), Deposit(0)])));
    v.push(("bnd_dispose", with(vec![Deposit(0), BurnBucket(0)])));
    v.push(("bnd_dispose", with(vec![Deposit(0), BucketProofAll(0)])));
    v.push(("bnd_dispose", with(vec![Deposit(1)])));
    v.push(("bnd_dispose", with(vec![DepositBatch, DepositBatch, Deposit(0)])));
    v.push(("bnd_dispose", vec![DepositBatch]));
    v.push(("bnd_dispose", vec![Withdraw(0, 0)]));
    v.push(("bnd_dispose", vec![Withdraw(0, 1)]));
    v.push(("bnd_dispose", vec![Withdraw(0, w), TakeFromWorktop(0, w)]));
    v.push(("bnd_dispose", vec![Withdraw(0, w), TakeFromWorktop(0, w), TakeFromWorktop(0, 0), Deposit(0)]));
    v.push(("bnd_dispose", vec![Withdraw(0, w), AcctBurn(0, w), DepositBatch]));
    v.push(("bnd_dispose", vec![Withdraw(0, w), Withdraw(1, w), nfw.clone(), TakeAllFromWorktop(1), DepositBatch, BurnBucket(0)]));
    v.push(("bnd_dispose", vec![Withdraw(0, w), Withdraw(1, w), nfw.clone(), DropAllProofs, DepositBatch]));
    // proof names
    v.push(("bnd_proof_names", vec![DropProof(0)]));
    v.push(("bnd_proof_names", vec![CloneProof(0)]));
    v.push(("bnd_proof_names", vec![PushAuthZone(0)]));
    v.push(("bnd_proof_names", vec![PopAuthZone]));
    v.push(("bnd_proof_names", vec![AcctProofAmount(0, UNIT), PopAuthZone, PopAuthZone]));
    v.push(("bnd_proof_names", vec![AcctProofAmount(0, UNIT), PopAuthZone, DropProof(0), DropProof(0)]));
    v.push(("bnd_proof_names", vec![AcctProofAmount(0, UNIT), PopAuthZone, PushAuthZone(0), CloneProof(0)]));
    v.push(("bnd_proof_names", vec![AcctProofAmount(0, UNIT), PopAuthZone, PushAuthZone(0), PopAuthZone, DropProof(1)]));
    v.push(("bnd_proof_names", vec![AcctProofAmount(0, UNIT), PopAuthZone, CloneProof(0), DropNamedProofs, DropProof(1)]));
    v.push(("bnd_proof_names", vec![AcctProofAmount(0, UNIT), AcctProofNF(2, vec![1])]));
    v
}

fn gen_case(rng: &mut Rng, init_fung: [i128; 2], init_nf: &[u64]) -> Vec<Op> {
    let len = if rng.chance(1, 8) { rng.range(1, 5) } else { rng.range(6, 30) } as usize;
    let tidy = rng.below(10);
    let mut g = Gen { rng, o: Oracle::new(init_fung, init_nf) };
    let mut ops = Vec::new();
    for _ in 0..len {
        let op = g.next_op();
        let mut trial = g.o.clone();
        let ok = trial.step(&op).is_ok();
        if !ok && !g.rng.chance(1, 4) {
            continue;
        }
        ops.push(op);
        if !ok || trial.unknown {
            if trial.unknown && g.rng.chance(1, 2) {
                // which ids went where is not known to the generator: finish blindly
                ops.push(Op::DropNamedProofs);
                ops.push(Op::BurnBucket(g.o.next_b));
                ops.push(Op::DepositBatch);
            }
            return ops;
        }
        g.o = trial;
    }
    if tidy < 6 {
        // dispose of everything
        ops.push(Op::DropNamedProofs);
        let names: Vec<u32> = g.o.named.keys().cloned().collect();
        for b in names {
            ops.push(match g.rng.below(4) {
                0 => Op::BurnBucket(b),
                1 => Op::Deposit(b),
                _ => Op::ReturnToWorktop(b),
            });
        }
        if !g.o.signed {
            return ops;
        }
        ops.push(Op::DepositBatch);
    } else if tidy < 8 {
        // forget one thing: either the named buckets or the worktop
        ops.push(Op::DropNamedProofs);
        if g.rng.chance(1, 2) {
            ops.push(Op::DepositBatch);
        } else {
            let names: Vec<u32> = g.o.named.keys().cloned().collect();
            for b in names {
                ops.push(Op::Deposit(b));
            }
        }
    }
    ops
}

fn main() {
    let args = Args::parse();
    let mut report = Report::new(
        "C09",
        args.seed,
        "random manifests (6..30 ops) over an account holding 2 fungibles + 8 non-fungibles: withdraw, take (exact = bucket move, \
         partial = split, zero, too much, non-fungible by amount), take ids, take all, return, assertions, burn, deposit, deposit batch, \
         bucket proofs, reuse of consumed names, untidy endings; non-trivial = at least one bucket was taken from the worktop and the \
         run reached an instruction that failed or the end; distinct by canonical text of the op list",
    );
    let mut cw = CaseWriter::new("RV.Corr.C09_run RV.Model.C10_ProofLock RV.Model.C09_Worktop", "check");
    let root = Rng::new(args.seed);
    let mut sim = Sim::new();
    let (init_fung, init_nf) = (sim.init_fung, sim.init_nf.clone());
    let init_coq = format!("({}, {}, {})", coq_z(init_fung[0]), coq_z(init_fung[1]), coq_ids(&init_nf));
    let mut bnd = boundary_cases();
    // buckets under several proofs dropped out of order, then split off the worktop (shared with C10)
    bnd.extend(proof_order_family(false, &[vec![2, 2, 3], vec![2, 3, 5]]));
    for i in 0..(args.cases + bnd.len()) {
        let mut rng = root.fork(i as u64);
        let ops = match bnd.get(i) {
            Some((class, ops)) => {
                report.count(class);
                ops.clone()
            }
            None => {
                report.count("random_cases");
                gen_case(&mut rng, init_fung, &init_nf)
            }
        };
        let res = sim.run_case(&ops);
        let canon = op_json(&ops).join(";");
        let takes = ops.iter().filter(|o| matches!(o, Op::TakeFromWorktop(..) | Op::TakeNFFromWorktop(..) | Op::TakeAllFromWorktop(..))).count();
        report.case(&canon, takes > 0);
        report.count_n("ops_total", ops.len() as u64);
        report.count_n("takes", takes as u64);
        match &res.fail {
            None => report.count("tx_success"),
            Some((idx, c)) => {
                report.count("tx_failure");
                report.count(&format!("fail_{}", c.coq()));
                if *idx == ops.len() {
                    report.count("fail_at_end_of_transaction");
                }
                if let Err::Other(s) = c {
                    report.notes.push(format!("case {}: unclassified error {}", i, s.chars().take(300).collect::<String>()));
                }
            }
        }
        if let Some(n) = &res.note {
            report.notes.push(format!("case {}: {}", i, n));
            report.count("notes");
        }
        let input = json!({"ops": op_json(&ops), "engine": format!("{:?} {:?}", res.fail, res.deltas)});
        // oracle 1: conservation from the receipt alone
        if let Some(d) = &res.deltas {
            report.count("conservation_checked");
            let mut bad = Vec::new();
            for r in 0..2 {
                if d.fung[r] + d.burned_f[r] != 0 {
                    bad.push(format!("resource {}: vault change {} + burned {} != 0", r, d.fung[r], d.burned_f[r]));
                }
            }
            let burned: BTreeSet<u64> = d.burned_n.iter().cloned().collect();
            if burned.len() != d.burned_n.len() {
                bad.push("a non-fungible id was burned twice".to_string());
            }
            if !d.nf_added.is_empty() || d.nf_removed != burned {
                bad.push(format!("non-fungible: added {:?} removed {:?} burned {:?}", d.nf_added, d.nf_removed, burned));
            }
            if d.other_vault_changes != 0 {
                bad.push("a vault outside the account changed".to_string());
            }
            if !bad.is_empty() {
                report.oracle_failure(i, "", &format!("successful transaction does not conserve resources: {}", bad.join("; ")), input.clone());
            }
        }
        // oracle 2: declarative accounting
        match oracle_predict(init_fung, &init_nf, &ops) {
            None => {
                report.count("oracle_undecided");
            }
            Some((pfail, pd, _)) => match (&pfail, &res.fail) {
                (None, None) => {
                    if pd != res.deltas {
                        report.oracle_failure(i, "", &format!("final balances differ: expected {:?}", pd), input);
                    }
                }
                (Some((pi, why)), Some((ei, _))) => {
                    if pi != ei {
                        report.oracle_failure(i, "", &format!("first failing step: expected {} ({}), engine {}", pi, why, ei), input);
                    }
                }
                (Some((pi, why)), None) => {
                    report.oracle_failure(i, "", &format!("engine accepted a transaction that must fail at step {} ({})", pi, why), input);
                }
                (None, Some((ei, c))) => {
                    report.oracle_failure(i, "", &format!("engine failed at step {} ({:?}) a transaction that must succeed", ei, c), input);
                }
            },
        }
        if i < 3 {
            report.sample(json!({"ops": op_json(&ops), "engine": format!("{:?} {:?}", res.fail, res.deltas)}));
        }
        cw.push(case_coq3(&init_coq, &ops, &res));
    }
    report.extra.insert("engine_executions".into(), json!(sim.runs));
    report.floor("tx_success", (args.cases as u64) / 6);
    report.floor("tx_failure", (args.cases as u64) / 10);
    report.floor("takes", args.cases as u64);
    report.floor("conservation_checked", (args.cases as u64) / 6);
    class_floors(&mut report, &bnd);
    cw.write(&args.out, args.shards).unwrap();
    report.write(&args.out).unwrap();
}
