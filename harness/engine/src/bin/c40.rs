//! C40 correspondence harness: drives real access controllers (v1 code on a ledger bootstrapped to
//! Anemone, v2 code on a ledger at the latest protocol version) through random call sequences by the
//! three roles and strangers with time advances; after every transaction the controller's state
//! substate, its role assignment and the controlled-asset vault are read back from the database.
//! The Coq model (coq/Model/C40_AccessController.v, admission through the generated table
//! coq/Gen/C40_ac_roles.v) is evaluated on the same sequences.
//! Direct oracle (independent of the model): the property's own statement with ghost bookkeeping of
//! who proposed what (see `oracle`).
use radix_engine::object_modules::role_assignment::*;
use radix_engine::system::system_db_reader::*;
use scrypto_test::prelude::*;
use serde_json::json;
use vh_common::*;

const NB: usize = 6; // badge resources 0..5
const KNOWN_CLASS: &str = "timed_confirm_by_non_recovery_caller";
const KNOWN_CLASS_CLOCK: &str = "timed_confirm_clock_saturation";

#[derive(Clone, Copy, PartialEq, Eq, Debug)]
enum Rule {
    Allow,
    Deny,
    Req(usize),
}
#[derive(Clone, PartialEq, Eq, Debug)]
struct Prop {
    rules: [Rule; 3],
    delay: Option<u32>,
}
#[derive(Clone, Copy, PartialEq, Eq, Debug)]
enum Pr {
    Primary,
    Recovery,
}
#[derive(Clone, PartialEq, Eq, Debug)]
enum Meth {
    CreateProof,
    InitRec(Pr, Prop),
    InitWd(Pr),
    QuickRec(Pr, Prop),
    QuickWd(Pr),
    Timed(Prop),
    CancelRec(Pr),
    CancelWd(Pr),
    Lock,
    Unlock,
    Stop(Prop),
    Mint(Vec<u64>),
    WithdrawFee(i64),
    ContributeFee(i64),
    SetRoleDirect(usize, Rule),
    BurnBadge(u64),
}
#[derive(Clone, PartialEq, Eq, Debug)]
enum RecAtt {
    None,
    Untimed(Prop),
    Timed(Prop, i64),
}
#[derive(Clone, PartialEq, Eq, Debug)]
struct Obs {
    locked: bool,
    prim_rec: Option<Prop>,
    prim_wd: bool,
    rec_rec: RecAtt,
    rec_wd: bool,
    roles: [Rule; 3],
    badge: bool,
    fee: Option<i64>,
}
#[derive(Clone, Debug)]
struct Step {
    who: Vec<usize>,
    now: i64,
    meth: Meth,
    out: String, // Coq term of type outcome
    obs: Obs,
}

struct World {
    ledger: DefaultLedgerSimulator,
    v2: bool,
    account: ComponentAddress,
    pk: Secp256k1PublicKey,
    badges: Vec<ResourceAddress>,
    asset: ResourceAddress,
    minute: i64,
    last_ms: i64,
    recovery_badge: Option<ResourceAddress>,
}

impl World {
    fn new(v2: bool) -> World {
        let mut ledger = if v2 {
            LedgerSimulatorBuilder::new().build()
        } else {
            LedgerSimulatorBuilder::new()
                .with_custom_protocol(|b| b.from_bootstrap_to(ProtocolVersion::Anemone))
                .build()
        };
        let (pk, _, account) = ledger.new_account(false);
        let badges = (0..NB)
            .map(|_| ledger.create_fungible_resource(dec!(1000), 0, account))
            .collect();
        let asset = ledger.create_fungible_resource(dec!(1000000), 0, account);
        let ms = ledger.get_current_proposer_timestamp_ms();
        let mut w = World { ledger, v2, account, pk, badges, asset, minute: 0, last_ms: ms, recovery_badge: None };
        w.set_minute(ms / 60000 + 1, 0);
        w
    }
    fn rule(&self, r: Rule) -> AccessRule {
        match r {
            Rule::Allow => AccessRule::AllowAll,
            Rule::Deny => AccessRule::DenyAll,
            Rule::Req(i) => rule!(require(self.badges[i])),
        }
    }
    fn unrule(&self, a: &AccessRule) -> Rule {
        for r in [Rule::Allow, Rule::Deny].into_iter().chain((0..NB).map(Rule::Req)) {
            if &self.rule(r) == a {
                return r;
            }
        }
        panic!("unexpected access rule {:?}", a);
    }
    fn rule_set(&self, r: &[Rule; 3]) -> RuleSet {
        RuleSet { primary_role: self.rule(r[0]), recovery_role: self.rule(r[1]), confirmation_role: self.rule(r[2]) }
    }
    fn unprop(&self, p: &RecoveryProposal) -> Prop {
        Prop {
            rules: [self.unrule(&p.rule_set.primary_role), self.unrule(&p.rule_set.recovery_role), self.unrule(&p.rule_set.confirmation_role)],
            delay: p.timed_recovery_delay_in_minutes,
        }
    }
    fn set_minute(&mut self, m: i64, jitter_ms: i64) {
        // the proposer timestamp must not decrease: stay within minute m, at or after the last timestamp
        let ms = (m * 60000 + jitter_ms).max(self.last_ms).min(m * 60000 + 59999);
        self.ledger
            .advance_to_round_at_timestamp(Round::of(1), ms)
            .expect_commit_success();
        self.minute = m;
        self.last_ms = ms;
        // the minute the engine holds must be the one recorded in the case
        let reader = SystemDatabaseReader::new(self.ledger.substate_db());
        let held = reader
            .read_typed_object_field::<ConsensusManagerProposerMinuteTimestampFieldPayload>(
                CONSENSUS_MANAGER.as_node_id(),
                ModuleId::Main,
                ConsensusManagerField::ProposerMinuteTimestamp.field_index(),
            )
            .unwrap()
            .fully_update_and_into_latest_version()
            .epoch_minute;
        assert_eq!(held as i64, m, "engine minute differs from the harness clock");
    }
    fn exec(&mut self, m: TransactionManifestV1) -> TransactionReceipt {
        self.ledger.execute_manifest(m, [NonFungibleGlobalId::from_public_key(self.pk)])
    }
    fn create(&mut self, rules: &[Rule; 3], delay: Option<u32>) -> ComponentAddress {
        let manifest = ManifestBuilder::new()
            .lock_fee_from_faucet()
            .withdraw_from_account(self.account, self.asset, 1)
            .take_all_from_worktop(self.asset, "asset")
            .create_access_controller("asset", self.rule(rules[0]), self.rule(rules[1]), self.rule(rules[2]), delay)
            .build();
        let receipt = self.exec(manifest);
        receipt.expect_commit(true).new_component_addresses()[0]
    }
    fn observe(&mut self, ac: ComponentAddress) -> (Obs, Option<u32>) {
        let (state, vault, delay, fee_vault, recovery_badge) = if self.v2 {
            let p: v2::AccessControllerV2StateFieldPayload = self.ledger.component_state(ac);
            let s = p.fully_update_and_into_latest_version();
            (s.state, s.controlled_asset, s.timed_recovery_delay_in_minutes, s.xrd_fee_vault, s.recovery_badge)
        } else {
            let p: v1::AccessControllerStateFieldPayload = self.ledger.component_state(ac);
            let s = p.fully_update_and_into_latest_version();
            (s.state, s.controlled_asset, s.timed_recovery_delay_in_minutes, None, s.recovery_badge)
        };
        self.recovery_badge = Some(recovery_badge);
        let fee = fee_vault.map(|v| {
            let b = self.ledger.inspect_vault_balance(v.0 .0).expect("fee vault");
            b.to_string().parse::<i64>().expect("whole XRD in the fee vault")
        });
        let bal = self.ledger.inspect_vault_balance(vault.0 .0).expect("vault");
        let mut roles = [Rule::Deny; 3];
        for (i, name) in ["primary", "recovery", "confirmation"].iter().enumerate() {
            let reader = SystemDatabaseReader::new(self.ledger.substate_db());
            let e: Option<RoleAssignmentAccessRuleEntryPayload> = reader
                .read_object_collection_entry(
                    ac.as_node_id(),
                    ModuleId::RoleAssignment,
                    ObjectCollectionKey::KeyValue(
                        RoleAssignmentCollection::AccessRuleKeyValue.collection_index(),
                        &ModuleRoleKey::new(ModuleId::Main, *name),
                    ),
                )
                .expect("role entry readable");
            let rule = e.expect("role assigned").fully_update_and_into_latest_version();
            roles[i] = self.unrule(&rule);
        }
        let obs = Obs {
            locked: matches!(state.0, PrimaryRoleLockingState::Locked),
            prim_rec: match &state.1 {
                PrimaryRoleRecoveryAttemptState::NoRecoveryAttempt => None,
                PrimaryRoleRecoveryAttemptState::RecoveryAttempt(p) => Some(self.unprop(p)),
            },
            prim_wd: matches!(state.2, PrimaryRoleBadgeWithdrawAttemptState::BadgeWithdrawAttempt),
            rec_rec: match &state.3 {
                RecoveryRoleRecoveryAttemptState::NoRecoveryAttempt => RecAtt::None,
                RecoveryRoleRecoveryAttemptState::RecoveryAttempt(RecoveryRoleRecoveryState::UntimedRecovery(p)) => RecAtt::Untimed(self.unprop(p)),
                RecoveryRoleRecoveryAttemptState::RecoveryAttempt(RecoveryRoleRecoveryState::TimedRecovery { proposal, timed_recovery_allowed_after }) => {
                    RecAtt::Timed(self.unprop(proposal), timed_recovery_allowed_after.seconds_since_unix_epoch)
                }
            },
            rec_wd: matches!(state.4, RecoveryRoleBadgeWithdrawAttemptState::BadgeWithdrawAttempt),
            roles,
            badge: bal == dec!(1),
            fee,
        };
        assert!(bal == dec!(1) || bal == dec!(0), "controlled asset balance {}", bal);
        (obs, delay)
    }
    fn call(&mut self, ac: ComponentAddress, who: &[usize], m: &Meth) -> String {
        let mut b = ManifestBuilder::new().lock_fee_from_faucet();
        for i in who {
            b = b.create_proof_from_account_of_amount(self.account, self.badges[*i], dec!(1));
        }
        let prop_in = |w: &World, p: &Prop| AccessControllerInitiateRecoveryAsPrimaryInput {
            rule_set: w.rule_set(&p.rules),
            timed_recovery_delay_in_minutes: p.delay,
        };
        b = match m {
            Meth::CreateProof => b.call_method(ac, ACCESS_CONTROLLER_CREATE_PROOF_IDENT, AccessControllerCreateProofInput {}),
            Meth::InitRec(pr, p) => b.call_method(
                ac,
                match pr {
                    Pr::Primary => ACCESS_CONTROLLER_INITIATE_RECOVERY_AS_PRIMARY_IDENT,
                    Pr::Recovery => ACCESS_CONTROLLER_INITIATE_RECOVERY_AS_RECOVERY_IDENT,
                },
                prop_in(self, p),
            ),
            Meth::InitWd(pr) => b.call_method(
                ac,
                match pr {
                    Pr::Primary => ACCESS_CONTROLLER_INITIATE_BADGE_WITHDRAW_ATTEMPT_AS_PRIMARY_IDENT,
                    Pr::Recovery => ACCESS_CONTROLLER_INITIATE_BADGE_WITHDRAW_ATTEMPT_AS_RECOVERY_IDENT,
                },
                AccessControllerInitiateBadgeWithdrawAttemptAsPrimaryInput {},
            ),
            Meth::QuickRec(pr, p) => b.call_method(
                ac,
                match pr {
                    Pr::Primary => ACCESS_CONTROLLER_QUICK_CONFIRM_PRIMARY_ROLE_RECOVERY_PROPOSAL_IDENT,
                    Pr::Recovery => ACCESS_CONTROLLER_QUICK_CONFIRM_RECOVERY_ROLE_RECOVERY_PROPOSAL_IDENT,
                },
                prop_in(self, p),
            ),
            Meth::QuickWd(pr) => b.call_method(
                ac,
                match pr {
                    Pr::Primary => ACCESS_CONTROLLER_QUICK_CONFIRM_PRIMARY_ROLE_BADGE_WITHDRAW_ATTEMPT_IDENT,
                    Pr::Recovery => ACCESS_CONTROLLER_QUICK_CONFIRM_RECOVERY_ROLE_BADGE_WITHDRAW_ATTEMPT_IDENT,
                },
                AccessControllerQuickConfirmPrimaryRoleBadgeWithdrawAttemptInput {},
            ),
            Meth::Timed(p) => b.call_method(ac, ACCESS_CONTROLLER_TIMED_CONFIRM_RECOVERY_IDENT, prop_in(self, p)),
            Meth::CancelRec(pr) => b.call_method(
                ac,
                match pr {
                    Pr::Primary => ACCESS_CONTROLLER_CANCEL_PRIMARY_ROLE_RECOVERY_PROPOSAL_IDENT,
                    Pr::Recovery => ACCESS_CONTROLLER_CANCEL_RECOVERY_ROLE_RECOVERY_PROPOSAL_IDENT,
                },
                AccessControllerCancelPrimaryRoleRecoveryProposalInput {},
            ),
            Meth::CancelWd(pr) => b.call_method(
                ac,
                match pr {
                    Pr::Primary => ACCESS_CONTROLLER_CANCEL_PRIMARY_ROLE_BADGE_WITHDRAW_ATTEMPT_IDENT,
                    Pr::Recovery => ACCESS_CONTROLLER_CANCEL_RECOVERY_ROLE_BADGE_WITHDRAW_ATTEMPT_IDENT,
                },
                AccessControllerCancelPrimaryRoleBadgeWithdrawAttemptInput {},
            ),
            Meth::Lock => b.call_method(ac, ACCESS_CONTROLLER_LOCK_PRIMARY_ROLE_IDENT, AccessControllerLockPrimaryRoleInput {}),
            Meth::Unlock => b.call_method(ac, ACCESS_CONTROLLER_UNLOCK_PRIMARY_ROLE_IDENT, AccessControllerUnlockPrimaryRoleInput {}),
            Meth::Stop(p) => b.call_method(ac, ACCESS_CONTROLLER_STOP_TIMED_RECOVERY_IDENT, prop_in(self, p)),
            Meth::Mint(ids) => b.call_method(
                ac,
                ACCESS_CONTROLLER_MINT_RECOVERY_BADGES_IDENT,
                AccessControllerMintRecoveryBadgesInput {
                    non_fungible_local_ids: ids.iter().map(|i| NonFungibleLocalId::integer(*i)).collect(),
                },
            ),
            Meth::WithdrawFee(a) => b.call_method(
                ac,
                ACCESS_CONTROLLER_WITHDRAW_RECOVERY_FEE_IDENT,
                AccessControllerWithdrawRecoveryFeeInput { amount: Decimal::from(*a) },
            ),
            Meth::ContributeFee(a) => b
                .withdraw_from_account(self.account, XRD, Decimal::from(*a))
                .take_all_from_worktop(XRD, "fee")
                .with_name_lookup(|b, l| {
                    b.call_method(
                        ac,
                        ACCESS_CONTROLLER_CONTRIBUTE_RECOVERY_FEE_IDENT,
                        AccessControllerContributeRecoveryFeeManifestInput { bucket: l.bucket("fee") },
                    )
                }),
            Meth::SetRoleDirect(r, x) => b.set_main_role(ac, ["primary", "recovery", "confirmation"][*r], self.rule(*x)),
            Meth::BurnBadge(id) => b.burn_non_fungibles_in_account(self.account, self.recovery_badge.expect("observed"), [NonFungibleLocalId::integer(*id)]),
        };
        let manifest = b.try_deposit_entire_worktop_or_abort(self.account, None).build();
        let receipt = self.exec(manifest);
        match &receipt.result {
            TransactionResult::Commit(c) => match &c.outcome {
                TransactionOutcome::Success(_) => "Ok".to_string(),
                TransactionOutcome::Failure(e) => format!("(Fail {})", classify(e)),
            },
            other => panic!("transaction not committed: {:?}", other),
        }
    }
}

fn pr_coq(p: Pr) -> &'static str {
    match p {
        Pr::Primary => "PPrimary",
        Pr::Recovery => "PRecovery",
    }
}
fn proposer_coq(p: &Proposer) -> &'static str {
    match p {
        Proposer::Primary => "PPrimary",
        Proposer::Recovery => "PRecovery",
    }
}
fn classify(e: &RuntimeError) -> String {
    match e {
        RuntimeError::SystemModuleError(SystemModuleError::AuthError(AuthError::Unauthorized(_))) => "EUnauthorized".into(),
        RuntimeError::ApplicationError(ApplicationError::AccessControllerError(x)) => match x {
            AccessControllerError::OperationRequiresUnlockedPrimaryRole => "EOpRequiresUnlocked".into(),
            AccessControllerError::TimeOverflow => "ETimeOverflow".into(),
            AccessControllerError::RecoveryAlreadyExistsForProposer { proposer } => format!("(ERecAlreadyExists {})", proposer_coq(proposer)),
            AccessControllerError::NoRecoveryExistsForProposer { proposer } => format!("(ENoRecExists {})", proposer_coq(proposer)),
            AccessControllerError::BadgeWithdrawAttemptAlreadyExistsForProposer { proposer } => format!("(EWdAlreadyExists {})", proposer_coq(proposer)),
            AccessControllerError::NoBadgeWithdrawAttemptExistsForProposer { proposer } => format!("(ENoWdExists {})", proposer_coq(proposer)),
            AccessControllerError::NoTimedRecoveriesFound => "ENoTimedFound".into(),
            AccessControllerError::TimedRecoveryDelayHasNotElapsed => "EDelayNotElapsed".into(),
            AccessControllerError::RecoveryProposalMismatch { .. } => "EMismatch".into(),
            AccessControllerError::NoXrdFeeVault => "ENoXrdFeeVault".into(),
        },
        RuntimeError::SystemUpstreamError(SystemUpstreamError::FnNotFound(_)) => "ENoSuchMethod".into(),
        RuntimeError::SystemModuleError(SystemModuleError::AuthError(AuthError::NoMethodMapping(_))) => "ENoSuchMethod".into(),
        other => {
            if std::env::var("C40_DEBUG").is_ok() {
                eprintln!("EOther: {:?}", other);
            }
            "EOther".into()
        }
    }
}

// ---------------- Coq printers ----------------
fn rule_coq(r: Rule) -> String {
    match r {
        Rule::Allow => "RAllow".into(),
        Rule::Deny => "RDeny".into(),
        Rule::Req(i) => format!("(RReq {})", i),
    }
}
fn rs_coq(r: &[Rule; 3]) -> String {
    format!("(mkrs {} {} {})", rule_coq(r[0]), rule_coq(r[1]), rule_coq(r[2]))
}
fn optn_coq(d: Option<u32>) -> String {
    match d {
        None => "None".into(),
        Some(x) => format!("(Some {})", x),
    }
}
fn prop_coq(p: &Prop) -> String {
    format!("(mkp {} {})", rs_coq(&p.rules), optn_coq(p.delay))
}
fn meth_coq(m: &Meth) -> String {
    match m {
        Meth::CreateProof => "MCreateProof".into(),
        Meth::InitRec(pr, p) => format!("(MInitRec {} {})", pr_coq(*pr), prop_coq(p)),
        Meth::InitWd(pr) => format!("(MInitWd {})", pr_coq(*pr)),
        Meth::QuickRec(pr, p) => format!("(MQuickRec {} {})", pr_coq(*pr), prop_coq(p)),
        Meth::QuickWd(pr) => format!("(MQuickWd {})", pr_coq(*pr)),
        Meth::Timed(p) => format!("(MTimedConfirm {})", prop_coq(p)),
        Meth::CancelRec(pr) => format!("(MCancelRec {})", pr_coq(*pr)),
        Meth::CancelWd(pr) => format!("(MCancelWd {})", pr_coq(*pr)),
        Meth::Lock => "MLock".into(),
        Meth::Unlock => "MUnlock".into(),
        Meth::Stop(p) => format!("(MStopTimed {})", prop_coq(p)),
        Meth::Mint(ids) => format!("(MMint {})", coq_list(ids.iter().map(|i| i.to_string()))),
        Meth::WithdrawFee(a) => format!("(MWithdrawFee {})", coq_z(*a)),
        Meth::ContributeFee(a) => format!("(MContributeFee {})", coq_z(*a)),
        Meth::SetRoleDirect(r, x) => format!("(MSetRoleDirect {} {})", ["Primary", "Recovery", "Confirmation"][*r], rule_coq(*x)),
        Meth::BurnBadge(id) => format!("(MBurnBadge {})", id),
    }
}
fn obs_coq(o: &Obs) -> String {
    format!(
        "(mkobs {} {} {} {} {} {} {} {})",
        coq_bool(o.locked),
        match &o.prim_rec {
            None => "None".to_string(),
            Some(p) => format!("(Some {})", prop_coq(p)),
        },
        coq_bool(o.prim_wd),
        match &o.rec_rec {
            RecAtt::None => "RecNone".to_string(),
            RecAtt::Untimed(p) => format!("(RecUntimed {})", prop_coq(p)),
            RecAtt::Timed(p, a) => format!("(RecTimed {} {})", prop_coq(p), coq_z(*a)),
        },
        coq_bool(o.rec_wd),
        rs_coq(&o.roles),
        coq_bool(o.badge),
        coq_option(o.fee.map(|x| coq_z(x)))
    )
}
fn step_coq(s: &Step) -> String {
    format!(
        "({}, {}, {}, {}, {})",
        coq_list(s.who.iter().map(|i| i.to_string())),
        coq_z(s.now),
        meth_coq(&s.meth),
        s.out,
        obs_coq(&s.obs)
    )
}

// ---------------- generation ----------------
fn sat(r: Rule, who: &[usize]) -> bool {
    match r {
        Rule::Allow => true,
        Rule::Deny => false,
        Rule::Req(i) => who.contains(&i),
    }
}
fn badge_for(r: Rule) -> Vec<usize> {
    match r {
        Rule::Req(i) => vec![i],
        _ => vec![],
    }
}
fn rand_rule(rng: &mut Rng) -> Rule {
    match rng.below(20) {
        0 => Rule::Allow,
        1 => Rule::Deny,
        _ => Rule::Req(rng.usize_below(NB)),
    }
}
fn rand_delay(rng: &mut Rng) -> Option<u32> {
    match rng.below(10) {
        0 | 1 => None,
        2 => Some(0),
        3 => Some(1),
        4 | 5 => Some(2),
        6 => Some(5),
        7 => Some(30),
        8 => Some(1000),
        _ => Some(u32::MAX),
    }
}

struct Case {
    v2: bool,
    delay: Option<u32>,
    rules: [Rule; 3],
    steps: Vec<Step>,
}

/// scripted step: (caller badges, minutes to advance before the call, method)
type Script = Vec<(Vec<usize>, i64, Meth)>;

fn gen_step(rng: &mut Rng, w: &World, obs: &Obs, delay: Option<u32>, props: &[Prop], minted: &mut u64) -> (Vec<usize>, i64, Meth) {
    let pr = if rng.bool() { Pr::Primary } else { Pr::Recovery };
    let stored_prim = obs.prim_rec.clone();
    let stored_rec = match &obs.rec_rec {
        RecAtt::None => None,
        RecAtt::Untimed(p) | RecAtt::Timed(p, _) => Some(p.clone()),
    };
    let pick_prop = |rng: &mut Rng, stored: Option<Prop>| -> Prop {
        match stored {
            Some(p) if !rng.chance(1, 6) => p,
            _ => rng.pick(props).clone(),
        }
    };
    let r = rng.below(100);
    // (method, roles that are the natural callers: indices 0 primary, 1 recovery, 2 confirmation)
    let (meth, natural): (Meth, Vec<usize>) = if r < 13 {
        (Meth::InitRec(pr, rng.pick(props).clone()), vec![if pr == Pr::Primary { 0 } else { 1 }])
    } else if r < 21 {
        (Meth::InitWd(pr), vec![if pr == Pr::Primary { 0 } else { 1 }])
    } else if r < 35 {
        let stored = if pr == Pr::Primary { stored_prim } else { stored_rec };
        (Meth::QuickRec(pr, pick_prop(rng, stored)), if pr == Pr::Primary { vec![1, 2] } else { vec![0, 2] })
    } else if r < 43 {
        (Meth::QuickWd(pr), if pr == Pr::Primary { vec![1, 2] } else { vec![0, 2] })
    } else if r < 54 {
        (Meth::Timed(pick_prop(rng, stored_rec)), vec![1, 1, 0, 2])
    } else if r < 61 {
        (Meth::CancelRec(pr), vec![if pr == Pr::Primary { 0 } else { 1 }])
    } else if r < 66 {
        (Meth::CancelWd(pr), vec![if pr == Pr::Primary { 0 } else { 1 }])
    } else if r < 72 {
        (Meth::Lock, vec![1])
    } else if r < 77 {
        (Meth::Unlock, vec![1])
    } else if r < 83 {
        (Meth::Stop(pick_prop(rng, stored_rec)), vec![0, 1, 2])
    } else if r < 91 {
        (Meth::CreateProof, vec![0])
    } else if r < 93 {
        let n = rng.below(3);
        let ids: Vec<u64> = if rng.chance(1, 4) && *minted > 0 {
            vec![rng.below(*minted)] // an id minted before
        } else {
            (0..n).map(|k| *minted + k).collect()
        };
        (Meth::Mint(ids), vec![0, 1])
    } else if r < 95 {
        (Meth::BurnBadge(rng.below(*minted + 1)), vec![0, 1, 2])
    } else if r < 96 {
        (Meth::ContributeFee(rng.below(4) as i64), vec![0, 1, 2])
    } else if r < 98 {
        (Meth::WithdrawFee(rng.below(4) as i64), vec![0])
    } else {
        (Meth::SetRoleDirect(rng.usize_below(3), rand_rule(rng)), vec![0, 1, 2])
    };
    let _ = w;
    // caller
    let c = rng.below(100);
    let who: Vec<usize> = if c < 62 {
        badge_for(obs.roles[*rng.pick(&natural)])
    } else if c < 80 {
        badge_for(obs.roles[rng.usize_below(3)])
    } else if c < 88 {
        vec![] // stranger without badges
    } else if c < 94 {
        vec![rng.usize_below(NB)]
    } else {
        let mut v = vec![rng.usize_below(NB), rng.usize_below(NB)];
        v.sort();
        v.dedup();
        v
    };
    // time
    let d = delay.unwrap_or(3) as i64;
    let adv = if rng.chance(3, 5) {
        0
    } else {
        match rng.below(6) {
            0 => 0,
            1 => 1,
            2 => (d - 1).clamp(0, 1500),
            3 => d.clamp(0, 1500),
            4 => (d + 1).clamp(0, 1500),
            _ => rng.range(2, 40) as i64,
        }
    };
    (who, adv, meth)
}

fn run_case(w: &mut World, rng: &mut Rng, len: usize, script: Option<(Option<u32>, [Rule; 3], Script)>) -> Case {
    let (delay, rules, script) = match script {
        Some((d, r, s)) => (d, r, Some(s)),
        None => {
            let rules = match rng.below(20) {
                0..=12 => [Rule::Req(0), Rule::Req(1), Rule::Req(2)],
                13 | 14 => [Rule::Req(0), Rule::Req(0), Rule::Req(2)], // primary and recovery share a badge
                15 => [Rule::Req(0), Rule::Req(1), Rule::Req(1)],
                _ => [rand_rule(rng), rand_rule(rng), rand_rule(rng)],
            };
            (rand_delay(rng), rules, None)
        }
    };
    let props: Vec<Prop> = (0..3)
        .map(|_| Prop {
            rules: if rng.chance(1, 8) { rules } else { [rand_rule(rng), rand_rule(rng), rand_rule(rng)] },
            delay: rand_delay(rng),
        })
        .collect();
    let ac = w.create(&rules, delay);
    let (mut obs, d0) = w.observe(ac);
    assert_eq!(d0, delay);
    assert_eq!(obs.roles, rules);
    let mut steps = Vec::new();
    let mut minted = 0u64;
    let mut after_withdraw = 0;
    let n = script.as_ref().map(|s| s.len()).unwrap_or(len);
    for k in 0..n {
        let (who, adv, meth) = match &script {
            Some(s) => s[k].clone(),
            None => gen_step(rng, w, &obs, delay, &props, &mut minted),
        };
        if adv > 0 || rng.chance(1, 10) {
            let m = w.minute + adv;
            w.set_minute(m, rng.below(60000) as i64);
        }
        let out = w.call(ac, &who, &meth);
        if let (Meth::Mint(ids), "Ok") = (&meth, out.as_str()) {
            minted = minted.max(ids.iter().map(|i| i + 1).max().unwrap_or(0));
        }
        let (o2, d2) = w.observe(ac);
        assert_eq!(d2, delay, "configured delay changed");
        obs = o2.clone();
        steps.push(Step { who, now: w.minute, meth, out, obs: o2 });
        if !obs.badge {
            after_withdraw += 1;
            if after_withdraw > 3 {
                break;
            }
        }
    }
    Case { v2: w.v2, delay, rules, steps }
}

// ---------------- the direct oracle: the property statement with ghost bookkeeping ----------------
/// Returns failures as (class, what).
fn oracle(c: &Case) -> Vec<(String, String)> {
    let mut fails = Vec::new();
    let mut roles = c.rules;
    let mut badge = true;
    let mut locked = false;
    // ghost: open proposals as made by successful initiate calls (never derived from the substate)
    let mut g_prim: Option<Prop> = None;
    let mut g_rec: Option<(Prop, i64, bool)> = None; // proposal, minute proposed, timer running
    let mut g_prim_wd = false;
    let mut g_rec_wd = false;
    let confirmers = |pr: Pr| -> [usize; 2] {
        match pr {
            Pr::Primary => [1, 2],
            Pr::Recovery => [0, 2],
        }
    };
    for (i, s) in c.steps.iter().enumerate() {
        let ok = s.out == "Ok";
        let changed = s.obs.roles != roles || (badge && !s.obs.badge);
        if !badge && s.obs.badge {
            fails.push(("".into(), format!("step {}: controlled asset reappeared", i)));
        }
        if locked && ok && s.meth == Meth::CreateProof {
            fails.push(("".into(), format!("step {}: proof of the controlled asset created while the primary role is locked", i)));
        }
        if changed {
            let mut why: Option<(String, String)> = None;
            if !ok {
                why = Some(("".into(), "rules or badge changed by a failed call".into()));
            } else {
                match &s.meth {
                    Meth::QuickRec(pr, p) => {
                        let open = match pr {
                            Pr::Primary => g_prim.as_ref() == Some(p),
                            Pr::Recovery => g_rec.as_ref().map(|x| &x.0) == Some(p),
                        };
                        if !open {
                            why = Some(("".into(), "quick confirm of a proposal that the proposer role never made (or cancelled)".into()));
                        } else if !confirmers(*pr).iter().any(|r| sat(roles[*r], &s.who)) {
                            why = Some(("".into(), "quick confirm by a caller holding no role different from the proposer that may confirm".into()));
                        } else if s.obs.roles != p.rules || s.obs.badge != badge {
                            why = Some(("".into(), "rules after the confirmation differ from the proposal".into()));
                        }
                    }
                    Meth::QuickWd(pr) => {
                        let open = match pr {
                            Pr::Primary => g_prim_wd,
                            Pr::Recovery => g_rec_wd,
                        };
                        if !open {
                            why = Some(("".into(), "badge withdrawal confirmed without an open withdraw attempt of the proposer".into()));
                        } else if !confirmers(*pr).iter().any(|r| sat(roles[*r], &s.who)) {
                            why = Some(("".into(), "badge withdrawal confirmed by a caller holding no other confirming role".into()));
                        }
                    }
                    Meth::Timed(p) => match &g_rec {
                        Some((q, t0, true)) if q == p => {
                            let d = c.delay.map(|x| x as i64);
                            let due = d.map(|d| t0 + d);
                            // the minute clock is an i32 and saturates: at the last representable minute a
                            // pending timed recovery whose due time lies beyond the horizon is confirmable
                            let elapsed = match due {
                                Some(due) => s.now >= due,
                                None => false,
                            };
                            if !elapsed {
                                // known class: the due minute does not fit the i32 minute clock and the clock
                                // stands at its last value (the comparison saturates)
                                let cls = match due {
                                    Some(due) if due > i32::MAX as i64 && s.now == i32::MAX as i64 => KNOWN_CLASS_CLOCK,
                                    _ => "",
                                };
                                why = Some((cls.into(), format!("timed confirm at minute {} before the delay elapsed (proposed at {}, delay {:?})", s.now, t0, d)));
                            } else if s.obs.roles != p.rules || s.obs.badge != badge {
                                why = Some(("".into(), "rules after the timed confirmation differ from the proposal".into()));
                            } else if !sat(roles[1], &s.who) {
                                why = Some((KNOWN_CLASS.into(), format!("timed_confirm_recovery by caller {:?} who does not satisfy the recovery role {:?}", s.who, roles[1])));
                            }
                        }
                        _ => why = Some(("".into(), "timed confirm without a running timed proposal of the recovery role equal to the argument".into())),
                    },
                    m => why = Some(("".into(), format!("rules or badge changed by {:?}", m))),
                }
            }
            if let Some((cls, what)) = why {
                fails.push((cls, format!("step {}: {}", i, what)));
            }
        } else if ok {
            // a successful timed confirm that leaves the rules as they are (proposal = current rules) is
            // still a confirmation by that caller
            if let Meth::Timed(_) = &s.meth {
                if !sat(roles[1], &s.who) {
                    fails.push((KNOWN_CLASS.into(), format!("step {}: timed_confirm_recovery by caller {:?} who does not satisfy the recovery role", i, s.who)));
                }
            }
        }
        // ghost update from the call and its outcome only
        if ok {
            match &s.meth {
                Meth::InitRec(Pr::Primary, p) => g_prim = Some(p.clone()),
                Meth::InitRec(Pr::Recovery, p) => g_rec = Some((p.clone(), s.now, c.delay.is_some())),
                Meth::InitWd(Pr::Primary) => g_prim_wd = true,
                Meth::InitWd(Pr::Recovery) => g_rec_wd = true,
                Meth::CancelRec(Pr::Primary) => g_prim = None,
                Meth::CancelRec(Pr::Recovery) => g_rec = None,
                Meth::CancelWd(Pr::Primary) => g_prim_wd = false,
                Meth::CancelWd(Pr::Recovery) => g_rec_wd = false,
                Meth::Stop(_) => {
                    if let Some(x) = g_rec.as_mut() {
                        x.2 = false
                    }
                }
                Meth::QuickRec(Pr::Primary, _) => g_prim = None,
                Meth::QuickRec(Pr::Recovery, _) | Meth::Timed(_) => g_rec = None,
                Meth::QuickWd(Pr::Primary) => g_prim_wd = false,
                Meth::QuickWd(Pr::Recovery) => g_rec_wd = false,
                Meth::Lock => locked = true,
                Meth::Unlock => locked = false,
                _ => {}
            }
            // a completed recovery or withdrawal returns the controller to normal operation (unlocked)
            if matches!(s.meth, Meth::QuickRec(..) | Meth::QuickWd(..) | Meth::Timed(..)) {
                locked = s.obs.locked;
            }
        }
        roles = s.obs.roles;
        badge = s.obs.badge;
    }
    fails
}

fn scripts() -> Vec<(&'static str, Option<u32>, [Rule; 3], Script)> {
    let base = [Rule::Req(0), Rule::Req(1), Rule::Req(2)];
    let p = Prop { rules: [Rule::Req(3), Rule::Req(4), Rule::Req(5)], delay: Some(7) };
    vec![
        // the finding witness: a stranger confirms the recovery role's timed proposal after the delay
        (
            "finding_witness",
            Some(2),
            base,
            vec![
                (vec![1], 0, Meth::InitRec(Pr::Recovery, p.clone())),
                (vec![], 1, Meth::Timed(p.clone())),
                (vec![], 1, Meth::Timed(p.clone())),
                (vec![4], 0, Meth::CreateProof),
                (vec![3], 0, Meth::CreateProof),
            ],
        ),
        // the documented flows
        (
            "documented_flows",
            Some(2),
            base,
            vec![
                (vec![0], 0, Meth::InitRec(Pr::Primary, p.clone())),
                (vec![0], 0, Meth::QuickRec(Pr::Primary, p.clone())),
                (vec![1], 0, Meth::Lock),
                (vec![0], 0, Meth::CreateProof),
                (vec![2], 0, Meth::QuickRec(Pr::Primary, p.clone())),
                (vec![3], 0, Meth::CreateProof),
                (vec![3], 0, Meth::InitWd(Pr::Primary)),
                (vec![4], 0, Meth::QuickWd(Pr::Primary)),
                (vec![3], 0, Meth::CreateProof),
                (vec![], 0, Meth::Timed(p.clone())),
            ],
        ),
        // the largest configurable delay
        (
            "max_delay",
            Some(u32::MAX),
            base,
            vec![
                (vec![1], 0, Meth::InitRec(Pr::Recovery, p.clone())),
                (vec![1], 0, Meth::Timed(p.clone())),
                (vec![1], 1, Meth::Timed(p.clone())),
                (vec![1], 1000, Meth::Timed(p.clone())),
            ],
        ),
        (
            "stop_cancel_timer",
            Some(5),
            base,
            vec![
                (vec![1], 0, Meth::InitRec(Pr::Recovery, p.clone())),
                (vec![2], 1, Meth::Stop(p.clone())),
                (vec![1], 10, Meth::Timed(p.clone())),
                (vec![1], 0, Meth::CancelRec(Pr::Recovery)),
                (vec![0], 0, Meth::QuickRec(Pr::Recovery, p.clone())),
                (vec![1], 0, Meth::InitRec(Pr::Recovery, p.clone())),
                (vec![1], 4, Meth::Timed(p.clone())),
                (vec![1], 1, Meth::Timed(p.clone())),
            ],
        ),
    ]
    .into_iter()
    .chain(boundary_scripts())
    .collect()
}

/// Deterministic boundary family (identical for every seed): every comparison of the state machine on
/// both sides and at equality, every error path, every role on every method, unusual state combinations.
fn boundary_scripts() -> Vec<(&'static str, Option<u32>, [Rule; 3], Script)> {
    let base = [Rule::Req(0), Rule::Req(1), Rule::Req(2)];
    let p = Prop { rules: [Rule::Req(3), Rule::Req(4), Rule::Req(5)], delay: Some(7) };
    // proposals differing from p in exactly one component
    let p_delay = Prop { rules: p.rules, delay: Some(8) };
    let p_nodelay = Prop { rules: p.rules, delay: None };
    let p_r0 = Prop { rules: [Rule::Req(0), Rule::Req(4), Rule::Req(5)], delay: Some(7) };
    let p_r1 = Prop { rules: [Rule::Req(3), Rule::Req(0), Rule::Req(5)], delay: Some(7) };
    let p_r2 = Prop { rules: [Rule::Req(3), Rule::Req(4), Rule::Allow], delay: Some(7) };
    let q = Prop { rules: [Rule::Req(5), Rule::Req(3), Rule::Req(4)], delay: None };
    let near = [p_delay.clone(), p_nodelay.clone(), p_r0.clone(), p_r1.clone(), p_r2.clone()];
    let mut out: Vec<(&'static str, Option<u32>, [Rule; 3], Script)> = Vec::new();

    // proposal equality in quick confirm (primary's and recovery's proposal, timed and untimed), stop, timed confirm
    let mut sc: Script = vec![(vec![0], 0, Meth::InitRec(Pr::Primary, p.clone())), (vec![1], 0, Meth::InitRec(Pr::Recovery, p.clone()))];
    for n in &near {
        sc.push((vec![1], 0, Meth::QuickRec(Pr::Primary, n.clone())));
        sc.push((vec![0], 0, Meth::QuickRec(Pr::Recovery, n.clone())));
        sc.push((vec![2], 0, Meth::Stop(n.clone())));
        sc.push((vec![1], 0, Meth::Timed(n.clone())));
    }
    sc.push((vec![2], 0, Meth::Stop(p.clone())));
    for n in &near {
        sc.push((vec![2], 0, Meth::QuickRec(Pr::Recovery, n.clone()))); // untimed now
    }
    sc.push((vec![2], 0, Meth::QuickRec(Pr::Recovery, p.clone())));
    out.push(("bf_proposal_equality", Some(0), base, sc));

    // cancel clears exactly the addressed slot
    out.push((
        "bf_cancel_right_slot",
        Some(3),
        base,
        vec![
            (vec![0], 0, Meth::InitRec(Pr::Primary, p.clone())),
            (vec![1], 0, Meth::InitRec(Pr::Recovery, q.clone())),
            (vec![0], 0, Meth::InitWd(Pr::Primary)),
            (vec![1], 0, Meth::InitWd(Pr::Recovery)),
            (vec![0], 0, Meth::CancelRec(Pr::Primary)),
            (vec![0], 0, Meth::CancelRec(Pr::Primary)),
            (vec![0], 0, Meth::InitRec(Pr::Primary, p.clone())),
            (vec![1], 0, Meth::CancelRec(Pr::Recovery)),
            (vec![1], 0, Meth::CancelRec(Pr::Recovery)),
            (vec![1], 0, Meth::InitRec(Pr::Recovery, q.clone())),
            (vec![0], 0, Meth::CancelWd(Pr::Primary)),
            (vec![0], 0, Meth::CancelWd(Pr::Primary)),
            (vec![0], 0, Meth::InitWd(Pr::Primary)),
            (vec![1], 0, Meth::CancelWd(Pr::Recovery)),
            (vec![1], 0, Meth::CancelWd(Pr::Recovery)),
            (vec![1], 0, Meth::CancelRec(Pr::Primary)), // wrong role
            (vec![0], 0, Meth::CancelRec(Pr::Recovery)),
            (vec![2], 0, Meth::CancelWd(Pr::Primary)),
        ],
    ));

    // the timer: one minute before, exactly at, one minute after allowed_after; delays 0, 1, 5
    for (name, d) in [("bf_timer_delay0", 0u32), ("bf_timer_delay1", 1), ("bf_timer_delay5", 5)] {
        let dd = d as i64;
        let mut sc: Script = vec![(vec![1], 1, Meth::InitRec(Pr::Recovery, p.clone())), (vec![1], 0, Meth::Timed(p.clone()))];
        if dd >= 2 {
            sc.push((vec![1], dd - 1, Meth::Timed(p.clone()))); // allowed_after - 1
            sc.push((vec![1], 1, Meth::Timed(p.clone()))); // exactly allowed_after
        } else if dd == 1 {
            sc.push((vec![1], 1, Meth::Timed(p.clone())));
        }
        // again, confirming one minute after the due time
        sc.push((vec![4], 0, Meth::InitRec(Pr::Recovery, q.clone())));
        sc.push((vec![4], dd + 1, Meth::Timed(q.clone())));
        out.push((name, Some(d), base, sc));
    }

    // a locked primary role blocks create_proof in every combination of pending attempts; lock/unlock idempotent
    out.push((
        "bf_lock_blocks_proof",
        None,
        base,
        vec![
            (vec![0], 0, Meth::CreateProof),
            (vec![1], 0, Meth::Unlock),
            (vec![1], 0, Meth::Lock),
            (vec![1], 0, Meth::Lock),
            (vec![0], 0, Meth::CreateProof),
            (vec![0], 0, Meth::InitRec(Pr::Primary, p.clone())),
            (vec![0], 0, Meth::CreateProof),
            (vec![0], 0, Meth::InitWd(Pr::Primary)),
            (vec![0], 0, Meth::CreateProof),
            (vec![1], 0, Meth::InitRec(Pr::Recovery, q.clone())),
            (vec![0], 0, Meth::CreateProof),
            (vec![1], 0, Meth::InitWd(Pr::Recovery)),
            (vec![0], 0, Meth::CreateProof),
            (vec![1], 0, Meth::CreateProof),
            (vec![0, 1, 2], 0, Meth::CreateProof),
            (vec![1], 0, Meth::Unlock),
            (vec![0], 0, Meth::CreateProof),
            (vec![1], 0, Meth::Lock),
            // a completed recovery returns to the default state: unlocked, all attempts gone
            (vec![2], 0, Meth::QuickRec(Pr::Primary, p.clone())),
            (vec![3], 0, Meth::CreateProof),
            (vec![4], 0, Meth::CancelRec(Pr::Recovery)),
            (vec![3], 0, Meth::CancelWd(Pr::Primary)),
        ],
    ));

    // every "already exists" / "does not exist" / "no timed recovery" error
    out.push((
        "bf_exists_errors",
        None,
        base,
        vec![
            (vec![1], 0, Meth::QuickRec(Pr::Primary, p.clone())),
            (vec![0], 0, Meth::QuickRec(Pr::Recovery, p.clone())),
            (vec![1], 0, Meth::QuickWd(Pr::Primary)),
            (vec![0], 0, Meth::QuickWd(Pr::Recovery)),
            (vec![0], 0, Meth::CancelRec(Pr::Primary)),
            (vec![1], 0, Meth::CancelRec(Pr::Recovery)),
            (vec![0], 0, Meth::CancelWd(Pr::Primary)),
            (vec![1], 0, Meth::CancelWd(Pr::Recovery)),
            (vec![1], 0, Meth::Timed(p.clone())),
            (vec![1], 0, Meth::Stop(p.clone())),
            (vec![0], 0, Meth::InitRec(Pr::Primary, p.clone())),
            (vec![0], 0, Meth::InitRec(Pr::Primary, p.clone())),
            (vec![0], 0, Meth::InitRec(Pr::Primary, q.clone())),
            (vec![1], 0, Meth::InitRec(Pr::Recovery, p.clone())), // no delay configured: untimed
            (vec![1], 0, Meth::InitRec(Pr::Recovery, q.clone())),
            (vec![1], 5, Meth::Timed(p.clone())),
            (vec![1], 0, Meth::Stop(p.clone())),
            (vec![0], 0, Meth::InitWd(Pr::Primary)),
            (vec![0], 0, Meth::InitWd(Pr::Primary)),
            (vec![1], 0, Meth::InitWd(Pr::Recovery)),
            (vec![1], 0, Meth::InitWd(Pr::Recovery)),
        ],
    ));

    // every role (and a stranger) on every confirming method; the proposer must be refused
    let mut sc: Script = Vec::new();
    for who in [vec![0usize], vec![1], vec![2], vec![], vec![5]] {
        sc.push((vec![0], 0, Meth::InitRec(Pr::Primary, p_nodelay.clone())));
        sc.push((who.clone(), 0, Meth::QuickRec(Pr::Primary, p_nodelay.clone())));
        sc.push((vec![1], 0, Meth::InitRec(Pr::Recovery, q.clone())));
        sc.push((who.clone(), 0, Meth::QuickRec(Pr::Recovery, q.clone())));
        sc.push((who.clone(), 0, Meth::Stop(q.clone())));
        sc.push((who.clone(), 0, Meth::Lock));
        sc.push((who.clone(), 0, Meth::Unlock));
        sc.push((who.clone(), 0, Meth::Mint(vec![])));
        sc.push((who.clone(), 0, Meth::SetRoleDirect(0, Rule::Allow)));
    }
    // rules are restored by proposals equal to the current rules where needed: use identical rule sets
    out.push(("bf_roles_on_methods", Some(9), base, role_matrix_fix(sc, base)));

    // badge withdrawal by each confirming role, and what remains possible afterwards
    for (name, pr, conf) in [("bf_withdraw_primary_by_recovery", Pr::Primary, 1usize), ("bf_withdraw_primary_by_confirmation", Pr::Primary, 2), ("bf_withdraw_recovery_by_primary", Pr::Recovery, 0), ("bf_withdraw_recovery_by_confirmation", Pr::Recovery, 2)] {
        let own = if pr == Pr::Primary { 0usize } else { 1 };
        out.push((
            name,
            Some(1),
            base,
            vec![
                (vec![conf], 0, Meth::QuickWd(pr)),
                (vec![own], 0, Meth::InitWd(pr)),
                (vec![own], 0, Meth::QuickWd(pr)),
                (vec![1], 0, Meth::InitRec(Pr::Recovery, p.clone())),
                (vec![0], 0, Meth::Mint(vec![1, 2])),
                (vec![conf], 0, Meth::QuickWd(pr)),
                (vec![], 5, Meth::Timed(p.clone())),
                (vec![0], 0, Meth::CreateProof),
                (vec![0, 1, 2], 0, Meth::InitRec(Pr::Primary, p.clone())),
                (vec![], 0, Meth::ContributeFee(1)),
                (vec![0], 0, Meth::BurnBadge(1)),
                (vec![0], 0, Meth::Mint(vec![3])),
            ],
        ));
    }

    // recovery badges and the fee vault: first / repeated / burned ids, empty list; 0, exact and balance+1 withdrawals
    out.push((
        "bf_badges_and_fee",
        None,
        base,
        vec![
            (vec![0], 0, Meth::Mint(vec![])),
            (vec![0], 0, Meth::Mint(vec![0])),
            (vec![1], 0, Meth::Mint(vec![1, 2])),
            (vec![0], 0, Meth::Mint(vec![3, 1])),
            (vec![2], 0, Meth::Mint(vec![4])),
            (vec![0], 0, Meth::BurnBadge(1)),
            (vec![0], 0, Meth::BurnBadge(1)),
            (vec![0], 0, Meth::BurnBadge(9)),
            (vec![0], 0, Meth::Mint(vec![1])),
            (vec![0], 0, Meth::Mint(vec![5])),
            (vec![0], 0, Meth::WithdrawFee(0)),
            (vec![], 0, Meth::ContributeFee(0)),
            (vec![0], 0, Meth::WithdrawFee(0)),
            (vec![0], 0, Meth::WithdrawFee(1)),
            (vec![5], 0, Meth::ContributeFee(3)),
            (vec![1], 0, Meth::WithdrawFee(1)),
            (vec![0], 0, Meth::WithdrawFee(4)),
            (vec![0], 0, Meth::WithdrawFee(3)),
            (vec![0], 0, Meth::WithdrawFee(1)),
        ],
    ));

    // rule sets with allow_all / deny_all and shared badges
    out.push((
        "bf_allow_deny_rules",
        Some(0),
        [Rule::Req(0), Rule::Req(0), Rule::Deny],
        vec![
            (vec![0], 0, Meth::InitRec(Pr::Primary, Prop { rules: [Rule::Allow, Rule::Deny, Rule::Req(2)], delay: None })),
            // the same badge holds the primary and the recovery role: it may confirm as recovery
            (vec![0], 0, Meth::QuickRec(Pr::Primary, Prop { rules: [Rule::Allow, Rule::Deny, Rule::Req(2)], delay: None })),
            (vec![], 0, Meth::CreateProof),
            (vec![], 0, Meth::InitWd(Pr::Primary)),
            (vec![], 0, Meth::Lock),
            (vec![2], 0, Meth::QuickWd(Pr::Primary)),
            (vec![2], 0, Meth::CreateProof),
        ],
    ));
    out
}

/// after a successful quick confirm in the role matrix the rules become the proposal's rules; the matrix
/// uses proposals whose rule set equals the base rules so that the roles stay in place
fn role_matrix_fix(sc: Script, base: [Rule; 3]) -> Script {
    sc.into_iter()
        .map(|(who, adv, m)| {
            let fix = |mut p: Prop| {
                p.rules = base;
                p
            };
            let m = match m {
                Meth::InitRec(pr, p) => Meth::InitRec(pr, fix(p)),
                Meth::QuickRec(pr, p) => Meth::QuickRec(pr, fix(p)),
                Meth::Stop(p) => Meth::Stop(fix(p)),
                other => other,
            };
            (who, adv, m)
        })
        .collect()
}

fn main() {
    let args = Args::parse();
    let mut report = Report::new(
        "C40",
        args.seed,
        "random call sequences (8..28 calls) on fresh access controllers by callers proving subsets of 6 badges, with \
         minute-clock advances; half of the cases on a ledger at Anemone (v1 blueprint code), half at the latest protocol \
         version (v2); a deterministic boundary family of scripted cases per ledger (proposal equality in one field, cancel slots, timer at allowed_after -1/0/+1 for delays 0/1/5, lock x pending attempts, every error, every role on every method, withdrawals, badges and fee vault limits, allow/deny rules; incl. the finding witness) and one case at the i32 minute horizon; \
         non-trivial = at least one rule-set replacement or badge withdrawal happened; distinct by canonical text",
    );
    let mut cw = CaseWriter::new("RV.Corr.C40_run RV.Model.C40_AccessController RV.Model.C40_Tables", "check");
    let root = Rng::new(args.seed);
    let mut worlds = [World::new(false), World::new(true)];
    let sc = scripts();
    let total = args.cases.max(2 * sc.len() + 2);
    for i in 0..total {
        let mut rng = root.fork(i as u64);
        let wi = i % 2;
        let k = i / 2;
        let w = &mut worlds[wi];
        let horizon = i + 2 >= total;
        let case = if k < sc.len() {
            report.count(&format!("bf.{}", sc[k].0));
            run_case(w, &mut rng, 0, Some((sc[k].1, sc[k].2, sc[k].3.clone())))
        } else if horizon {
            // the last case of each ledger runs at the end of the i32 minute clock
            let m0 = i32::MAX as i64 - 12;
            w.set_minute(m0, 0);
            let p = Prop { rules: [Rule::Req(3), Rule::Req(4), Rule::Req(5)], delay: None };
            let base = [Rule::Req(0), Rule::Req(1), Rule::Req(2)];
            run_case(
                w,
                &mut rng,
                0,
                Some((
                    Some(20),
                    base,
                    vec![
                        (vec![1], 2, Meth::InitRec(Pr::Recovery, p.clone())),
                        (vec![1], 9, Meth::Timed(p.clone())),
                        (vec![1], 1, Meth::Timed(p.clone())),
                        (vec![4], 0, Meth::InitRec(Pr::Recovery, p.clone())),
                        (vec![4], 0, Meth::Timed(p.clone())),
                    ],
                )),
            )
        } else {
            let len = rng.range(8, 28) as usize;
            run_case(w, &mut rng, len, None)
        };
        let changes = {
            let mut n = 0;
            let mut roles = case.rules;
            let mut badge = true;
            for s in &case.steps {
                if s.obs.roles != roles || s.obs.badge != badge {
                    n += 1;
                }
                roles = s.obs.roles;
                badge = s.obs.badge;
            }
            n
        };
        let canon = format!("{} {:?} {:?} {}", case.v2, case.delay, case.rules, case.steps.iter().map(step_coq).collect::<Vec<_>>().join(";"));
        report.case(&canon, changes > 0);
        report.count(if case.v2 { "cases_v2" } else { "cases_v1" });
        report.count_n("calls", case.steps.len() as u64);
        report.count_n("rule_or_badge_changes", changes as u64);
        for s in &case.steps {
            let key = if s.out == "Ok" { "out.Ok".to_string() } else { format!("out.{}", s.out.trim_matches(|c| c == '(' || c == ')').replace("Fail ", "")) };
            report.count(&key);
            if s.out == "Ok" {
                let m = meth_coq(&s.meth);
                let name = m.trim_start_matches('(').split(' ').next().unwrap_or("").to_string();
                report.count(&format!("ok.{}", name));
            }
        }
        for (cls, what) in oracle(&case) {
            report.oracle_failure(
                i,
                &cls,
                &format!("{} [{} delay {:?} rules {:?}]", what, if case.v2 { "v2" } else { "v1" }, case.delay, case.rules),
                json!({"v2": case.v2, "delay": case.delay, "rules": rs_coq(&case.rules), "steps": case.steps.iter().map(step_coq).collect::<Vec<_>>()}),
            );
        }
        if i < 2 {
            report.sample(json!({"v2": case.v2, "steps": case.steps.iter().take(12).map(step_coq).collect::<Vec<_>>()}));
        }
        cw.push(format!(
            "(mkcase {} {} {} {})",
            coq_bool(case.v2),
            optn_coq(case.delay),
            rs_coq(&case.rules),
            coq_list(case.steps.iter().map(step_coq))
        ));
    }
    // the deterministic family: every script on both ledgers, and every outcome kind it is built to reach
    for (name, ..) in &sc {
        report.floor(&format!("bf.{}", name), 2);
    }
    for key in [
        "out.EMismatch", "out.EDelayNotElapsed", "out.ENoTimedFound", "out.EOpRequiresUnlocked", "out.ENoXrdFeeVault",
        "out.(ERecAlreadyExists PPrimary", "out.(ERecAlreadyExists PRecovery", "out.(EWdAlreadyExists PPrimary",
        "out.(ENoRecExists PPrimary", "out.(ENoRecExists PRecovery", "out.(ENoWdExists PPrimary", "out.(ENoWdExists PRecovery",
        "out.ENoSuchMethod", "out.EOther",
    ] {
        report.floor(key, 2);
    }
    for key in ["ok.MTimedConfirm", "ok.MQuickRec", "ok.MQuickWd", "ok.MStopTimed", "ok.MCancelRec", "ok.MCancelWd", "ok.MLock", "ok.MUnlock", "ok.MMint", "ok.MBurnBadge", "ok.MContributeFee", "ok.MWithdrawFee", "ok.MCreateProof"] {
        report.floor(key, 2);
    }
    report.floor("rule_or_badge_changes", (total as u64) / 8);
    report.floor("out.EUnauthorized", (total as u64) / 2);
    cw.write(&args.out, args.shards).unwrap();
    report.write(&args.out).unwrap();
}
