//! C42 correspondence harness: histories with four genesis validators (max_validators = 3), random
//! stakes / unstakes by a delegating staker, and epoch changes with random leader histories (missed
//! proposals), executed through scrypto-test's LedgerSimulator. For every operation the inputs the
//! blueprint read (stake vault, stake-unit supply, fee factor, active set, proposer rewards, rewards
//! vault) are read from the ledger before the transaction and the effects after it (stake units
//! minted, claim amount, emissions and rewards from the validator events, post-state vault/supply,
//! index sort prefix, EpochChangeEvent validator set). Model: coq/Model/C42_Staking.v.
//!
//! Direct oracle (big integers, no re-implementation of the code):
//!   units minted * stake <= xrd * supply (proportional, rounded down); claim * supply <= units * stake;
//!   stake followed by unstake of the minted units never claims more than was staked;
//!   XRD leaves/enters the staker exactly as it enters/leaves the vaults;
//!   per epoch: sum of emissions <= configured amount and == growth of the XRD total supply,
//!   sum of rewards <= rewards vault, every stake vault grows by emission + reward;
//!   next validator set: at most max_validators, stake descending, positive stake, registered.
use num_bigint::BigInt;
use num_traits::{Signed, Zero};
use radix_common::prelude::*;
use radix_engine::blueprints::consensus_manager::*;
use radix_engine::system::system_db_reader::SystemDatabaseReader;
use radix_engine::transaction::*;
use radix_engine::updates::BabylonSettings;
use radix_engine::system::bootstrap::*;
use radix_engine_interface::blueprints::consensus_manager::*;
use radix_engine_interface::prelude::*;
use radix_substate_store_interface::db_key_mapper::DatabaseKeyMapper;
use radix_transactions::prelude::*;
use scrypto_test::prelude::{DefaultLedgerSimulator, LedgerSimulatorBuilder};
use serde_json::json;
use std::str::FromStr;
use vh_common::*;

const NV: usize = 4;
const MAXV: u32 = 3;
const FEE_DELAY: u64 = 2;

fn big(d: Decimal) -> BigInt {
    BigInt::from_str(&d.attos().to_string()).unwrap()
}
fn dec(b: &BigInt) -> Decimal {
    Decimal::from_attos(I192::from_str(&b.to_string()).expect("fits"))
}
fn z(b: &BigInt) -> String {
    if b.is_negative() { format!("({})", b) } else { b.to_string() }
}

struct World {
    ledger: DefaultLedgerSimulator,
    staker_pk: Secp256k1PublicKey,
    staker: ComponentAddress,
    validators: Vec<ComponentAddress>,
    keys: Vec<Secp256k1PublicKey>,
    total_emission: BigInt,
    minrel: BigInt,
}

struct VState {
    v: BigInt,
    u: BigInt,
    locked: BigInt,
    req: Option<(u64, BigInt)>,
    ff: BigInt,
    registered: bool,
    prefix: i64, // 65536 = not in the index
    sort_key: Option<(Vec<u8>, Vec<u8>)>,
    pending: BigInt,
}

impl World {
    fn new(rng: &mut Rng) -> World {
        let stakes: Vec<Decimal> = (0..NV)
            .map(|_| match rng.below(4) {
                0 => Decimal::from(rng.range(1, 50)),
                1 => Decimal::from(rng.range(90_000, 330_000)),
                2 => dec(&(BigInt::from(rng.next_u64()) * BigInt::from(rng.range(1, 1_000_000)))),
                _ => dec(&(BigInt::from(rng.range(1, 9_000_000)) * BigInt::from(10u64).pow(rng.range(10, 22) as u32) + BigInt::from(rng.next_u32()))),
            })
            .collect();
        let emission = match rng.below(4) {
            0 => dec!("2853.881278538812785388"),
            1 => Decimal::ONE,
            2 => dec(&(BigInt::from(rng.next_u64()) * BigInt::from(rng.range(1, 100_000)))),
            _ => Decimal::from(rng.range(1, 100_000)),
        };
        let minrel = match rng.below(5) {
            0 => Decimal::ONE,
            1 => Decimal::ZERO,
            2 => dec!("0.5"),
            3 => dec!("0.9"),
            _ => dec(&(BigInt::from(rng.range(1, 999_999_999)) * BigInt::from(1_000_000_000u64))),
        };
        let ffs: Vec<Decimal> = (0..NV)
            .map(|_| match rng.below(5) {
                0 => Decimal::ONE,
                1 => Decimal::ZERO,
                2 => dec!("0.02"),
                3 => dec!("0.5"),
                _ => dec(&(BigInt::from(rng.range(1, 999_999_999)) * BigInt::from(1_000_000_000u64))),
            })
            .collect();
        // at most one unregistered validator (it still holds stake and accepts more)
        let regs: Vec<bool> = (0..NV).map(|i| !(i == NV - 1 && rng.chance(1, 4))).collect();
        World::build(stakes, ffs, regs, emission, minrel)
    }

    fn build(stakes: Vec<Decimal>, ffs: Vec<Decimal>, regs: Vec<bool>, emission: Decimal, minrel: Decimal) -> World {
        let staker_sk = Secp256k1PrivateKey::from_u64(1000).unwrap();
        let staker_pk = staker_sk.public_key();
        let staker = ComponentAddress::preallocated_account_from_public_key(&staker_pk);
        let keys: Vec<Secp256k1PublicKey> =
            (0..NV).map(|i| Secp256k1PrivateKey::from_u64(1 + i as u64).unwrap().public_key()).collect();
        let config = ConsensusManagerConfig::test_default()
            .with_max_validators(MAXV)
            .with_epoch_change_condition(EpochChangeCondition { min_round_count: 1, max_round_count: 50, target_duration_millis: 0 })
            .with_total_emission_xrd_per_epoch(emission)
            .with_min_validator_reliability(minrel)
            .with_num_unstake_epochs(1)
            .with_num_fee_increase_delay_epochs(FEE_DELAY);
        let genesis_validators: Vec<GenesisValidator> = keys
            .iter()
            .enumerate()
            .map(|(i, k)| {
                let mut g = GenesisValidator::from(*k);
                g.fee_factor = ffs[i];
                g.is_registered = regs[i];
                g
            })
            .collect();
        let genesis = BabylonSettings {
            genesis_data_chunks: vec![
                GenesisDataChunk::Validators(genesis_validators),
                GenesisDataChunk::Stakes {
                    accounts: vec![staker],
                    allocations: keys
                        .iter()
                        .zip(stakes.iter())
                        .map(|(k, s)| (*k, vec![GenesisStakeAllocation { account_index: 0, xrd_amount: *s }]))
                        .collect(),
                },
                GenesisDataChunk::ResourceBalances {
                    accounts: vec![staker],
                    allocations: vec![(XRD, vec![GenesisResourceAllocation { account_index: 0u32, amount: dec!("100000000000") }])],
                },
            ],
            genesis_epoch: Epoch::of(1),
            consensus_manager_config: config,
            initial_time_ms: 0,
            initial_current_leader: Some(0),
            faucet_supply: *DEFAULT_TESTING_FAUCET_SUPPLY,
        };
        let ledger = LedgerSimulatorBuilder::new()
            .without_kernel_trace()
            .with_custom_protocol(|b| b.configure_babylon(|_| genesis).from_bootstrap_to_latest())
            .build();
        let mut w = World { ledger, staker_pk, staker, validators: vec![], keys, total_emission: big(emission), minrel: big(minrel) };
        w.validators = w.find_validators();
        w
    }

    /// the consensus manager's sorted index as stored: (prefix, validator, stake) in database order
    fn index(&self) -> Vec<(i64, usize, BigInt)> {
        let reader = SystemDatabaseReader::new(self.ledger.substate_db());
        let it = reader
            .collection_iter(
                CONSENSUS_MANAGER.as_node_id(),
                ModuleId::Main,
                ConsensusManagerCollection::RegisteredValidatorByStakeSortedIndex.collection_index(),
            )
            .unwrap();
        let mut out = Vec::new();
        for (key, value) in it {
            let (prefix, addr_bytes) = match key {
                SubstateKey::Sorted((p, k)) => ((((p[0] as i64) << 8) | p[1] as i64), k),
                other => panic!("unexpected index key {:?}", other),
            };
            let addr: ComponentAddress = scrypto_decode(&addr_bytes).unwrap();
            let entry: ConsensusManagerRegisteredValidatorByStakeEntryPayload = scrypto_decode(&value).unwrap();
            let v = entry.fully_update_and_into_latest_version();
            let vi = self.validators.iter().position(|a| *a == addr).expect("validator of the index entry");
            out.push((prefix, vi, big(v.stake)));
        }
        out
    }
    /// runs a manifest as the owner of validator i (proof of its owner badge)
    fn exec_as_owner(&mut self, i: usize, method: &str, args: ManifestValue) -> TransactionReceipt {
        let owner = ComponentAddress::preallocated_account_from_public_key(&self.keys[i]);
        let m = ManifestBuilder::new()
            .lock_fee_from_faucet()
            .create_proof_from_account_of_non_fungibles(
                owner,
                VALIDATOR_OWNER_BADGE,
                [NonFungibleLocalId::bytes(self.validators[i].as_node_id().0).unwrap()],
            )
            .call_method_raw(self.validators[i], method, args)
            .build();
        self.ledger.execute_manifest(m, vec![NonFungibleGlobalId::from_public_key(&self.keys[i])])
    }

    /// the staker's claim NFTs of validator i: (id, claim amount, claim epoch)
    fn claims(&mut self, i: usize) -> Vec<(NonFungibleLocalId, BigInt, u64)> {
        let res = self.ledger.get_validator_info(self.validators[i]).claim_nft;
        let mut out = Vec::new();
        for vault in self.ledger.get_component_vaults(self.staker, res) {
            let ids: Vec<NonFungibleLocalId> = match self.ledger.inspect_non_fungible_vault(vault) {
                Some((_, it)) => it.collect(),
                None => vec![],
            };
            for id in ids {
                let d: UnstakeData = self.ledger.get_non_fungible_data(res, id.clone());
                out.push((id, big(d.claim_amount), d.claim_epoch.number()));
            }
        }
        out
    }

    /// all validator components, matched to the genesis keys
    fn find_validators(&self) -> Vec<ComponentAddress> {
        let mut out = vec![None; NV];
        for c in self.ledger.find_all_components() {
            if c.as_node_id().entity_type() == Some(EntityType::GlobalValidator) {
                let s = self.ledger.get_validator_info(c);
                if let Some(i) = self.keys.iter().position(|k| *k == s.key) {
                    out[i] = Some(c);
                }
            }
        }
        out.into_iter().map(|x| x.expect("validator of genesis key")).collect()
    }

    fn vstate(&mut self, i: usize) -> VState {
        let s = self.ledger.get_validator_info(self.validators[i]);
        let v = big(self.ledger.inspect_vault_balance(s.stake_xrd_vault_id.0).unwrap());
        let pending = big(self.ledger.inspect_vault_balance(s.pending_xrd_withdraw_vault_id.0).unwrap());
        let u = big(self.ledger.get_fungible_resource_total_supply(s.stake_unit_resource));
        let prefix = match &s.sorted_key {
            Some((p, _)) => ((p[0] as i64) << 8) | p[1] as i64,
            None => 65536,
        };
        let locked = big(self.ledger.inspect_vault_balance(s.locked_owner_stake_unit_vault_id.0).unwrap());
        VState {
            v,
            u,
            locked,
            req: s.validator_fee_change_request.as_ref().map(|r| (r.epoch_effective.number(), big(r.new_fee_factor))),
            ff: big(s.validator_fee_factor),
            registered: s.is_registered,
            prefix,
            sort_key: s.sorted_key.clone().map(|(p, a)| (p.to_vec(), a)),
            pending,
        }
    }
    fn unit_resource(&self, i: usize) -> ResourceAddress {
        self.ledger.get_validator_info(self.validators[i]).stake_unit_resource
    }
    fn exec(&mut self, m: TransactionManifestV1) -> TransactionReceipt {
        self.ledger.execute_manifest(m, vec![NonFungibleGlobalId::from_public_key(&self.staker_pk)])
    }
    fn active_set(&self) -> Vec<(ComponentAddress, BigInt)> {
        let reader = SystemDatabaseReader::new(self.ledger.substate_db());
        let s = reader
            .read_typed_object_field::<ConsensusManagerCurrentValidatorSetFieldPayload>(
                CONSENSUS_MANAGER.as_node_id(),
                ModuleId::Main,
                ConsensusManagerField::CurrentValidatorSet.field_index(),
            )
            .unwrap()
            .fully_update_and_into_latest_version();
        s.validator_set.validators_by_stake_desc.iter().map(|(a, v)| (*a, big(v.stake))).collect()
    }
    fn rewards_state(&mut self) -> (Vec<(u8, BigInt)>, BigInt) {
        let (map, vault) = {
            let reader = SystemDatabaseReader::new(self.ledger.substate_db());
            let s = reader
                .read_typed_object_field::<ConsensusManagerValidatorRewardsFieldPayload>(
                    CONSENSUS_MANAGER.as_node_id(),
                    ModuleId::Main,
                    ConsensusManagerField::ValidatorRewards.field_index(),
                )
                .unwrap()
                .fully_update_and_into_latest_version();
            (s.proposer_rewards.iter().map(|(k, v)| (*k, big(*v))).collect::<Vec<_>>(), s.rewards_vault.0 .0)
        };
        let bal = big(self.ledger.inspect_vault_balance(vault).unwrap());
        (map, bal)
    }
}

fn req_coq(r: &Option<(u64, BigInt)>) -> String {
    match r {
        Some((e, f)) => format!("(Some ({}, {}))", e, z(f)),
        None => "None".to_string(),
    }
}
fn prefix_and_reg(s: &VState) -> String {
    format!("{} {}", coq_bool(s.registered), s.prefix)
}


#[derive(Clone, Debug)]
enum Plan {
    Stake(usize, BigInt),
    /// stake so that the stake vault holds exactly this many attos afterwards
    StakeTo(usize, BigInt),
    UnstakeAll(usize),
    UnstakeUnits(usize, BigInt),
    Claim(usize),
    Register(usize, bool),
    UpdateFee(usize, Decimal),
    Epoch(u64, Vec<u8>, u8), // rounds, gap leaders, current leader (indices into the active set)
}

struct Runner {
    w: World,
    obs: Vec<String>,
    failures: Vec<(String, serde_json::Value)>,
    counts: std::collections::BTreeMap<String, u64>,
    last_stake: Option<(usize, BigInt, BigInt)>, // validator, xrd, units
    had_emission: bool,
    had_roundtrip: bool,
    step: usize,
    dead: bool,
    scripted: bool,
}

impl Runner {
    fn new(w: World) -> Runner {
        let mut r = Runner {
            w,
            obs: vec![],
            failures: vec![],
            counts: Default::default(),
            last_stake: None,
            had_emission: false,
            had_roundtrip: false,
            step: 0,
            dead: false,
            scripted: false,
        };
        let vs: Vec<VState> = (0..NV).map(|i| r.w.vstate(i)).collect();
        let (proposer, vault) = r.w.rewards_state();
        let epoch = r.w.ledger.get_current_epoch().number();
        let pre = coq_list(vs.iter().map(|s| s.prefix.to_string()));
        let reqs = coq_list(vs.iter().map(|s| req_coq(&s.req)));
        r.obs.push(format!(
            "OInit {} {} {} {} {} {}",
            coq_list(vs.iter().map(|s| format!("({}, {}, {}, {}, {}, {})", z(&s.v), z(&s.u), z(&s.pending), z(&s.locked), z(&s.ff), coq_bool(s.registered)))),
            z(&vault),
            coq_list(proposer.iter().map(|(k, v)| format!("({}, {})", k, z(v)))),
            epoch,
            pre,
            reqs
        ));
        r.push_index();
        r
    }
    /// the index as stored in the database, observed after every operation
    fn push_index(&mut self) {
        let idx = self.w.index();
        self.obs.push(format!("OIdx {}", coq_list(idx.iter().map(|(p, i, st)| format!("({}, {}, {})", p, i, z(st))))));
        // direct oracle: exactly the registered validators with non-zero stake, each with its current
        // stake and the prefix of that stake
        for i in 0..NV {
            let s = self.w.vstate(i);
            let entries: Vec<_> = idx.iter().filter(|e| e.1 == i).collect();
            let should = s.registered && s.v.is_positive();
            let bucket = BigInt::from(10u64).pow(23);
            let q = &s.v / &bucket;
            let want_prefix = 65535i64 - if q > BigInt::from(65535u32) { 65535 } else { q.to_string().parse::<i64>().unwrap() };
            let ok = if should { entries.len() == 1 && entries[0].2 == s.v && entries[0].0 == want_prefix && s.prefix == want_prefix } else { entries.is_empty() && s.prefix == 65536 };
            if !ok {
                self.fail(format!("index entry of validator {} wrong: registered {} stake {} entries {:?} sorted_key prefix {}", i, s.registered, s.v, entries, s.prefix));
            }
        }
    }

    fn register(&mut self, vi: usize, b: bool) {
        self.last_stake = None;
        let before = self.w.vstate(vi);
        let receipt = self.w.exec_as_owner(vi, if b { VALIDATOR_REGISTER_IDENT } else { VALIDATOR_UNREGISTER_IDENT }, manifest_args!().into());
        if !receipt.is_commit_success() {
            self.fail(format!("register({}) failed: {:?}", b, receipt.expect_commit_ignore_outcome().outcome));
            self.dead = true;
            return;
        }
        let after = self.w.vstate(vi);
        self.cnt(match (before.registered, b, before.v.is_positive()) {
            (r, b2, _) if r == b2 => "reg_no_update",
            (_, true, true) => "reg_register_with_stake",
            (_, true, false) => "reg_register_with_zero_stake",
            (_, false, true) => "reg_unregister_with_stake",
            (_, false, false) => "reg_unregister_with_zero_stake",
        });
        if after.registered != b || after.v != before.v || after.u != before.u {
            self.fail("register / unregister changed something else".to_string());
        }
        self.obs.push(format!("OReg {} {}", vi, coq_bool(b)));
        self.push_index();
    }

    fn update_fee(&mut self, vi: usize, ff: BigInt) {
        self.last_stake = None;
        let before = self.w.vstate(vi);
        let cur = self.w.ledger.get_current_epoch().number();
        let receipt = self.w.exec_as_owner(vi, VALIDATOR_UPDATE_FEE_IDENT, manifest_args!(dec(&ff)).into());
        let ok = receipt.is_commit_success();
        let after = self.w.vstate(vi);
        let d18 = BigInt::from(10u64).pow(18);
        let valid = !ff.is_negative() && ff <= d18;
        if ok != valid {
            self.fail(format!("update_fee({}) success = {}", ff, ok));
        }
        if ok {
            let promoted = matches!(&before.req, Some((ee, _)) if *ee <= cur);
            if promoted {
                self.cnt("fee_update_promoting_a_pending_request");
            }
            let stored = match &before.req { Some((ee, nf)) if *ee <= cur => nf.clone(), _ => before.ff.clone() };
            let want_ee = if ff > stored { cur + FEE_DELAY } else { cur + 1 };
            self.cnt(if ff > stored { "fee_increase" } else if ff == stored { "fee_equal" } else { "fee_decrease" });
            if after.req != Some((want_ee, ff.clone())) || after.ff != stored {
                self.fail(format!("update_fee({}) at epoch {}: request {:?}, stored {} (expected effective epoch {}, stored {})", ff, cur, after.req, after.ff, want_ee, stored));
            }
        } else {
            self.cnt("fee_invalid");
            if after.req != before.req || after.ff != before.ff {
                self.fail("failed update_fee changed the validator".to_string());
            }
        }
        self.obs.push(format!("OFee {} {} {} {} {} {}", vi, z(&ff), FEE_DELAY, coq_bool(ok), z(&after.ff), req_coq(&after.req)));
        self.push_index();
    }
    fn cnt(&mut self, k: &str) {
        *self.counts.entry(k.to_string()).or_insert(0) += 1;
        if self.scripted {
            // the deterministic boundary family has its own counters (floors are put on these)
            *self.counts.entry(format!("bnd_{}", k)).or_insert(0) += 1;
        }
    }
    /// classes of the index prefix of a stake: 100k-XRD bucket boundaries and u16 saturation
    fn classify_stake(&mut self, v: &BigInt) {
        let bucket = BigInt::from(10u64).pow(23);
        if v.is_positive() && (v % &bucket).is_zero() {
            self.cnt("stake_exact_multiple_of_100k");
        }
        if ((v + BigInt::from(1u32)) % &bucket).is_zero() {
            self.cnt("stake_one_atto_below_multiple_of_100k");
        }
        let q = v / &bucket;
        if q == BigInt::from(65535u32) {
            self.cnt("stake_bucket_exactly_u16_max");
        } else if q > BigInt::from(65535u32) {
            self.cnt("stake_bucket_saturated");
        } else if q == BigInt::from(65534u32) {
            self.cnt("stake_bucket_u16_max_minus_1");
        }
    }
    fn fail(&mut self, what: String) {
        let step = self.step;
        self.failures.push((format!("step {}: {}", step, what), json!({})));
    }

    fn stake(&mut self, vi: usize, x: BigInt) {
        let before = self.w.vstate(vi);
        let unit_res = self.w.unit_resource(vi);
        let acc_units0 = big(self.w.ledger.get_component_balance(self.w.staker, unit_res));
        let acc_xrd0 = big(self.w.ledger.get_component_balance(self.w.staker, XRD));
        let (staker, validator) = (self.w.staker, self.w.validators[vi]);
        let m = ManifestBuilder::new()
            .lock_fee_from_faucet()
            .withdraw_from_account(staker, XRD, dec(&x))
            .take_all_from_worktop(XRD, "x")
            .with_name_lookup(|b, l| b.call_method(validator, VALIDATOR_STAKE_IDENT, manifest_args!(l.bucket("x"))))
            .try_deposit_entire_worktop_or_abort(staker, None)
            .build();
        let receipt = self.w.exec(m);
        if !receipt.is_commit_success() {
            self.fail(format!("stake of {} failed: {:?}", x, receipt.expect_commit_ignore_outcome().outcome));
            self.dead = true;
            return;
        }
        let after = self.w.vstate(vi);
        let units = big(self.w.ledger.get_component_balance(staker, unit_res)) - acc_units0;
        let paid = acc_xrd0 - big(self.w.ledger.get_component_balance(staker, XRD));
        self.cnt("stake_ok");
        if paid != x || &after.v - &before.v != x {
            self.fail(format!("stake moved {} from the account, {} into the vault, requested {}", paid, &after.v - &before.v, x));
        }
        if &after.u - &before.u != units || units.is_negative() {
            self.fail(format!("minted units {} differ from supply change", units));
        }
        if before.v.is_positive() && &units * &before.v > &x * &before.u {
            self.fail(format!("stake units {} exceed the proportional amount (x={}, V={}, U={})", units, x, before.v, before.u));
        }
        if before.v.is_zero() && before.u.is_zero() {
            self.cnt("stake_into_empty_vault_and_zero_supply");
        }
        if !after.registered {
            self.cnt("stake_on_unregistered_validator");
        }
        self.classify_stake(&after.v);
        if x.is_positive() && units.is_zero() {
            // the staker's XRD is in the vault but no unit was issued: recorded, see Props/C42.v
            self.cnt("stakes_of_positive_xrd_minting_zero_units");
            if before.u.is_zero() && before.v.is_positive() {
                self.cnt("stakes_into_vault_with_dust_but_zero_unit_supply");
            }
        }
        self.obs.push(format!("OStake {} {} {} {} ({}, {}, {}) {}", vi, z(&x), z(&before.v), z(&before.u), z(&units), z(&after.v), z(&after.u), prefix_and_reg(&after)));
        self.push_index();
        self.last_stake = if units.is_positive() { Some((vi, x, units)) } else { None };
    }

    fn unstake(&mut self, vi: usize, units: BigInt, from_stake: Option<BigInt>) {
        self.last_stake = None;
        let unit_res = self.w.unit_resource(vi);
        let have = big(self.w.ledger.get_component_balance(self.w.staker, unit_res));
        if !units.is_positive() || units > have {
            return;
        }
        let before = self.w.vstate(vi);
        let (staker, validator) = (self.w.staker, self.w.validators[vi]);
        let m = ManifestBuilder::new()
            .lock_fee_from_faucet()
            .withdraw_from_account(staker, unit_res, dec(&units))
            .take_all_from_worktop(unit_res, "u")
            .with_name_lookup(|b, l| b.call_method(validator, VALIDATOR_UNSTAKE_IDENT, manifest_args!(l.bucket("u"))))
            .try_deposit_entire_worktop_or_abort(staker, None)
            .build();
        let receipt = self.w.exec(m);
        if !receipt.is_commit_success() {
            self.fail(format!("unstake of {} failed: {:?}", units, receipt.expect_commit_ignore_outcome().outcome));
            self.dead = true;
            return;
        }
        let after = self.w.vstate(vi);
        let claim = &after.pending - &before.pending;
        self.cnt("unstake_ok");
        if &before.v - &after.v != claim || &before.u - &after.u != units || claim.is_negative() {
            self.fail(format!("unstake bookkeeping mismatch (claim {}, dV {}, dU {})", claim, &before.v - &after.v, &before.u - &after.u));
        }
        if &claim * &before.u > &units * &before.v {
            self.fail(format!("claim {} exceeds the proportional share of {} units (V={}, U={})", claim, units, before.v, before.u));
        }
        if after.u.is_zero() && after.v.is_positive() {
            self.cnt("unstakes_leaving_dust_with_zero_unit_supply");
        }
        if after.u.is_zero() && after.v.is_zero() {
            self.cnt("unstake_of_all_units_exact");
        }
        if units == BigInt::from(1u32) {
            self.cnt("unstake_of_one_atto_unit");
        }
        if claim.is_zero() {
            self.cnt("unstake_with_zero_claim");
        }
        self.classify_stake(&after.v);
        if let Some(x) = from_stake {
            self.cnt("stake_unstake_round_trips");
            self.had_roundtrip = true;
            if claim > x {
                self.fail(format!("staking {} then unstaking the minted units claims {}", x, claim));
            }
            if claim < x {
                self.cnt("round_trips_with_rounding_loss");
            }
        }
        self.obs.push(format!(
            "OUnstake {} {} 1 {} {} ({}, {}, {}) {} {}",
            vi, z(&units), z(&before.v), z(&before.u), z(&claim), z(&after.v), z(&after.u), prefix_and_reg(&after), z(&after.pending)
        ));
        self.push_index();
    }

    fn claim(&mut self, vi: usize, pick: usize) {
        self.last_stake = None;
        let claims = self.w.claims(vi);
        if claims.is_empty() {
            return;
        }
        let (id, amt, ce) = claims[pick % claims.len()].clone();
        let cur = self.w.ledger.get_current_epoch().number();
        let before = self.w.vstate(vi);
        let nft = self.w.ledger.get_validator_info(self.w.validators[vi]).claim_nft;
        let (staker, validator) = (self.w.staker, self.w.validators[vi]);
        let xrd0 = big(self.w.ledger.get_component_balance(staker, XRD));
        let m = ManifestBuilder::new()
            .lock_fee_from_faucet()
            .withdraw_non_fungibles_from_account(staker, nft, [id])
            .take_all_from_worktop(nft, "c")
            .with_name_lookup(|b, l| b.call_method(validator, VALIDATOR_CLAIM_XRD_IDENT, manifest_args!(l.bucket("c"))))
            .try_deposit_entire_worktop_or_abort(staker, None)
            .build();
        let receipt = self.w.exec(m);
        let ok = receipt.is_commit_success();
        let after = self.w.vstate(vi);
        let got = big(self.w.ledger.get_component_balance(staker, XRD)) - xrd0;
        self.cnt(if ok { "claim_ok" } else { "claim_refused_before_epoch" });
        if cur == ce {
            self.cnt("claim_exactly_at_claim_epoch");
        } else if cur + 1 == ce {
            self.cnt("claim_one_epoch_early");
        } else if cur > ce {
            self.cnt("claim_after_claim_epoch");
        }
        if ok != (cur >= ce) {
            self.fail(format!("claim at epoch {} of a claim for epoch {}: success = {}", cur, ce, ok));
        }
        if ok && (got != amt || &before.pending - &after.pending != amt) {
            self.fail(format!("claim of {} paid {} (pending vault {} -> {})", amt, got, before.pending, after.pending));
        }
        if !ok && (!got.is_zero() || before.pending != after.pending) {
            self.fail("refused claim moved XRD".to_string());
        }
        if before.v != after.v || before.u != after.u {
            self.fail("claim changed the stake vault or the unit supply".to_string());
        }
        self.obs.push(format!("OClaim {} {} {} {} {} {} {}", vi, z(&amt), ce, cur, coq_bool(ok), z(&got), z(&after.pending)));
        self.push_index();
    }

    fn epoch(&mut self, rounds: u64, gaps_in: Vec<u8>, leader_in: u8) {
        self.last_stake = None;
        let step = self.step;
        let w = &mut self.w;
        let active = w.active_set();
        let n_active = active.len().max(1) as u8;
        let befores: Vec<VState> = (0..NV).map(|i| w.vstate(i)).collect();
        let (proposer, vault) = w.rewards_state();
        let cur_epoch = w.ledger.get_current_epoch().number();
        // the fee factor apply_emission uses for the concluded epoch
        let eff_ff: Vec<BigInt> = befores.iter().map(|b| match &b.req { Some((ee, nf)) if *ee <= cur_epoch => nf.clone(), _ => b.ff.clone() }).collect();
        let cur_round = w.ledger.get_consensus_manager_state().round.number();
        let gaps: Vec<u8> = gaps_in.iter().map(|g| g % n_active).collect();
        let leader = leader_in % n_active;
        let ts = w.ledger.get_current_proposer_timestamp_ms();
        let receipt = w.ledger.execute_system_transaction(
            ManifestBuilder::new_system_v1()
                .call_method(
                    CONSENSUS_MANAGER,
                    CONSENSUS_MANAGER_NEXT_ROUND_IDENT,
                    ConsensusManagerNextRoundInput {
                        round: Round::of(cur_round + rounds),
                        proposer_timestamp_ms: ts,
                        leader_proposal_history: LeaderProposalHistory { gap_round_leaders: gaps.clone(), current_leader: leader, is_fallback: false },
                    },
                )
                .build(),
            btreeset![system_execution(SystemExecution::Validator)],
        );
        if !receipt.is_commit_success() {
            self.failures.push((format!("step {}: epoch change failed: {:?}", step, receipt.expect_commit_ignore_outcome().outcome), json!({})));
            self.dead = true;
            return;
        }
        let result = receipt.expect_commit_success();
        let next = match result.next_epoch() {
            Some(e) => e,
            None => {
                self.failures.push((format!("step {}: no epoch change after {} rounds", step, rounds), json!({})));
                self.dead = true;
                return;
            }
        };
        let mut fails: Vec<String> = Vec::new();
        let mut cnts: Vec<&'static str> = vec!["epoch_changes"];
        let vaddrs = w.validators.clone();
        let idx_of = |a: &NodeId| vaddrs.iter().position(|v| v.as_node_id() == a);
        let mut emis: Vec<(usize, BigInt)> = Vec::new();
        let mut stats: std::collections::BTreeMap<usize, (u64, u64)> = Default::default();
        let mut rew: Vec<(usize, BigInt)> = Vec::new();
        let mut xrd_minted = BigInt::from(0u32);
        for (id, data) in result.application_events.iter() {
            let node = match &id.0 {
                Emitter::Method(n, _) => *n,
                Emitter::Function(b) => *b.package_address.as_node_id(),
            };
            if node == *XRD.as_node_id() && w.ledger.is_event_name_equal::<radix_engine::blueprints::resource::MintFungibleResourceEvent>(id) {
                let e: radix_engine::blueprints::resource::MintFungibleResourceEvent = scrypto_decode(data).unwrap();
                xrd_minted += big(e.amount);
            } else if w.ledger.is_event_name_equal::<ValidatorEmissionAppliedEvent>(id) {
                let e: ValidatorEmissionAppliedEvent = scrypto_decode(data).unwrap();
                let vi = idx_of(&node).unwrap();
                emis.push((vi, big(e.validator_fee_xrd) + big(e.stake_pool_added_xrd)));
                stats.insert(vi, (e.proposals_made, e.proposals_missed));
            } else if w.ledger.is_event_name_equal::<ValidatorRewardAppliedEvent>(id) {
                let e: ValidatorRewardAppliedEvent = scrypto_decode(data).unwrap();
                rew.push((idx_of(&node).unwrap(), big(e.amount)));
            }
        }
        let afters: Vec<VState> = (0..NV).map(|i| w.vstate(i)).collect();
        let (_, vault_after) = w.rewards_state();
        let epoch_after = w.ledger.get_current_epoch().number();
        let sum_e: BigInt = emis.iter().map(|(_, e)| e.clone()).sum();
        let sum_r: BigInt = rew.iter().map(|(_, e)| e.clone()).sum();
        if sum_e > w.total_emission {
            fails.push(format!("emissions {} exceed the configured amount {}", sum_e, w.total_emission));
        }
        if xrd_minted != sum_e {
            fails.push(format!("{} XRD minted but emissions sum to {}", xrd_minted, sum_e));
        }
        if sum_r > vault {
            fails.push(format!("rewards {} exceed the rewards vault {}", sum_r, vault));
        }
        if &vault - &vault_after != sum_r {
            fails.push(format!("rewards vault shrank by {} but rewards sum to {}", &vault - &vault_after, sum_r));
        }
        if sum_e.is_positive() {
            self.had_emission = true;
            cnts.push("epochs_with_emission");
        }
        if sum_r.is_positive() {
            cnts.push("epochs_with_rewards");
        }
        if stats.values().any(|(_, missed)| *missed > 0) {
            cnts.push("epochs_with_missed_proposals");
        }
        for i in 0..NV {
            let e: BigInt = emis.iter().filter(|(v, _)| *v == i).map(|(_, e)| e.clone()).sum();
            let r: BigInt = rew.iter().filter(|(v, _)| *v == i).map(|(_, e)| e.clone()).sum();
            if &afters[i].v - &befores[i].v != &e + &r {
                fails.push(format!("validator {} stake grew by {} but emission+reward = {}", i, &afters[i].v - &befores[i].v, &e + &r));
            }
            if afters[i].u < befores[i].u || afters[i].pending != befores[i].pending {
                fails.push(format!("validator {}: unit supply shrank or pending vault changed in an epoch change", i));
            }
        }
        let next_list: Vec<(usize, BigInt)> =
            next.validator_set.validators_by_stake_desc.iter().map(|(a, v)| (idx_of(a.as_node_id()).unwrap(), big(v.stake))).collect();
        if next_list.len() > MAXV as usize {
            fails.push(format!("next validator set has {} members", next_list.len()));
        }
        for k in 0..next_list.len() {
            if k + 1 < next_list.len() && next_list[k].1 < next_list[k + 1].1 {
                fails.push("next validator set not ordered by stake".to_string());
            }
            let (vi, st) = &next_list[k];
            if !st.is_positive() || !afters[*vi].registered || *st != afters[*vi].v {
                fails.push(format!("member {} of the next set: stake {} registered {} vault {}", vi, st, afters[*vi].registered, afters[*vi].v));
            }
        }
        if let Some((_, min_st)) = next_list.last() {
            for i in 0..NV {
                if afters[i].registered && afters[i].v > *min_st && !next_list.iter().any(|(v, _)| *v == i) {
                    fails.push(format!("validator {} with stake {} left out of the next set", i, afters[i].v));
                }
            }
        }
        if (0..NV).filter(|i| afters[*i].registered && afters[*i].v.is_positive()).count() > MAXV as usize {
            cnts.push("epochs_with_validator_cut_off");
            let mut sts: Vec<BigInt> = (0..NV).filter(|i| afters[*i].registered && afters[*i].v.is_positive()).map(|i| afters[i].v.clone()).collect();
            sts.sort();
            sts.reverse();
            if sts[MAXV as usize - 1] == sts[MAXV as usize] {
                cnts.push("cutoff_between_equal_stakes");
            }
        }
        if next_list.windows(2).any(|p| p[0].1 == p[1].1) {
            cnts.push("next_set_with_equal_stakes");
        }
        let d18 = BigInt::from(10u64).pow(18);
        for (made, missed) in stats.values() {
            let total = made + missed;
            let rel = if total == 0 { d18.clone() } else { BigInt::from(*made) * &d18 * &d18 / (BigInt::from(total) * &d18) };
            cnts.push(if total == 0 {
                "emis_validator_without_any_proposal"
            } else if *made == 0 {
                "emis_validator_missed_all_proposals"
            } else if *missed == 0 {
                "emis_validator_perfect"
            } else {
                "emis_validator_partly_reliable"
            });
            cnts.push(if rel == w.minrel {
                "emis_reliability_exactly_at_minimum"
            } else if rel < w.minrel {
                "emis_reliability_below_minimum"
            } else {
                "emis_reliability_above_minimum"
            });
        }
        for (i, e) in emis.iter() {
            if e.is_zero() {
                cnts.push("emis_zero_emission_applied");
            }
            let ff = &eff_ff[*i];
            if *ff != befores[*i].ff {
                cnts.push("emission_with_effective_pending_fee_change");
            } else if befores[*i].req.is_some() {
                cnts.push("emission_with_pending_fee_change_not_yet_effective");
            }
            cnts.push(if ff.is_zero() { "emis_fee_factor_zero" } else if *ff == d18 { "emis_fee_factor_one" } else { "emis_fee_factor_fraction" });
        }
        // index-scan order = order of the database sort keys: the u16 prefix, then the HASH-prefixed key bytes
        // (SpreadPrefixKeyMapper), so validators in the same 100k bucket come in hash order, not address order
        let mut scan: Vec<(Vec<u8>, Vec<u8>, usize)> = (0..NV)
            .filter_map(|i| {
                afters[i].sort_key.clone().map(|(p, a)| {
                    let db = radix_substate_store_interface::db_key_mapper::SpreadPrefixKeyMapper::to_db_sort_key(&SubstateKey::Sorted((
                        [p[0], p[1]],
                        a.clone(),
                    )));
                    (db.0, a, i)
                })
            })
            .collect();
        scan.sort();
        let active_s = coq_list(active.iter().map(|(a, st)| {
            let vi = idx_of(a.as_node_id()).unwrap();
            let (made, missed) = stats.get(&vi).cloned().unwrap_or((0, 0));
            format!("({}, {}, {}, {})", vi, z(st), made, missed)
        }));
        let vals_s = coq_list((0..NV).map(|i| {
            format!("({}, ({}, {}, {}), ({}, {}), {})", i, z(&befores[i].v), z(&befores[i].u), z(&eff_ff[i]), z(&afters[i].v), z(&afters[i].u), afters[i].prefix)
        }));
        let o = format!(
            "OEpoch {} {} {} {} {} {} {} {} {} {} {} {} {} {}",
            z(&w.total_emission),
            z(&w.minrel),
            MAXV,
            active_s,
            coq_list(proposer.iter().map(|(k, v)| format!("({}, {})", k, z(v)))),
            z(&vault),
            coq_list(emis.iter().map(|(v, e)| format!("({}, {})", v, z(e)))),
            coq_list(rew.iter().map(|(v, e)| format!("({}, {})", v, z(e)))),
            vals_s,
            coq_list(scan.iter().map(|(_, _, i)| format!("({}, {})", i, z(&afters[*i].v)))),
            coq_list(next_list.iter().map(|(v, st)| format!("({}, {})", v, z(st)))),
            coq_list(afters.iter().map(|a| z(&a.locked))),
            z(&vault_after),
            epoch_after,
        );
        self.obs.push(o);
        self.push_index();
        for c in cnts {
            self.cnt(c);
        }
        for f in fails {
            self.fail(f);
        }
    }

    fn random_step(&mut self, rng: &mut Rng) {
        let r = if self.last_stake.is_some() && rng.chance(1, 2) { 100 } else { rng.below(100) };
        if r < 30 {
            let vi = rng.usize_below(NV);
            let before_v = self.w.vstate(vi).v;
            let x: BigInt = match rng.below(6) {
                0 => BigInt::from(rng.range(1, 1000)) * BigInt::from(10u64).pow(18),
                1 => BigInt::from(rng.range(1, 1_000_000_000)),
                2 => BigInt::from(rng.next_u64()) * BigInt::from(rng.range(1, 1_000_000_000)),
                3 => &before_v / BigInt::from(rng.range(1, 9)) + BigInt::from(rng.below(3)),
                4 => BigInt::from(rng.range(50_000, 400_000)) * BigInt::from(10u64).pow(18),
                _ => BigInt::from(1u32),
            };
            self.stake(vi, x);
        } else if r < 52 || r == 100 {
            let (vi, units, from_stake) = match (self.last_stake.clone(), r == 100) {
                (Some((vi, x, u)), true) => (vi, u, Some(x)),
                _ => {
                    let vi = rng.usize_below(NV);
                    let have = big(self.w.ledger.get_component_balance(self.w.staker, self.w.unit_resource(vi)));
                    let u = match rng.below(5) {
                        0 => have.clone(),
                        1 => &have / BigInt::from(rng.range(2, 9)),
                        2 => BigInt::from(1u32),
                        3 => &have - BigInt::from(1u32),
                        _ => &have * BigInt::from(rng.range(1, 99)) / BigInt::from(100u32),
                    };
                    (vi, u, None)
                }
            };
            self.unstake(vi, units, from_stake);
        } else if r < 62 {
            let vi = rng.usize_below(NV);
            let pick = rng.usize_below(8);
            self.claim(vi, pick);
        } else if r < 66 {
            let vi = rng.usize_below(NV);
            let b = rng.chance(1, 2);
            self.register(vi, b);
        } else if r < 70 {
            let vi = rng.usize_below(NV);
            let ff = match rng.below(5) {
                0 => BigInt::from(0u32),
                1 => BigInt::from(10u64).pow(18),
                2 => BigInt::from(10u64).pow(18) + BigInt::from(1u32),
                _ => BigInt::from(rng.range(0, 1_000_000_000)) * BigInt::from(1_000_000_000u64),
            };
            self.update_fee(vi, ff);
        } else {
            let rounds = rng.range(1, 6);
            let gaps: Vec<u8> = (0..rounds - 1).map(|_| rng.below(8) as u8).collect();
            let leader = rng.below(8) as u8;
            self.epoch(rounds, gaps, leader);
        }
    }
}

struct CaseResult {
    index: usize,
    coq: String,
    nontrivial: bool,
    counts: Vec<(String, u64)>,
    failures: Vec<(String, serde_json::Value)>,
}

fn finish(index: usize, r: Runner) -> CaseResult {
    CaseResult {
        index,
        coq: format!("({})%Z", coq_list(r.obs.iter().cloned())),
        nontrivial: r.had_emission && r.had_roundtrip,
        counts: r.counts.into_iter().collect(),
        failures: r.failures,
    }
}

type Script = (&'static str, Vec<Decimal>, Vec<Decimal>, Vec<bool>, Decimal, Decimal, Vec<Plan>);

/// The deterministic boundary family (identical for every seed).
fn boundary_scripts() -> Vec<Script> {
    let xrd = |k: u64| BigInt::from(k) * BigInt::from(10u64).pow(18);
    let one = Decimal::ONE;
    let zero = Decimal::ZERO;
    let bucket = BigInt::from(10u64).pow(23); // 100 000 XRD in attos
    vec![
        // validator 0 (fee factor 0, all units held by the staker) receives an emission, so vault / supply is not
        // representable with 18 digits; all units are unstaked (dust stays, supply 0), a new stake mints zero units;
        // the claim is refused one epoch early and paid exactly at its epoch
        ("zero_supply_dust", vec![dec!(13), dec!(7), dec!(11), dec!(3)], vec![zero, one, one, one], vec![true; NV], one, one, vec![
            Plan::Epoch(1, vec![], 0), Plan::Stake(0, xrd(1)), Plan::UnstakeAll(0), Plan::Stake(0, xrd(5)), Plan::Claim(0),
            Plan::Epoch(1, vec![], 0), Plan::Claim(0), Plan::Stake(0, xrd(1)),
        ]),
        // exact unstake of all units (vault and supply both zero), stake into the empty validator, unstake of one atto
        // unit, claims early / exactly at / after the claim epoch; minimum reliability 1 (perfect vs one miss)
        ("empty_vault_and_claim_epochs", vec![dec!(13), dec!(7), dec!(11), dec!(3)], vec![one, one, one, one], vec![true; NV], one, one, vec![
            Plan::UnstakeAll(1), Plan::Stake(1, xrd(2)), Plan::UnstakeUnits(1, BigInt::from(1u32)), Plan::Claim(1),
            Plan::Epoch(2, vec![1], 0), Plan::Claim(1), Plan::UnstakeUnits(1, xrd(1)), Plan::Epoch(1, vec![], 2), Plan::Epoch(1, vec![], 0), Plan::Claim(1), Plan::Claim(1),
            Plan::UnstakeUnits(2, BigInt::from(1u32)), Plan::Stake(2, BigInt::from(1u32)),
        ]),
        // minimum reliability 0.5: no proposal at all, perfect, exactly at the minimum (1 of 2), below (1 of 3, 0 of 2);
        // fee factors 0.5 / 0 / 1 / 0.02
        ("reliability_half", vec![dec!(40), dec!(30), dec!(20), dec!(10)], vec![dec!("0.5"), zero, one, dec!("0.02")], vec![true; NV], dec!(100), dec!("0.5"), vec![
            Plan::Epoch(1, vec![], 0), Plan::Epoch(2, vec![1], 1), Plan::Epoch(3, vec![2, 2], 0), Plan::Epoch(3, vec![1, 1], 1),
            Plan::Epoch(2, vec![0], 0), Plan::Stake(3, xrd(100)), Plan::Epoch(4, vec![0, 1, 2], 2),
        ]),
        // minimum reliability exactly 1/3 truncated to 18 digits (1 of 3 is exactly at it), and 0 (nothing is below it)
        ("reliability_third", vec![dec!(40), dec!(30), dec!(20), dec!(10)], vec![one, dec!("0.5"), zero, one], vec![true; NV], dec!("2853.881278538812785388"), dec!("0.333333333333333333"), vec![
            Plan::Epoch(3, vec![1, 1], 1), Plan::Epoch(4, vec![2, 2, 2], 2), Plan::Epoch(2, vec![0], 0),
        ]),
        ("reliability_zero", vec![dec!(40), dec!(30), dec!(20), dec!(10)], vec![one, dec!("0.5"), zero, one], vec![true; NV], dec!(7), zero, vec![
            Plan::Epoch(3, vec![1, 1], 0), Plan::Epoch(2, vec![2], 2),
        ]),
        // index prefix: stake exactly at / one atto below a multiple of 100 000 XRD, bucket 65534 / 65535 / saturated
        ("sort_prefix_boundaries", vec![dec!(100), dec!(50), dec!(30), dec!(20)], vec![one, one, one, one], vec![true; NV], one, one, vec![
            Plan::StakeTo(0, &bucket * BigInt::from(2u32)), Plan::UnstakeUnits(0, BigInt::from(1u32)), Plan::StakeTo(1, &bucket - BigInt::from(1u32)),
            Plan::Stake(1, BigInt::from(1u32)), Plan::StakeTo(2, &bucket * BigInt::from(65535u32) - BigInt::from(1u32)), Plan::Stake(2, BigInt::from(1u32)),
            Plan::StakeTo(3, &bucket * BigInt::from(65536u32)), Plan::Epoch(1, vec![], 0), Plan::UnstakeUnits(3, xrd(1)), Plan::Epoch(1, vec![], 1),
        ]),
        // four equal stakes, three seats: the cut-off falls between equal stakes; later equal stakes inside the set
        ("equal_stakes_cutoff", vec![dec!(10), dec!(10), dec!(10), dec!(10)], vec![one, one, one, one], vec![true; NV], one, one, vec![
            Plan::Epoch(4, vec![0, 1, 2], 0), Plan::Epoch(1, vec![], 0), Plan::Stake(3, xrd(5)), Plan::Epoch(1, vec![], 0), Plan::Epoch(1, vec![], 1),
        ]),
        // fee-factor changes: increase (effective after the delay), decrease / equal (next epoch), a second request
        // before the first is effective, promotion of an effective request, invalid values at both ends;
        // registration: unregister with stake (index entry removed), twice (no update), stake while unregistered,
        // register again (entry created), stake falling to zero (entry removed), register with zero stake, stake again
        ("fee_changes_and_registration", vec![dec!(40), dec!(30), dec!(20), dec!(10)], vec![dec!("0.5"), dec!("0.5"), one, zero], vec![true; NV], dec!(10), one, vec![
            Plan::UnstakeAll(3), Plan::Register(3, false), Plan::Register(3, true), Plan::Stake(3, xrd(10)),
            Plan::UpdateFee(0, dec!("0.9")), Plan::Epoch(1, vec![], 0), Plan::UpdateFee(0, dec!("0.95")), Plan::Epoch(1, vec![], 0), Plan::Epoch(1, vec![], 0),
            Plan::Epoch(1, vec![], 0), Plan::UpdateFee(0, dec!("0.1")), Plan::Epoch(1, vec![], 0), Plan::Epoch(1, vec![], 0),
            Plan::UpdateFee(1, dec!("1.000000000000000001")), Plan::UpdateFee(1, dec!("-0.000000000000000001")), Plan::UpdateFee(1, dec!("0.5")), Plan::UpdateFee(1, one), Plan::UpdateFee(1, zero),
            Plan::Register(3, false), Plan::Register(3, false), Plan::Stake(3, xrd(50)), Plan::Epoch(1, vec![], 0), Plan::Register(3, true), Plan::Register(3, true),
            Plan::UnstakeAll(2), Plan::Register(2, false), Plan::Register(2, true), Plan::Stake(2, xrd(1)), Plan::Epoch(1, vec![], 0),
        ]),
        // an unregistered validator: stake / unstake keep it out of the index and of the set
        ("unregistered_validator", vec![dec!(10), dec!(20), dec!(30), dec!(400)], vec![one, one, one, dec!("0.5")], vec![true, true, true, false], one, one, vec![
            Plan::Stake(3, xrd(5)), Plan::UnstakeUnits(3, xrd(1)), Plan::Epoch(1, vec![], 0), Plan::Epoch(1, vec![], 0), Plan::Claim(3),
        ]),
    ]
}

fn run_script(index: usize, sc: Script) -> CaseResult {
    let (name, stakes, ffs, regs, emission, minrel, plans) = sc;
    let w = World::build(stakes, ffs, regs, emission, minrel);
    let mut r = Runner::new(w);
    r.scripted = true;
    r.cnt(&format!("script_{}", name));
    for p in plans {
        if r.dead {
            break;
        }
        r.step += 1;
        match p {
            Plan::Stake(vi, x) => r.stake(vi, x),
            Plan::StakeTo(vi, target) => {
                let v = r.w.vstate(vi).v;
                if target > v {
                    r.stake(vi, &target - &v)
                }
            }
            Plan::UnstakeAll(vi) => {
                let have = big(r.w.ledger.get_component_balance(r.w.staker, r.w.unit_resource(vi)));
                r.unstake(vi, have, None)
            }
            Plan::UnstakeUnits(vi, u) => r.unstake(vi, u, None),
            Plan::Claim(vi) => r.claim(vi, 0),
            Plan::Register(vi, b) => r.register(vi, b),
            Plan::UpdateFee(vi, f) => r.update_fee(vi, big(f)),
            Plan::Epoch(rounds, gaps, leader) => r.epoch(rounds, gaps, leader),
        }
    }
    if name == "zero_supply_dust" {
        r.cnt("scripted_zero_supply_histories");
    }
    finish(index, r)
}

fn main() {
    let args = Args::parse();
    let mut report = Report::new(
        "C42",
        args.seed,
        "histories of 8..16 operations (stake / unstake / claim_xrd by a delegating staker on 4 genesis validators with random stakes and \
         fee factors, epoch changes with 1..6 rounds and random gap-round leaders) under random emission amount and minimum reliability, \
         max_validators = 3, plus one scripted history (all units of a validator unstaked after an emission, then a new stake); \
         non-trivial = at least one epoch change with a positive emission and one stake followed by an unstake; distinct by canonical text",
    );
    let mut cw = CaseWriter::new("RV.Corr.C42_run RV.Model.C42_Staking", "check");
    let root = Rng::new(args.seed);
    let threads: usize = args.extra.get("threads").and_then(|s| s.parse().ok()).unwrap_or(4).max(1);
    let cases = args.cases;
    let thorough = args.tier == "thorough";
    let mut results: Vec<CaseResult> = std::thread::scope(|sc| {
        let hs: Vec<_> = (0..threads)
            .map(|t| {
                let root = root.clone();
                sc.spawn(move || {
                    let mut out = Vec::new();
                    let mut i = t;
                    while i < cases {
                        let mut rng = root.fork(i as u64);
                        let w = World::new(&mut rng);
                        let mut r = Runner::new(w);
                        let len = if thorough { rng.range(10, 24) } else { rng.range(8, 16) };
                        for _ in 0..len {
                            if r.dead {
                                break;
                            }
                            r.step += 1;
                            r.random_step(&mut rng);
                        }
                        out.push(finish(i, r));
                        i += threads;
                    }
                    if t == 0 {
                        // deterministic boundary family, identical for every seed
                        for (k, sc) in boundary_scripts().into_iter().enumerate() {
                            out.push(run_script(cases + k, sc));
                        }
                    }
                    out
                })
            })
            .collect();
        hs.into_iter().flat_map(|h| h.join().expect("worker")).collect()
    });
    results.sort_by_key(|r| r.index);
    for r in results {
        report.case(&r.coq, r.nontrivial);
        for (k, n) in &r.counts {
            report.count_n(k, *n);
        }
        for (what, input) in r.failures {
            report.oracle_failure(r.index, "", &what, input);
        }
        if r.index < 2 {
            report.sample(json!({ "case": r.coq.chars().take(1500).collect::<String>() }));
        }
        cw.push(r.coq);
    }
    let c = args.cases as u64;
    report.floor("stake_ok", c);
    report.floor("unstake_ok", c / 2);
    report.floor("epoch_changes", c);
    report.floor("epochs_with_emission", c / 4);
    report.floor("stake_unstake_round_trips", c / 4);
    report.floor("claim_ok", c / 16);
    report.floor("scripted_zero_supply_histories", 1);
    for name in boundary_scripts().iter().map(|x| x.0) {
        report.floor(&format!("bnd_script_{}", name), 1);
    }
    for k in [
        "stake_into_empty_vault_and_zero_supply", "stakes_into_vault_with_dust_but_zero_unit_supply", "stake_on_unregistered_validator",
        "unstakes_leaving_dust_with_zero_unit_supply", "unstake_of_all_units_exact", "unstake_of_one_atto_unit",
        "claim_exactly_at_claim_epoch", "claim_one_epoch_early", "claim_after_claim_epoch", "claim_ok", "claim_refused_before_epoch",
        "stake_exact_multiple_of_100k", "stake_one_atto_below_multiple_of_100k", "stake_bucket_exactly_u16_max", "stake_bucket_saturated",
        "stake_bucket_u16_max_minus_1", "cutoff_between_equal_stakes", "next_set_with_equal_stakes", "epochs_with_validator_cut_off",
        "emis_validator_without_any_proposal", "emis_validator_missed_all_proposals", "emis_validator_perfect", "emis_validator_partly_reliable",
        "emis_reliability_exactly_at_minimum", "emis_reliability_below_minimum", "emis_reliability_above_minimum", "emis_zero_emission_applied",
        "emis_fee_factor_zero", "emis_fee_factor_one", "emis_fee_factor_fraction", "epochs_with_rewards", "epochs_with_emission",
        "reg_no_update", "reg_register_with_stake", "reg_register_with_zero_stake", "reg_unregister_with_stake", "reg_unregister_with_zero_stake",
        "fee_increase", "fee_decrease", "fee_equal", "fee_invalid", "fee_update_promoting_a_pending_request",
        "emission_with_effective_pending_fee_change", "emission_with_pending_fee_change_not_yet_effective",
    ] {
        report.floor(&format!("bnd_{}", k), 1);
    }
    cw.write(&args.out, args.shards).unwrap();
    report.write(&args.out).unwrap();
}
