//! C42 correspondence harness: histories with four genesis validators (max_validators = 3), random
//! stakes / unstakes by a delegating staker, and epoch changes with random leader histories (missed
//! proposals), executed through scrypto-test's LedgerSimulator. For every operation the inputs the
//! blueprint read (stake vault, stake-unit supply, fee factor, active set, proposer rewards, rewards
//! vault) are read from the ledger before the transaction and the effects after it (stake units
//! minted, claim amount, emissions and rewards from the validator events, post-state vault/supply,
//! index sort prefix, EpochChangeEvent validator set). Model: coq/Model/C42_Staking.v.
//!
//! Direct oracle (big integers, no re-implementation of the code):
//!   units minted * stake <= xrd * supply (proportional, rounded down); claim * supply <= units * stake;
//!   stake followed by unstake of the minted units never claims more than was staked;
//!   XRD leaves/enters the staker exactly as it enters/leaves the vaults;
//!   per epoch: sum of emissions <= configured amount and == growth of the XRD total supply,
//!   sum of rewards <= rewards vault, every stake vault grows by emission + reward;
//!   next validator set: at most max_validators, stake descending, positive stake, registered.
use num_bigint::BigInt;
use num_traits::Signed;
use radix_common::prelude::*;
use radix_engine::blueprints::consensus_manager::*;
use radix_engine::system::system_db_reader::SystemDatabaseReader;
use radix_engine::transaction::*;
use radix_engine::updates::BabylonSettings;
use radix_engine::system::bootstrap::*;
use radix_engine_interface::blueprints::consensus_manager::*;
use radix_engine_interface::prelude::*;
use radix_transactions::prelude::*;
use scrypto_test::prelude::{DefaultLedgerSimulator, LedgerSimulatorBuilder};
use serde_json::json;
use std::str::FromStr;
use vh_common::*;

const NV: usize = 4;
const MAXV: u32 = 3;

fn big(d: Decimal) -> BigInt {
    BigInt::from_str(&d.attos().to_string()).unwrap()
}
fn dec(b: &BigInt) -> Decimal {
    Decimal::from_attos(I192::from_str(&b.to_string()).expect("fits"))
}
fn z(b: &BigInt) -> String {
    if b.is_negative() { format!("({})", b) } else { b.to_string() }
}

struct World {
    ledger: DefaultLedgerSimulator,
    staker_pk: Secp256k1PublicKey,
    staker: ComponentAddress,
    validators: Vec<ComponentAddress>,
    keys: Vec<Secp256k1PublicKey>,
    total_emission: BigInt,
    minrel: BigInt,
}

struct VState {
    v: BigInt,
    u: BigInt,
    ff: BigInt,
    registered: bool,
    prefix: i64, // 65536 = not in the index
    sort_key: Option<(Vec<u8>, Vec<u8>)>,
    pending: BigInt,
}

impl World {
    fn new(rng: &mut Rng) -> World {
        let staker_sk = Secp256k1PrivateKey::from_u64(1000).unwrap();
        let staker_pk = staker_sk.public_key();
        let staker = ComponentAddress::preallocated_account_from_public_key(&staker_pk);
        let keys: Vec<Secp256k1PublicKey> =
            (0..NV).map(|i| Secp256k1PrivateKey::from_u64(1 + i as u64).unwrap().public_key()).collect();
        let stakes: Vec<Decimal> = (0..NV)
            .map(|_| match rng.below(4) {
                0 => Decimal::from(rng.range(1, 50)),
                1 => Decimal::from(rng.range(90_000, 330_000)),
                2 => dec(&(BigInt::from(rng.next_u64()) * BigInt::from(rng.range(1, 1_000_000)))),
                _ => dec(&(BigInt::from(rng.range(1, 9_000_000)) * BigInt::from(10u64).pow(rng.range(10, 22) as u32) + BigInt::from(rng.next_u32()))),
            })
            .collect();
        let emission = match rng.below(4) {
            0 => dec!("2853.881278538812785388"),
            1 => Decimal::ONE,
            2 => dec(&(BigInt::from(rng.next_u64()) * BigInt::from(rng.range(1, 100_000)))),
            _ => Decimal::from(rng.range(1, 100_000)),
        };
        let minrel = match rng.below(5) {
            0 => Decimal::ONE,
            1 => Decimal::ZERO,
            2 => dec!("0.5"),
            3 => dec!("0.9"),
            _ => dec(&(BigInt::from(rng.range(1, 999_999_999)) * BigInt::from(1_000_000_000u64))),
        };
        let config = ConsensusManagerConfig::test_default()
            .with_max_validators(MAXV)
            .with_epoch_change_condition(EpochChangeCondition { min_round_count: 1, max_round_count: 50, target_duration_millis: 0 })
            .with_total_emission_xrd_per_epoch(emission)
            .with_min_validator_reliability(minrel)
            .with_num_unstake_epochs(1);
        let genesis_validators: Vec<GenesisValidator> = keys
            .iter()
            .enumerate()
            .map(|(i, k)| {
                let mut g = GenesisValidator::from(*k);
                g.fee_factor = match rng.below(5) {
                    0 => Decimal::ONE,
                    1 => Decimal::ZERO,
                    2 => dec!("0.02"),
                    3 => dec!("0.5"),
                    _ => dec(&(BigInt::from(rng.range(1, 999_999_999)) * BigInt::from(1_000_000_000u64))),
                };
                // at most one unregistered validator (it still holds stake and accepts more)
                g.is_registered = !(i == NV - 1 && rng.chance(1, 4));
                g
            })
            .collect();
        let genesis = BabylonSettings {
            genesis_data_chunks: vec![
                GenesisDataChunk::Validators(genesis_validators),
                GenesisDataChunk::Stakes {
                    accounts: vec![staker],
                    allocations: keys
                        .iter()
                        .zip(stakes.iter())
                        .map(|(k, s)| (*k, vec![GenesisStakeAllocation { account_index: 0, xrd_amount: *s }]))
                        .collect(),
                },
                GenesisDataChunk::ResourceBalances {
                    accounts: vec![staker],
                    allocations: vec![(XRD, vec![GenesisResourceAllocation { account_index: 0u32, amount: dec!("100000000000") }])],
                },
            ],
            genesis_epoch: Epoch::of(1),
            consensus_manager_config: config,
            initial_time_ms: 0,
            initial_current_leader: Some(0),
            faucet_supply: *DEFAULT_TESTING_FAUCET_SUPPLY,
        };
        let ledger = LedgerSimulatorBuilder::new()
            .without_kernel_trace()
            .with_custom_protocol(|b| b.configure_babylon(|_| genesis).from_bootstrap_to_latest())
            .build();
        let mut w = World { ledger, staker_pk, staker, validators: vec![], keys, total_emission: big(emission), minrel: big(minrel) };
        w.validators = w.find_validators();
        w
    }

    /// all validator components, matched to the genesis keys
    fn find_validators(&self) -> Vec<ComponentAddress> {
        let mut out = vec![None; NV];
        for c in self.ledger.find_all_components() {
            if c.as_node_id().entity_type() == Some(EntityType::GlobalValidator) {
                let s = self.ledger.get_validator_info(c);
                if let Some(i) = self.keys.iter().position(|k| *k == s.key) {
                    out[i] = Some(c);
                }
            }
        }
        out.into_iter().map(|x| x.expect("validator of genesis key")).collect()
    }

    fn vstate(&mut self, i: usize) -> VState {
        let s = self.ledger.get_validator_info(self.validators[i]);
        let v = big(self.ledger.inspect_vault_balance(s.stake_xrd_vault_id.0).unwrap());
        let pending = big(self.ledger.inspect_vault_balance(s.pending_xrd_withdraw_vault_id.0).unwrap());
        let u = big(self.ledger.get_fungible_resource_total_supply(s.stake_unit_resource));
        let prefix = match &s.sorted_key {
            Some((p, _)) => ((p[0] as i64) << 8) | p[1] as i64,
            None => 65536,
        };
        VState {
            v,
            u,
            ff: big(s.validator_fee_factor),
            registered: s.is_registered,
            prefix,
            sort_key: s.sorted_key.clone().map(|(p, a)| (p.to_vec(), a)),
            pending,
        }
    }
    fn unit_resource(&self, i: usize) -> ResourceAddress {
        self.ledger.get_validator_info(self.validators[i]).stake_unit_resource
    }
    fn exec(&mut self, m: TransactionManifestV1) -> TransactionReceipt {
        self.ledger.execute_manifest(m, vec![NonFungibleGlobalId::from_public_key(&self.staker_pk)])
    }
    fn active_set(&self) -> Vec<(ComponentAddress, BigInt)> {
        let reader = SystemDatabaseReader::new(self.ledger.substate_db());
        let s = reader
            .read_typed_object_field::<ConsensusManagerCurrentValidatorSetFieldPayload>(
                CONSENSUS_MANAGER.as_node_id(),
                ModuleId::Main,
                ConsensusManagerField::CurrentValidatorSet.field_index(),
            )
            .unwrap()
            .fully_update_and_into_latest_version();
        s.validator_set.validators_by_stake_desc.iter().map(|(a, v)| (*a, big(v.stake))).collect()
    }
    fn rewards_state(&mut self) -> (Vec<(u8, BigInt)>, BigInt) {
        let (map, vault) = {
            let reader = SystemDatabaseReader::new(self.ledger.substate_db());
            let s = reader
                .read_typed_object_field::<ConsensusManagerValidatorRewardsFieldPayload>(
                    CONSENSUS_MANAGER.as_node_id(),
                    ModuleId::Main,
                    ConsensusManagerField::ValidatorRewards.field_index(),
                )
                .unwrap()
                .fully_update_and_into_latest_version();
            (s.proposer_rewards.iter().map(|(k, v)| (*k, big(*v))).collect::<Vec<_>>(), s.rewards_vault.0 .0)
        };
        let bal = big(self.ledger.inspect_vault_balance(vault).unwrap());
        (map, bal)
    }
}

fn prefix_and_reg(s: &VState) -> String {
    format!("{} {}", coq_bool(s.registered), s.prefix)
}

fn main() {
    let args = Args::parse();
    let mut report = Report::new(
        "C42",
        args.seed,
        "histories of 8..16 operations (stake / unstake by a delegating staker on 4 genesis validators with random stakes, epoch changes \
         with 1..6 rounds and random gap-round leaders) under random emission amount and minimum reliability, max_validators = 3; \
         non-trivial = at least one epoch change with a positive emission and one stake followed by an unstake; distinct by canonical text",
    );
    let mut cw = CaseWriter::new("RV.Corr.C42_run RV.Model.C42_Staking", "check");
    let root = Rng::new(args.seed);
    let threads: usize = args.extra.get("threads").and_then(|s| s.parse().ok()).unwrap_or(4).max(1);
    let cases = args.cases;
    let thorough = args.tier == "thorough";
    struct CaseResult {
        index: usize,
        coq: String,
        nontrivial: bool,
        counts: Vec<(String, u64)>,
        failures: Vec<(String, serde_json::Value)>,
    }
    let mut results: Vec<CaseResult> = std::thread::scope(|sc| {
        let hs: Vec<_> = (0..threads)
            .map(|t| {
                let root = root.clone();
                sc.spawn(move || {
                    let mut out = Vec::new();
                    let mut i = t;
                    while i < cases {
                        let mut rng = root.fork(i as u64);
                        let mut w = World::new(&mut rng);
                        let mut obs: Vec<String> = Vec::new();
                        let mut failures: Vec<(String, serde_json::Value)> = Vec::new();
                        let mut counts: std::collections::BTreeMap<String, u64> = Default::default();
                        let mut cnt = |k: &str| *counts.entry(k.to_string()).or_insert(0) += 1;
                        let len = if thorough { rng.range(10, 24) } else { rng.range(8, 16) };
                        let mut last_stake: Option<(usize, BigInt, BigInt)> = None; // validator, xrd, units
                        let mut had_emission = false;
                        let mut had_roundtrip = false;
                        for step in 0..len {
                            let r = if let Some(_) = &last_stake { if rng.chance(1, 2) { 100 } else { rng.below(100) } } else { rng.below(100) };
                            if r < 35 {
                                // stake
                                let vi = rng.usize_below(NV);
                                let before = w.vstate(vi);
                                let x: BigInt = match rng.below(6) {
                                    0 => BigInt::from(rng.range(1, 1000)) * BigInt::from(10u64).pow(18),
                                    1 => BigInt::from(rng.range(1, 1_000_000_000)),
                                    2 => BigInt::from(rng.next_u64()) * BigInt::from(rng.range(1, 1_000_000_000)),
                                    3 => &before.v / BigInt::from(rng.range(1, 9)) + BigInt::from(rng.below(3)),
                                    4 => BigInt::from(rng.range(50_000, 400_000)) * BigInt::from(10u64).pow(18),
                                    _ => BigInt::from(1u32),
                                };
                                let unit_res = w.unit_resource(vi);
                                let acc_units0 = big(w.ledger.get_component_balance(w.staker, unit_res));
                                let acc_xrd0 = big(w.ledger.get_component_balance(w.staker, XRD));
                                let m = ManifestBuilder::new()
                                    .lock_fee_from_faucet()
                                    .withdraw_from_account(w.staker, XRD, dec(&x))
                                    .take_all_from_worktop(XRD, "x")
                                    .with_name_lookup(|b, l| b.call_method(w.validators[vi], VALIDATOR_STAKE_IDENT, manifest_args!(l.bucket("x"))))
                                    .try_deposit_entire_worktop_or_abort(w.staker, None)
                                    .build();
                                let receipt = w.exec(m);
                                if !receipt.is_commit_success() {
                                    failures.push((format!("step {}: stake of {} failed: {:?}", step, x, receipt.expect_commit_ignore_outcome().outcome), json!({})));
                                    break;
                                }
                                let after = w.vstate(vi);
                                let units = big(w.ledger.get_component_balance(w.staker, unit_res)) - acc_units0;
                                let paid = acc_xrd0 - big(w.ledger.get_component_balance(w.staker, XRD));
                                cnt("stake_ok");
                                if paid != x || &after.v - &before.v != x {
                                    failures.push((format!("step {}: stake moved {} from the account, {} into the vault, requested {}", step, paid, &after.v - &before.v, x), json!({})));
                                }
                                if &after.u - &before.u != units || units.is_negative() {
                                    failures.push((format!("step {}: minted units {} differ from supply change", step, units), json!({})));
                                }
                                if before.v.is_positive() && &units * &before.v > &x * &before.u {
                                    failures.push((format!("step {}: stake units {} exceed the proportional amount (x={}, V={}, U={})", step, units, x, before.v, before.u), json!({})));
                                }
                                obs.push(format!("OStake {} {} {} ({}, {}, {}) {}", z(&x), z(&before.v), z(&before.u), z(&units), z(&after.v), z(&after.u), prefix_and_reg(&after)));
                                last_stake = if units.is_positive() { Some((vi, x, units)) } else { None };
                            } else if r < 60 || r == 100 {
                                // unstake
                                let (vi, units, from_stake) = match (&last_stake, r == 100) {
                                    (Some((vi, x, u)), true) => (*vi, u.clone(), Some(x.clone())),
                                    _ => {
                                        let vi = rng.usize_below(NV);
                                        let have = big(w.ledger.get_component_balance(w.staker, w.unit_resource(vi)));
                                        let u = match rng.below(5) {
                                            0 => have.clone(),
                                            1 => &have / BigInt::from(rng.range(2, 9)),
                                            2 => BigInt::from(1u32),
                                            3 => &have - BigInt::from(1u32),
                                            _ => &have * BigInt::from(rng.range(1, 99)) / BigInt::from(100u32),
                                        };
                                        (vi, u, None)
                                    }
                                };
                                last_stake = None;
                                let unit_res = w.unit_resource(vi);
                                let have = big(w.ledger.get_component_balance(w.staker, unit_res));
                                if !units.is_positive() || units > have {
                                    continue;
                                }
                                let before = w.vstate(vi);
                                let m = ManifestBuilder::new()
                                    .lock_fee_from_faucet()
                                    .withdraw_from_account(w.staker, unit_res, dec(&units))
                                    .take_all_from_worktop(unit_res, "u")
                                    .with_name_lookup(|b, l| b.call_method(w.validators[vi], VALIDATOR_UNSTAKE_IDENT, manifest_args!(l.bucket("u"))))
                                    .try_deposit_entire_worktop_or_abort(w.staker, None)
                                    .build();
                                let receipt = w.exec(m);
                                if !receipt.is_commit_success() {
                                    failures.push((format!("step {}: unstake of {} failed: {:?}", step, units, receipt.expect_commit_ignore_outcome().outcome), json!({})));
                                    break;
                                }
                                let after = w.vstate(vi);
                                let claim = &after.pending - &before.pending;
                                cnt("unstake_ok");
                                if &before.v - &after.v != claim || &before.u - &after.u != units || claim.is_negative() {
                                    failures.push((format!("step {}: unstake bookkeeping mismatch (claim {}, dV {}, dU {})", step, claim, &before.v - &after.v, &before.u - &after.u), json!({})));
                                }
                                if &claim * &before.u > &units * &before.v {
                                    failures.push((format!("step {}: claim {} exceeds the proportional share of {} units (V={}, U={})", step, claim, units, before.v, before.u), json!({})));
                                }
                                if let Some(x) = from_stake {
                                    cnt("stake_unstake_round_trips");
                                    had_roundtrip = true;
                                    if claim > x {
                                        failures.push((format!("step {}: staking {} then unstaking the minted units claims {}", step, x, claim), json!({})));
                                    }
                                    if claim < x {
                                        cnt("round_trips_with_rounding_loss");
                                    }
                                }
                                obs.push(format!("OUnstake {} {} {} ({}, {}, {}) {}", z(&units), z(&before.v), z(&before.u), z(&claim), z(&after.v), z(&after.u), prefix_and_reg(&after)));
                            } else {
                                // epoch change
                                last_stake = None;
                                let active = w.active_set();
                                let n_active = active.len() as u8;
                                let befores: Vec<VState> = (0..NV).map(|i| w.vstate(i)).collect();
                                let (proposer, vault) = w.rewards_state();
                                let cur_round = w.ledger.get_consensus_manager_state().round.number();
                                let rounds = rng.range(1, 6);
                                let gaps: Vec<u8> = (0..rounds - 1).map(|_| rng.below(n_active as u64) as u8).collect();
                                let leader = rng.below(n_active as u64) as u8;
                                let ts = w.ledger.get_current_proposer_timestamp_ms();
                                let receipt = w.ledger.execute_system_transaction(
                                    ManifestBuilder::new_system_v1()
                                        .call_method(
                                            CONSENSUS_MANAGER,
                                            CONSENSUS_MANAGER_NEXT_ROUND_IDENT,
                                            ConsensusManagerNextRoundInput {
                                                round: Round::of(cur_round + rounds),
                                                proposer_timestamp_ms: ts,
                                                leader_proposal_history: LeaderProposalHistory { gap_round_leaders: gaps.clone(), current_leader: leader, is_fallback: false },
                                            },
                                        )
                                        .build(),
                                    btreeset![system_execution(SystemExecution::Validator)],
                                );
                                if !receipt.is_commit_success() {
                                    failures.push((format!("step {}: epoch change failed: {:?}", step, receipt.expect_commit_ignore_outcome().outcome), json!({})));
                                    break;
                                }
                                let result = receipt.expect_commit_success();
                                let next = match result.next_epoch() {
                                    Some(e) => e,
                                    None => {
                                        failures.push((format!("step {}: no epoch change after {} rounds", step, rounds), json!({})));
                                        break;
                                    }
                                };
                                cnt("epoch_changes");
                                let vaddrs = w.validators.clone();
                                let idx_of = |a: &NodeId| vaddrs.iter().position(|v| v.as_node_id() == a);
                                let mut emis: Vec<(usize, BigInt)> = Vec::new();
                                let mut stats: std::collections::BTreeMap<usize, (u64, u64)> = Default::default();
                                let mut rew: Vec<(usize, BigInt)> = Vec::new();
                                let mut xrd_minted = BigInt::from(0u32);
                                for (id, data) in result.application_events.iter() {
                                    let node = match &id.0 {
                                        Emitter::Method(n, _) => *n,
                                        Emitter::Function(b) => *b.package_address.as_node_id(),
                                    };
                                    if node == *XRD.as_node_id() && w.ledger.is_event_name_equal::<radix_engine::blueprints::resource::MintFungibleResourceEvent>(id) {
                                        let e: radix_engine::blueprints::resource::MintFungibleResourceEvent = scrypto_decode(data).unwrap();
                                        xrd_minted += big(e.amount);
                                    } else if w.ledger.is_event_name_equal::<ValidatorEmissionAppliedEvent>(id) {
                                        let e: ValidatorEmissionAppliedEvent = scrypto_decode(data).unwrap();
                                        let vi = idx_of(&node).unwrap();
                                        emis.push((vi, big(e.validator_fee_xrd) + big(e.stake_pool_added_xrd)));
                                        stats.insert(vi, (e.proposals_made, e.proposals_missed));
                                    } else if w.ledger.is_event_name_equal::<ValidatorRewardAppliedEvent>(id) {
                                        let e: ValidatorRewardAppliedEvent = scrypto_decode(data).unwrap();
                                        rew.push((idx_of(&node).unwrap(), big(e.amount)));
                                    }
                                }
                                let afters: Vec<VState> = (0..NV).map(|i| w.vstate(i)).collect();
                                // oracle
                                let sum_e: BigInt = emis.iter().map(|(_, e)| e.clone()).sum();
                                let sum_r: BigInt = rew.iter().map(|(_, e)| e.clone()).sum();
                                if sum_e > w.total_emission {
                                    failures.push((format!("step {}: emissions {} exceed the configured amount {}", step, sum_e, w.total_emission), json!({})));
                                }
                                if xrd_minted != sum_e {
                                    failures.push((format!("step {}: {} XRD minted but emissions sum to {}", step, xrd_minted, sum_e), json!({})));
                                }
                                if sum_r > vault {
                                    failures.push((format!("step {}: rewards {} exceed the rewards vault {}", step, sum_r, vault), json!({})));
                                }
                                if sum_e.is_positive() {
                                    had_emission = true;
                                    cnt("epochs_with_emission");
                                }
                                if sum_r.is_positive() {
                                    cnt("epochs_with_rewards");
                                }
                                if stats.values().any(|(_, missed)| *missed > 0) {
                                    cnt("epochs_with_missed_proposals");
                                }
                                for i in 0..NV {
                                    let e: BigInt = emis.iter().filter(|(v, _)| *v == i).map(|(_, e)| e.clone()).sum();
                                    let r: BigInt = rew.iter().filter(|(v, _)| *v == i).map(|(_, e)| e.clone()).sum();
                                    if &afters[i].v - &befores[i].v != &e + &r {
                                        failures.push((format!("step {}: validator {} stake grew by {} but emission+reward = {}", step, i, &afters[i].v - &befores[i].v, &e + &r), json!({})));
                                    }
                                    if afters[i].u < befores[i].u {
                                        failures.push((format!("step {}: validator {} stake unit supply shrank", step, i), json!({})));
                                    }
                                }
                                let next_list: Vec<(usize, BigInt)> = next
                                    .validator_set
                                    .validators_by_stake_desc
                                    .iter()
                                    .map(|(a, v)| (idx_of(a.as_node_id()).unwrap(), big(v.stake)))
                                    .collect();
                                if next_list.len() > MAXV as usize {
                                    failures.push((format!("step {}: next validator set has {} members", step, next_list.len()), json!({})));
                                }
                                for k in 0..next_list.len() {
                                    if k + 1 < next_list.len() && next_list[k].1 < next_list[k + 1].1 {
                                        failures.push((format!("step {}: next validator set not ordered by stake", step), json!({})));
                                    }
                                    let (vi, st) = &next_list[k];
                                    if !st.is_positive() || !afters[*vi].registered || *st != afters[*vi].v {
                                        failures.push((format!("step {}: member {} of the next set: stake {} registered {} vault {}", step, vi, st, afters[*vi].registered, afters[*vi].v), json!({})));
                                    }
                                }
                                // every registered validator with more stake than the last member must be a member
                                if let Some((_, min_st)) = next_list.last() {
                                    for i in 0..NV {
                                        if afters[i].registered && afters[i].v > *min_st && !next_list.iter().any(|(v, _)| *v == i) {
                                            failures.push((format!("step {}: validator {} with stake {} left out of the next set", step, i, afters[i].v), json!({})));
                                        }
                                    }
                                }
                                if (0..NV).filter(|i| afters[*i].registered && afters[*i].v.is_positive()).count() > MAXV as usize {
                                    cnt("epochs_with_validator_cut_off");
                                }
                                // scan order of the index: by (prefix, address bytes)
                                let mut scan: Vec<(Vec<u8>, Vec<u8>, usize)> = (0..NV)
                                    .filter_map(|i| afters[i].sort_key.clone().map(|(p, a)| (p, a, i)))
                                    .collect();
                                scan.sort();
                                let active_s = coq_list(active.iter().map(|(a, st)| {
                                    let vi = idx_of(a.as_node_id()).unwrap();
                                    let (made, missed) = stats.get(&vi).cloned().unwrap_or((0, 0));
                                    format!("({}, {}, {}, {})", vi, z(st), made, missed)
                                }));
                                let vals_s = coq_list((0..NV).map(|i| {
                                    format!(
                                        "({}, ({}, {}, {}), ({}, {}), {})",
                                        i, z(&befores[i].v), z(&befores[i].u), z(&befores[i].ff), z(&afters[i].v), z(&afters[i].u), afters[i].prefix
                                    )
                                }));
                                obs.push(format!(
                                    "OEpoch {} {} {} {} {} {} {} {} {} {} {}",
                                    z(&w.total_emission),
                                    z(&w.minrel),
                                    MAXV,
                                    active_s,
                                    coq_list(proposer.iter().map(|(k, v)| format!("({}, {})", k, z(v)))),
                                    z(&vault),
                                    coq_list(emis.iter().map(|(v, e)| format!("({}, {})", v, z(e)))),
                                    coq_list(rew.iter().map(|(v, e)| format!("({}, {})", v, z(e)))),
                                    vals_s,
                                    coq_list(scan.iter().map(|(_, _, i)| format!("({}, {})", i, z(&afters[*i].v)))),
                                    coq_list(next_list.iter().map(|(v, st)| format!("({}, {})", v, z(st)))),
                                ));
                            }
                        }
                        out.push(CaseResult {
                            index: i,
                            coq: format!("({})%Z", coq_list(obs.iter().cloned())),
                            nontrivial: had_emission && had_roundtrip,
                            counts: counts.into_iter().collect(),
                            failures,
                        });
                        i += threads;
                    }
                    out
                })
            })
            .collect();
        hs.into_iter().flat_map(|h| h.join().expect("worker")).collect()
    });
    results.sort_by_key(|r| r.index);
    for r in results {
        report.case(&r.coq, r.nontrivial);
        for (k, n) in &r.counts {
            report.count_n(k, *n);
        }
        for (what, input) in r.failures {
            report.oracle_failure(r.index, "", &what, input);
        }
        if r.index < 2 {
            report.sample(json!({ "case": r.coq.chars().take(1500).collect::<String>() }));
        }
        cw.push(r.coq);
    }
    let c = args.cases as u64;
    report.floor("stake_ok", c);
    report.floor("unstake_ok", c / 2);
    report.floor("epoch_changes", c);
    report.floor("epochs_with_emission", c / 4);
    report.floor("stake_unstake_round_trips", c / 4);
    cw.write(&args.out, args.shards).unwrap();
    report.write(&args.out).unwrap();
}
