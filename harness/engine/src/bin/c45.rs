//! C45 correspondence harness: WASM package validation (`ScryptoV1WasmValidator::validate`).
//!
//! Stream A (model correspondence): modules are built with wasm-encoder from a structured spec — a
//! valid baseline plus mutations placed on each sandbox limit (limit-1 / limit / limit+1) and on each
//! rule (floats, start, imports and their signatures and VM versions, memory shape and export, tables,
//! br_table, functions, params, locals, globals, export names and blueprint exports). The module
//! *summary* is extracted from the bytes by this harness's own wasmparser pass, the real validator
//! is run under catch_unwind, and (version, summary, required exports, verdict class) is written as
//! a Coq case for Model/C45_WasmRules.v.
//! Direct oracle on every accepted module (independent of the Coq model): the sandbox rules of the
//! property statement are evaluated in Rust on the parsed *input*, and the *output* module is
//! re-parsed: it must validate under the strict feature set, have no start section, one defined
//! memory with a declared maximum within the limit exported as "memory", only function imports
//! from "env", the `env.gas` metering import with type [i64]->[], the stack-height global, a
//! metering call at the head of every non-trivial function, and the stack-limiter preamble before
//! every call of a function with locals/operands.
//! Stream B (totality): arbitrary byte strings, mutated valid modules, and WAT modules using
//! post-MVP proposals go through the full validation under catch_unwind: a panic is a failure.
use radix_engine::vm::wasm::*;
use radix_engine::vm::ScryptoVmVersion;
use radix_engine_interface::blueprints::package::PackageDefinition;
use serde_json::json;
use vh_common::*;
use wasm_encoder as we;
use wasmparser as wp;

// ------------------------------------------------------------------------------------------------
// module spec and encoder
// ------------------------------------------------------------------------------------------------
#[derive(Clone, Copy, Debug, PartialEq)]
enum VT {
    I32,
    I64,
    F32,
    F64,
}
impl VT {
    fn we(self) -> we::ValType {
        match self {
            VT::I32 => we::ValType::I32,
            VT::I64 => we::ValType::I64,
            VT::F32 => we::ValType::F32,
            VT::F64 => we::ValType::F64,
        }
    }
}
#[derive(Clone, Debug)]
enum ImpKind {
    Func(u32),
    Global(VT),
    Memory(u64, Option<u64>),
    Table(u32),
}
#[derive(Clone, Debug)]
enum Stmt {
    ConstDrop32(i32),
    ConstDrop64(i64),
    SetLocal(u32, VT),
    Block(Vec<Stmt>),
    Loop(Vec<Stmt>),
    If(Vec<Stmt>, Vec<Stmt>),
    BlockResultFloat,
    BrTable(u32),
    BrIfOut,
    CallFn(u32),     // function index (import or local); args are zeros of the callee's param types
    CallIndirect(u32),
    MemGrow,
    MemSize,
    LoadStore,
    SignExt,
    FloatConst,
    FloatConv,
    BulkCopy,
    SatConv,
    GlobalRW(u32, VT),
    Nop,
    Raw(Vec<u8>),
}
#[derive(Clone, Debug)]
struct FuncSpec {
    ty: u32,
    locals: Vec<(u32, VT)>,
    body: Vec<Stmt>,
}
#[derive(Clone, Debug, Default)]
struct ModSpec {
    types: Vec<(Vec<VT>, Vec<VT>)>,
    imports: Vec<(String, String, ImpKind)>,
    funcs: Vec<FuncSpec>,
    tables: Option<Vec<(u32, Option<u32>)>>,
    memories: Option<Vec<(u64, Option<u64>)>>,
    globals: Vec<(VT, bool)>,
    exports: Option<Vec<(String, u8, u32)>>, // kind: 0 func 1 table 2 memory 3 global
    start: Option<u32>,
    elements: Vec<u32>,
    data: Option<(i32, usize)>,
    custom: bool,
}

impl ModSpec {
    fn type_idx(&mut self, p: Vec<VT>, r: Vec<VT>) -> u32 {
        if let Some(i) = self.types.iter().position(|t| t.0 == p && t.1 == r) {
            return i as u32;
        }
        self.types.push((p, r));
        (self.types.len() - 1) as u32
    }
    fn n_imp_funcs(&self) -> u32 {
        self.imports.iter().filter(|i| matches!(i.2, ImpKind::Func(_))).count() as u32
    }
    fn func_type_of(&self, fidx: u32) -> Option<u32> {
        let mut k = 0;
        for i in &self.imports {
            if let ImpKind::Func(t) = i.2 {
                if k == fidx {
                    return Some(t);
                }
                k += 1;
            }
        }
        self.funcs.get((fidx - k) as usize).map(|f| f.ty)
    }

    fn push_zero(f: &mut we::Function, t: VT) {
        match t {
            VT::I32 => f.instruction(&we::Instruction::I32Const(0)),
            VT::I64 => f.instruction(&we::Instruction::I64Const(0)),
            VT::F32 => f.instruction(&we::Instruction::F32Const(0.0)),
            VT::F64 => f.instruction(&we::Instruction::F64Const(0.0)),
        };
    }
    fn emit_stmts(&self, f: &mut we::Function, ss: &[Stmt]) {
        use we::Instruction as I;
        let ma = we::MemArg { offset: 0, align: 0, memory_index: 0 };
        for s in ss {
            match s {
                Stmt::ConstDrop32(k) => {
                    f.instruction(&I::I32Const(*k)).instruction(&I::Drop);
                }
                Stmt::ConstDrop64(k) => {
                    f.instruction(&I::I64Const(*k)).instruction(&I::Drop);
                }
                Stmt::SetLocal(l, t) => {
                    Self::push_zero(f, *t);
                    f.instruction(&I::LocalSet(*l));
                }
                Stmt::Block(b) => {
                    f.instruction(&I::Block(we::BlockType::Empty));
                    self.emit_stmts(f, b);
                    f.instruction(&I::End);
                }
                Stmt::Loop(b) => {
                    f.instruction(&I::Loop(we::BlockType::Empty));
                    self.emit_stmts(f, b);
                    f.instruction(&I::End);
                }
                Stmt::If(a, b) => {
                    f.instruction(&I::I32Const(1)).instruction(&I::If(we::BlockType::Empty));
                    self.emit_stmts(f, a);
                    if !b.is_empty() {
                        f.instruction(&I::Else);
                        self.emit_stmts(f, b);
                    }
                    f.instruction(&I::End);
                }
                Stmt::BlockResultFloat => {
                    f.instruction(&I::Block(we::BlockType::Result(we::ValType::F64)));
                    f.instruction(&I::F64Const(1.0)).instruction(&I::End).instruction(&I::Drop);
                }
                Stmt::BrTable(n) => {
                    f.instruction(&I::Block(we::BlockType::Empty));
                    f.instruction(&I::I32Const(0));
                    f.instruction(&I::BrTable(vec![0u32; *n as usize].into(), 0));
                    f.instruction(&I::End);
                }
                Stmt::BrIfOut => {
                    f.instruction(&I::Block(we::BlockType::Empty));
                    f.instruction(&I::I32Const(0)).instruction(&I::BrIf(0));
                    f.instruction(&I::I32Const(7)).instruction(&I::Drop);
                    f.instruction(&I::End);
                }
                Stmt::CallFn(idx) => {
                    if let Some(t) = self.func_type_of(*idx).and_then(|t| self.types.get(t as usize)) {
                        for p in &t.0 {
                            Self::push_zero(f, *p);
                        }
                        f.instruction(&I::Call(*idx));
                        for _ in &t.1 {
                            f.instruction(&I::Drop);
                        }
                    }
                }
                Stmt::CallIndirect(ty) => {
                    if let Some(t) = self.types.get(*ty as usize) {
                        for p in &t.0 {
                            Self::push_zero(f, *p);
                        }
                        f.instruction(&I::I32Const(0));
                        f.instruction(&I::CallIndirect { ty: *ty, table: 0 });
                        for _ in &t.1 {
                            f.instruction(&I::Drop);
                        }
                    }
                }
                Stmt::MemGrow => {
                    f.instruction(&I::I32Const(1)).instruction(&I::MemoryGrow(0)).instruction(&I::Drop);
                }
                Stmt::MemSize => {
                    f.instruction(&I::MemorySize(0)).instruction(&I::Drop);
                }
                Stmt::LoadStore => {
                    f.instruction(&I::I32Const(8));
                    f.instruction(&I::I32Const(0)).instruction(&I::I64Load(ma));
                    f.instruction(&I::I64Store(ma));
                }
                Stmt::SignExt => {
                    f.instruction(&I::I32Const(200)).instruction(&I::I32Extend8S).instruction(&I::Drop);
                }
                Stmt::FloatConst => {
                    f.instruction(&I::F32Const(1.5)).instruction(&I::Drop);
                }
                Stmt::FloatConv => {
                    f.instruction(&I::I32Const(1)).instruction(&I::F64ConvertI32S).instruction(&I::Drop);
                }
                Stmt::BulkCopy => {
                    f.instruction(&I::I32Const(0)).instruction(&I::I32Const(0)).instruction(&I::I32Const(0));
                    f.instruction(&I::MemoryCopy { src_mem: 0, dst_mem: 0 });
                }
                Stmt::SatConv => {
                    f.instruction(&I::F32Const(1.0)).instruction(&I::I32TruncSatF32S).instruction(&I::Drop);
                }
                Stmt::GlobalRW(g, t) => {
                    f.instruction(&I::GlobalGet(*g)).instruction(&I::Drop);
                    Self::push_zero(f, *t);
                    f.instruction(&I::GlobalSet(*g));
                }
                Stmt::Nop => {
                    f.instruction(&I::Nop);
                }
                Stmt::Raw(b) => {
                    f.raw(b.iter().copied());
                }
            }
        }
    }

    fn encode(&self) -> Vec<u8> {
        let mut m = we::Module::new();
        if !self.types.is_empty() {
            let mut s = we::TypeSection::new();
            for (p, r) in &self.types {
                s.function(p.iter().map(|t| t.we()).collect::<Vec<_>>(), r.iter().map(|t| t.we()).collect::<Vec<_>>());
            }
            m.section(&s);
        }
        if !self.imports.is_empty() {
            let mut s = we::ImportSection::new();
            for (md, nm, k) in &self.imports {
                let et = match k {
                    ImpKind::Func(t) => we::EntityType::Function(*t),
                    ImpKind::Global(t) => we::EntityType::Global(we::GlobalType { val_type: t.we(), mutable: false }),
                    ImpKind::Memory(a, b) => we::EntityType::Memory(we::MemoryType { minimum: *a, maximum: *b, memory64: false, shared: false }),
                    ImpKind::Table(n) => we::EntityType::Table(we::TableType { element_type: we::RefType::FUNCREF, minimum: *n, maximum: None }),
                };
                s.import(md, nm, et);
            }
            m.section(&s);
        }
        if !self.funcs.is_empty() {
            let mut s = we::FunctionSection::new();
            for f in &self.funcs {
                s.function(f.ty);
            }
            m.section(&s);
        }
        if let Some(ts) = &self.tables {
            let mut s = we::TableSection::new();
            for (a, b) in ts {
                s.table(we::TableType { element_type: we::RefType::FUNCREF, minimum: *a, maximum: *b });
            }
            m.section(&s);
        }
        if let Some(ms) = &self.memories {
            let mut s = we::MemorySection::new();
            for (a, b) in ms {
                s.memory(we::MemoryType { minimum: *a, maximum: *b, memory64: false, shared: false });
            }
            m.section(&s);
        }
        if !self.globals.is_empty() {
            let mut s = we::GlobalSection::new();
            for (t, mu) in &self.globals {
                let init = match t {
                    VT::I32 => we::ConstExpr::i32_const(0),
                    VT::I64 => we::ConstExpr::i64_const(0),
                    VT::F32 => we::ConstExpr::f32_const(0.0),
                    VT::F64 => we::ConstExpr::f64_const(0.0),
                };
                s.global(we::GlobalType { val_type: t.we(), mutable: *mu }, &init);
            }
            m.section(&s);
        }
        if let Some(es) = &self.exports {
            let mut s = we::ExportSection::new();
            for (n, k, i) in es {
                let kind = match k {
                    0 => we::ExportKind::Func,
                    1 => we::ExportKind::Table,
                    2 => we::ExportKind::Memory,
                    _ => we::ExportKind::Global,
                };
                s.export(n, kind, *i);
            }
            m.section(&s);
        }
        if let Some(f) = self.start {
            m.section(&we::StartSection { function_index: f });
        }
        if !self.elements.is_empty() {
            let mut s = we::ElementSection::new();
            s.active(None, &we::ConstExpr::i32_const(0), we::RefType::FUNCREF, we::Elements::Functions(&self.elements));
            m.section(&s);
        }
        if !self.funcs.is_empty() {
            let mut s = we::CodeSection::new();
            for fs in &self.funcs {
                let mut f = we::Function::new(fs.locals.iter().map(|(n, t)| (*n, t.we())).collect::<Vec<_>>());
                self.emit_stmts(&mut f, &fs.body);
                if let Some(t) = self.types.get(fs.ty as usize) {
                    for r in &t.1 {
                        Self::push_zero(&mut f, *r);
                    }
                }
                f.instruction(&we::Instruction::End);
                s.function(&f);
            }
            m.section(&s);
        }
        if let Some((off, len)) = self.data {
            let mut s = we::DataSection::new();
            s.active(0, &we::ConstExpr::i32_const(off), vec![7u8; len]);
            m.section(&s);
        }
        if self.custom {
            m.section(&we::CustomSection { name: "producers".into(), data: (&[1u8, 2, 3][..]).into() });
        }
        m.finish()
    }
}

// ------------------------------------------------------------------------------------------------
// the harness's own summary extraction (wasmparser)
// ------------------------------------------------------------------------------------------------
#[derive(Clone, Debug, Default)]
struct Body {
    locals: Vec<u32>,
    br_tables: Vec<u32>,
    ops: Vec<String>, // debug names (oracle only)
    n_ops: usize,
    calls: Vec<u32>,
    costly: bool,
}
#[derive(Clone, Debug, Default)]
struct Summary {
    wp_valid: bool,
    uses_float: bool,
    has_start: bool,
    types: Vec<(Vec<u8>, Vec<u8>)>, // valtype codes 0 i32 1 i64 2 f32 3 f64 4 other
    imports: Vec<(Vec<u8>, Vec<u8>, u8, u32)>, // module, name, kind (0 func 1 table 2 memory 3 global 4 tag), type idx
    funcs: Vec<u32>,
    tables: Option<Vec<(u64, Option<u64>)>>,
    memories: Option<Vec<(u64, Option<u64>)>>,
    globals: u32,
    global_types: Vec<(u8, bool)>,
    exports: Option<Vec<(Vec<u8>, bool, u8, u32)>>,
    bodies: Vec<Body>,
    elements: Vec<u32>,
}

fn vt_code(t: &wp::ValType) -> u8 {
    match t {
        wp::ValType::I32 => 0,
        wp::ValType::I64 => 1,
        wp::ValType::F32 => 2,
        wp::ValType::F64 => 3,
        _ => 4,
    }
}
fn is_float(t: &wp::ValType) -> bool {
    matches!(t, wp::ValType::F32 | wp::ValType::F64)
}
fn features(floats: bool) -> wp::WasmFeatures {
    wp::WasmFeatures {
        mutable_global: true,
        saturating_float_to_int: false,
        sign_extension: true,
        reference_types: false,
        multi_value: false,
        bulk_memory: false,
        simd: false,
        relaxed_simd: false,
        threads: false,
        tail_call: false,
        floats,
        multi_memory: false,
        exceptions: false,
        memory64: false,
        extended_const: false,
        component_model: false,
        function_references: false,
        memory_control: false,
        gc: false,
    }
}
/// Rust identifier per syn (the library the code calls); the predicate is an input of the model
fn ident_ok(name: &str) -> bool {
    syn::parse_str::<syn::Ident>(name).is_ok()
}

fn summarize(bytes: &[u8]) -> Summary {
    let mut s = Summary::default();
    s.wp_valid = wp::Validator::new_with_features(features(true)).validate_all(bytes).is_ok();
    let mut ok = true;
    for payload in wp::Parser::new(0).parse_all(bytes) {
        let payload = match payload {
            Ok(p) => p,
            Err(_) => {
                ok = false;
                break;
            }
        };
        let r: Result<(), wp::BinaryReaderError> = (|| {
            match payload {
                wp::Payload::TypeSection(rd) => {
                    for t in rd {
                        match t? {
                            wp::Type::Func(ft) => {
                                if ft.params().iter().chain(ft.results().iter()).any(is_float) {
                                    s.uses_float = true;
                                }
                                s.types.push((ft.params().iter().map(vt_code).collect(), ft.results().iter().map(vt_code).collect()));
                            }
                            _ => s.types.push((vec![4], vec![4])),
                        }
                    }
                }
                wp::Payload::ImportSection(rd) => {
                    for i in rd {
                        let i = i?;
                        let (k, t) = match i.ty {
                            wp::TypeRef::Func(t) => (0, t),
                            wp::TypeRef::Table(_) => (1, 0),
                            wp::TypeRef::Memory(_) => (2, 0),
                            wp::TypeRef::Global(g) => {
                                if is_float(&g.content_type) {
                                    s.uses_float = true;
                                }
                                (3, 0)
                            }
                            wp::TypeRef::Tag(_) => (4, 0),
                        };
                        s.imports.push((i.module.as_bytes().to_vec(), i.name.as_bytes().to_vec(), k, t));
                    }
                }
                wp::Payload::FunctionSection(rd) => {
                    for f in rd {
                        s.funcs.push(f?);
                    }
                }
                wp::Payload::TableSection(rd) => {
                    let mut v = Vec::new();
                    for t in rd {
                        let t = t?;
                        v.push((t.ty.initial as u64, t.ty.maximum.map(|x| x as u64)));
                    }
                    s.tables = Some(v);
                }
                wp::Payload::MemorySection(rd) => {
                    let mut v = Vec::new();
                    for t in rd {
                        let t = t?;
                        v.push((t.initial, t.maximum));
                    }
                    s.memories = Some(v);
                }
                wp::Payload::GlobalSection(rd) => {
                    for g in rd {
                        let g = g?;
                        if is_float(&g.ty.content_type) {
                            s.uses_float = true;
                        }
                        for op in g.init_expr.get_operators_reader() {
                            if let Ok(op) = op {
                                let d = format!("{:?}", op);
                                if d.contains("F32") || d.contains("F64") {
                                    s.uses_float = true;
                                }
                            }
                        }
                        s.global_types.push((vt_code(&g.ty.content_type), g.ty.mutable));
                        s.globals += 1;
                    }
                }
                wp::Payload::ExportSection(rd) => {
                    let mut v = Vec::new();
                    for e in rd {
                        let e = e?;
                        let k = match e.kind {
                            wp::ExternalKind::Func => 0,
                            wp::ExternalKind::Table => 1,
                            wp::ExternalKind::Memory => 2,
                            wp::ExternalKind::Global => 3,
                            wp::ExternalKind::Tag => 4,
                        };
                        v.push((e.name.as_bytes().to_vec(), ident_ok(e.name), k, e.index));
                    }
                    s.exports = Some(v);
                }
                wp::Payload::StartSection { .. } => s.has_start = true,
                wp::Payload::ElementSection(rd) => {
                    for e in rd {
                        let e = e?;
                        if let wp::ElementItems::Functions(fs) = e.items {
                            for f in fs {
                                s.elements.push(f?);
                            }
                        }
                    }
                }
                wp::Payload::CodeSectionEntry(fb) => {
                    let mut b = Body::default();
                    for l in fb.get_locals_reader()? {
                        let (n, t) = l?;
                        if is_float(&t) {
                            s.uses_float = true;
                        }
                        b.locals.push(n);
                    }
                    if b.locals.iter().any(|n| *n > 0) {
                        b.costly = true;
                    }
                    for op in fb.get_operators_reader()? {
                        let op = op?;
                        let d = format!("{:?}", op);
                        let head = d.split(|c: char| !c.is_alphanumeric()).next().unwrap_or("").to_string();
                        if head.contains("F32") || head.contains("F64") {
                            s.uses_float = true;
                        }
                        match &op {
                            wp::Operator::Block { blockty } | wp::Operator::Loop { blockty } | wp::Operator::If { blockty } => {
                                if let wp::BlockType::Type(t) = blockty {
                                    if is_float(t) {
                                        s.uses_float = true;
                                    }
                                }
                            }
                            wp::Operator::BrTable { targets } => b.br_tables.push(targets.len()),
                            wp::Operator::Call { function_index } => b.calls.push(*function_index),
                            wp::Operator::I32Const { .. } | wp::Operator::I64Const { .. } | wp::Operator::LocalGet { .. } | wp::Operator::GlobalGet { .. } => b.costly = true,
                            _ => {}
                        }
                        b.n_ops += 1;
                        b.ops.push(head);
                    }
                    s.bodies.push(b);
                }
                _ => {}
            }
            Ok(())
        })();
        if r.is_err() {
            ok = false;
            break;
        }
    }
    if !ok {
        s.wp_valid = false;
    }
    s
}

fn coq_vts(v: &[u8]) -> String {
    coq_list(v.iter().map(|c| ["VI32", "VI64", "VF32", "VF64", "VOther"][*c as usize].to_string()))
}
fn coq_lims(v: &Option<Vec<(u64, Option<u64>)>>) -> String {
    coq_option(v.as_ref().map(|v| coq_list(v.iter().map(|(a, b)| format!("mkLim {} {}", a, coq_option(b.map(|x| x.to_string())))))))
}
fn summary_coq(s: &Summary) -> String {
    let types = coq_list(s.types.iter().map(|(p, r)| format!("mkFT {} {}", coq_vts(p), coq_vts(r))));
    let imports = coq_list(s.imports.iter().map(|(m, n, k, t)| {
        let kind = match k {
            0 => format!("(IKFunc {})", t),
            1 => "IKTable".to_string(),
            2 => "IKMemory".to_string(),
            3 => "IKGlobal".to_string(),
            _ => "IKTag".to_string(),
        };
        format!("mkImp {} {} {}", coq_bytes(m), coq_bytes(n), kind)
    }));
    let exports = coq_option(s.exports.as_ref().map(|es| {
        coq_list(es.iter().map(|(n, ok, k, i)| {
            format!("mkExp {} {} {} {}", coq_bytes(n), coq_bool(*ok), ["EKFunc", "EKTable", "EKMemory", "EKGlobal", "EKTag"][*k as usize], i)
        }))
    }));
    let bodies = coq_list(s.bodies.iter().map(|b| {
        format!("mkBody {} {}", coq_list(b.locals.iter().map(|x| x.to_string())), coq_list(b.br_tables.iter().map(|x| x.to_string())))
    }));
    format!(
        "(mkSum {} {} {} {} {} {} {} {} {} {} {})",
        coq_bool(s.wp_valid),
        coq_bool(s.uses_float),
        coq_bool(s.has_start),
        types,
        imports,
        coq_list(s.funcs.iter().map(|x| x.to_string())),
        coq_lims(&s.tables),
        coq_lims(&s.memories),
        s.globals,
        exports,
        bodies
    )
}

// ------------------------------------------------------------------------------------------------
// running the real validator
// ------------------------------------------------------------------------------------------------
#[derive(Clone, Debug, PartialEq)]
enum Out {
    Passed(Vec<u8>, Vec<String>),
    PostRule(String),
    Err(&'static str),
    Panic(String),
}

fn classify(e: &PrepareError) -> Out {
    use PrepareError::*;
    let c = match e {
        DeserializationError | ValidationError(_) => "VInvalid",
        StartFunctionNotAllowed => "VStartFunctionNotAllowed",
        InvalidImport(radix_engine::vm::wasm::InvalidImport::ImportNotAllowed(_)) => "VImportNotAllowed",
        InvalidImport(radix_engine::vm::wasm::InvalidImport::InvalidFunctionType(_)) => "VInvalidFunctionType",
        InvalidImport(radix_engine::vm::wasm::InvalidImport::ProtocolVersionMismatch { .. }) => "VProtocolVersionMismatch",
        InvalidExportName(_) => "VInvalidExportName",
        InvalidMemory(radix_engine::vm::wasm::InvalidMemory::MissingMemorySection) => "VMissingMemorySection",
        InvalidMemory(radix_engine::vm::wasm::InvalidMemory::NoMemoryDefinition) => "VNoMemoryDefinition",
        InvalidMemory(radix_engine::vm::wasm::InvalidMemory::TooManyMemoryDefinition) => "VTooManyMemoryDefinition",
        InvalidMemory(radix_engine::vm::wasm::InvalidMemory::MemorySizeLimitExceeded) => "VMemorySizeLimitExceeded",
        InvalidMemory(radix_engine::vm::wasm::InvalidMemory::MemoryNotExported) => "VMemoryNotExported",
        InvalidTable(radix_engine::vm::wasm::InvalidTable::MoreThanOneTable) => "VMoreThanOneTable",
        InvalidTable(radix_engine::vm::wasm::InvalidTable::InitialTableSizeLimitExceeded) => "VInitialTableSizeLimitExceeded",
        TooManyTargetsInBrTable => "VTooManyTargetsInBrTable",
        TooManyFunctions => "VTooManyFunctions",
        TooManyFunctionParams => "VTooManyFunctionParams",
        TooManyFunctionLocals { .. } => "VTooManyFunctionLocals",
        Overflow => "VOverflow",
        TooManyGlobals { .. } => "VTooManyGlobals",
        NoExportSection => "VNoExportSection",
        MissingExport { .. } => "VMissingExport",
        ModuleInfoError(_) | WasmParserError(_) => "VModuleInfoError",
        RejectedByInstructionMetering { .. } => return Out::PostRule("RejectedByInstructionMetering".into()),
        RejectedByStackMetering { .. } => return Out::PostRule("RejectedByStackMetering".into()),
        NotInstantiatable { .. } => return Out::PostRule("NotInstantiatable".into()),
        NotCompilable => return Out::PostRule("NotCompilable".into()),
        SerializationError | NoScryptoAllocExport | NoScryptoFreeExport => return Out::PostRule("Other".into()),
    };
    Out::Err(c)
}

fn version_of(v: u64) -> ScryptoVmVersion {
    ScryptoVmVersion::try_from(v).expect("version")
}

fn run_validator(code: &[u8], ver: u64, required: &[String]) -> Out {
    let fns: Vec<(String, String)> = required.iter().enumerate().map(|(i, e)| (format!("f{}", i), e.clone())).collect();
    let def = PackageDefinition::new_functions_only_test_definition(
        "Test",
        fns.iter().map(|(a, b)| (a.as_str(), b.as_str(), false)).collect(),
    );
    let r = catch(std::panic::AssertUnwindSafe(|| {
        ScryptoV1WasmValidator::new(version_of(ver)).validate(code, def.blueprints.values())
    }));
    match r {
        Err(msg) => Out::Panic(msg),
        Ok(Ok((bytes, exports))) => Out::Passed(bytes, exports),
        Ok(Err(e)) => classify(&e),
    }
}

// ------------------------------------------------------------------------------------------------
// direct oracle on accepted modules
// ------------------------------------------------------------------------------------------------
struct Limits {
    mem: u64,
    table: u64,
    br: u32,
    funcs: usize,
    locals: u64,
    globals: u32,
    stack: i32,
}
fn limits() -> Limits {
    let v = ScryptoV1WasmValidator::new(ScryptoVmVersion::latest());
    Limits {
        mem: v.max_memory_size_in_pages as u64,
        table: v.max_initial_table_size as u64,
        br: v.max_number_of_br_table_targets,
        funcs: v.max_number_of_functions as usize,
        locals: v.max_number_of_function_locals as u64,
        globals: v.max_number_of_globals,
        stack: v.instrumenter_config.max_stack_size() as i32,
    }
}

/// the sandbox rules on the parsed input + the instrumentation on the re-parsed output
fn oracle_accepted(input: &[u8], si: &Summary, out: &[u8], required: &[String], lim: &Limits) -> Result<(), String> {
    // ---- rules on the input
    if wp::Validator::new_with_features(features(false)).validate_all(input).is_err() {
        // sections out of order are re-ordered by ModuleInfo::bytes(); the *output* is checked strictly below
        if si.uses_float {
            return Err("accepted module uses floating point".into());
        }
    }
    if si.uses_float {
        return Err("accepted module uses floating point".into());
    }
    if si.has_start {
        return Err("accepted module has a start function".into());
    }
    for (m, n, k, _) in &si.imports {
        if *k != 0 || m != b"env" {
            return Err(format!("accepted module has a non-function or non-env import {:?}", String::from_utf8_lossy(n)));
        }
    }
    match &si.memories {
        Some(v) if v.len() == 1 => {
            if v[0].0 > lim.mem || v[0].1.map(|x| x > lim.mem).unwrap_or(false) {
                return Err("accepted module memory exceeds the limit".into());
            }
        }
        _ => return Err("accepted module does not define exactly one memory".into()),
    }
    if !si.exports.as_ref().map(|es| es.iter().any(|e| e.0 == b"memory" && e.2 == 2)).unwrap_or(false) {
        return Err("accepted module does not export its memory as \"memory\"".into());
    }
    if let Some(ts) = &si.tables {
        if ts.len() > 1 || ts.iter().any(|t| t.0 > lim.table) {
            return Err("accepted module table exceeds the limit".into());
        }
    }
    if si.funcs.len() > lim.funcs {
        return Err("accepted module has too many functions".into());
    }
    for b in &si.bodies {
        if b.locals.iter().map(|x| *x as u64).sum::<u64>() > lim.locals {
            return Err("accepted module has too many locals".into());
        }
        if b.br_tables.iter().any(|n| *n > lim.br) {
            return Err("accepted module has a br_table over the limit".into());
        }
    }
    if si.globals > lim.globals {
        return Err("accepted module has too many globals".into());
    }
    // ---- the output module
    if let Err(e) = wp::Validator::new_with_features(features(false)).validate_all(out) {
        return Err(format!("output module does not validate under the strict feature set: {}", e));
    }
    let so = summarize(out);
    if so.has_start || so.uses_float {
        return Err("output module has a start section or floats".into());
    }
    match &so.memories {
        Some(v) if v.len() == 1 => match v[0].1 {
            Some(mx) if mx <= lim.mem && v[0].0 <= lim.mem => {}
            _ => return Err("output memory has no declared maximum within the limit".into()),
        },
        _ => return Err("output does not define exactly one memory".into()),
    }
    if !so.exports.as_ref().map(|es| es.iter().any(|e| e.0 == b"memory" && e.2 == 2)).unwrap_or(false) {
        return Err("output does not export \"memory\"".into());
    }
    // imports: the input's, then env.gas : [i64] -> []
    let n_in = si.imports.len();
    if so.imports.len() != n_in + 1 {
        return Err(format!("output has {} imports, expected {}", so.imports.len(), n_in + 1));
    }
    for (a, b) in si.imports.iter().zip(so.imports.iter()) {
        if a.0 != b.0 || a.1 != b.1 || a.2 != b.2 {
            return Err("output imports differ from the input's".into());
        }
    }
    let gas = &so.imports[n_in];
    let gas_ty_ok = so.types.get(gas.3 as usize).map(|t| t.0 == vec![1u8] && t.1.is_empty()).unwrap_or(false);
    if gas.0 != b"env" || gas.1 != b"gas" || gas.2 != 0 || !gas_ty_ok {
        return Err("output lacks the env.gas : [i64] -> [] metering import".into());
    }
    let gas_idx = n_in as u32;
    // stack-height global: one more global, mutable i32
    if so.globals != si.globals + 1 || so.global_types.last() != Some(&(0u8, true)) {
        return Err("output lacks the stack-height global".into());
    }
    let sh_global = si.globals;
    // required exports still present and functions
    for r in required {
        if !so.exports.as_ref().map(|es| es.iter().any(|e| e.0 == r.as_bytes() && e.2 == 0)).unwrap_or(false) {
            return Err(format!("output lost the required export {}", r));
        }
    }
    // per function: metering call at the head; stack limiter preamble before calls of costly functions
    if so.bodies.len() < si.bodies.len() {
        return Err("output has fewer function bodies than the input".into());
    }
    let n_imp_out = so.imports.len() as u32;
    let mut rd_bodies: Vec<Vec<wp::Operator>> = Vec::new();
    for payload in wp::Parser::new(0).parse_all(out) {
        if let Ok(wp::Payload::CodeSectionEntry(fb)) = payload {
            let ops: Vec<wp::Operator> = fb.get_operators_reader().map_err(|e| e.to_string())?.into_iter().collect::<Result<_, _>>().map_err(|e: wp::BinaryReaderError| e.to_string())?;
            rd_bodies.push(ops);
        }
    }
    for (i, bi) in si.bodies.iter().enumerate() {
        let ops = &rd_bodies[i];
        let nontrivial = bi.costly || bi.ops.iter().any(|o| !matches!(o.as_str(), "End" | "Else" | "Return" | "Unreachable"));
        if nontrivial {
            let ok = matches!(ops.get(0), Some(wp::Operator::I64Const { value }) if *value > 0)
                && matches!(ops.get(1), Some(wp::Operator::Call { function_index }) if *function_index == gas_idx);
            if !ok {
                return Err(format!("function {} does not start with a metering call", i));
            }
        }
        for (k, op) in ops.iter().enumerate() {
            if let wp::Operator::Call { function_index } = op {
                if *function_index >= n_imp_out {
                    let callee = (*function_index - n_imp_out) as usize;
                    if callee < si.bodies.len() && si.bodies[callee].costly {
                        let pre_ok = k >= 10
                            && matches!(&ops[k - 10], wp::Operator::GlobalGet { global_index } if *global_index == sh_global)
                            && matches!(&ops[k - 9], wp::Operator::I32Const { value } if *value > 0)
                            && matches!(&ops[k - 8], wp::Operator::I32Add)
                            && matches!(&ops[k - 7], wp::Operator::GlobalSet { global_index } if *global_index == sh_global)
                            && matches!(&ops[k - 6], wp::Operator::GlobalGet { global_index } if *global_index == sh_global)
                            && matches!(&ops[k - 5], wp::Operator::I32Const { value } if *value == lim.stack)
                            && matches!(&ops[k - 4], wp::Operator::I32GtU)
                            && matches!(&ops[k - 3], wp::Operator::If { .. })
                            && matches!(&ops[k - 2], wp::Operator::Unreachable)
                            && matches!(&ops[k - 1], wp::Operator::End);
                        if !pre_ok {
                            return Err(format!("call of function {} in function {} lacks the stack limiter preamble", callee, i));
                        }
                    }
                }
            }
        }
    }
    // exported costly functions are reached through thunks (their export index moved past the originals)
    if let (Some(ei), Some(eo)) = (&si.exports, &so.exports) {
        let n_imp_in = si.imports.len() as u32;
        for e in ei.iter().filter(|e| e.2 == 0) {
            if e.3 >= n_imp_in {
                let callee = (e.3 - n_imp_in) as usize;
                if callee < si.bodies.len() && si.bodies[callee].costly {
                    let o = eo.iter().find(|x| x.0 == e.0).ok_or("export lost")?;
                    if (o.3 as usize) < n_imp_out as usize + si.bodies.len() {
                        return Err(format!("exported function {:?} is not behind a stack-limiter thunk", String::from_utf8_lossy(&e.0)));
                    }
                }
            }
        }
    }
    Ok(())
}

// ------------------------------------------------------------------------------------------------
// generators
// ------------------------------------------------------------------------------------------------
const HOSTS: &[(&str, usize, u8, u64)] = &[
    ("buffer_consume", 2, 0, 0),
    ("object_call", 6, 2, 0),
    ("object_call_module", 7, 2, 0),
    ("blueprint_call", 8, 2, 0),
    ("kv_store_open_entry", 5, 1, 0),
    ("kv_entry_read", 1, 2, 0),
    ("actor_open_field", 3, 1, 0),
    ("field_entry_close", 1, 0, 0),
    ("actor_get_package_address", 0, 2, 0),
    ("costing_get_tip_percentage", 0, 1, 0),
    ("sys_log", 4, 0, 0),
    ("sys_panic", 2, 0, 0),
    ("sys_generate_ruid", 0, 2, 0),
    ("object_globalize", 6, 2, 0),
    ("actor_emit_event", 5, 0, 0),
    ("crypto_utils_keccak256_hash", 2, 2, 1),
    ("crypto_utils_bls12381_v1_verify", 6, 1, 1),
    ("crypto_utils_blake2b_256_hash", 2, 2, 2),
    ("crypto_utils_ed25519_verify", 6, 1, 2),
    ("crypto_utils_secp256k1_ecdsa_verify_and_key_recover", 4, 2, 2),
];

fn res_vts(r: u8) -> Vec<VT> {
    match r {
        0 => vec![],
        1 => vec![VT::I32],
        _ => vec![VT::I64],
    }
}

fn rand_stmts(rng: &mut Rng, m: &ModSpec, depth: u32, n_callable: u32, locals: &[(u32, VT)], budget: &mut u32) -> Vec<Stmt> {
    let n = rng.range(0, 4);
    let mut v = Vec::new();
    for _ in 0..n {
        if *budget == 0 {
            break;
        }
        *budget -= 1;
        let r = rng.below(100);
        let s = if r < 20 {
            Stmt::ConstDrop32(rng.next_u32() as i32)
        } else if r < 30 {
            Stmt::ConstDrop64(rng.next_u64() as i64)
        } else if r < 40 && !locals.is_empty() {
            // pick a local index and its type
            let mut idx = 0u32;
            let mut pick = None;
            let total: u32 = locals.iter().map(|l| l.0).sum();
            if total > 0 {
                let want = rng.below(total as u64) as u32;
                for (c, t) in locals {
                    if want < idx + c {
                        pick = Some((want, *t));
                        break;
                    }
                    idx += c;
                }
            }
            match pick {
                Some((l, t)) => Stmt::SetLocal(l, t),
                None => Stmt::Nop,
            }
        } else if r < 50 && depth < 3 {
            Stmt::Block(rand_stmts(rng, m, depth + 1, n_callable, locals, budget))
        } else if r < 56 && depth < 3 {
            Stmt::Loop(rand_stmts(rng, m, depth + 1, n_callable, locals, budget))
        } else if r < 64 && depth < 3 {
            let a = rand_stmts(rng, m, depth + 1, n_callable, locals, budget);
            let b = if rng.bool() { rand_stmts(rng, m, depth + 1, n_callable, locals, budget) } else { vec![] };
            Stmt::If(a, b)
        } else if r < 70 {
            Stmt::BrTable(rng.range(0, 6) as u32)
        } else if r < 75 {
            Stmt::BrIfOut
        } else if r < 85 && n_callable > 0 {
            Stmt::CallFn(rng.below(n_callable as u64) as u32)
        } else if r < 88 {
            Stmt::MemGrow
        } else if r < 90 {
            Stmt::MemSize
        } else if r < 94 {
            Stmt::LoadStore
        } else if r < 97 {
            Stmt::SignExt
        } else {
            Stmt::Nop
        };
        v.push(s);
    }
    v
}

/// a valid, acceptable baseline of random structure
fn baseline(rng: &mut Rng, ver: u64) -> (ModSpec, Vec<String>) {
    let mut m = ModSpec::default();
    // imports available at this version
    let n_imp = rng.range(0, 4) as usize;
    for _ in 0..n_imp {
        let h = loop {
            let h = rng.pick(HOSTS);
            if h.3 <= ver {
                break *h;
            }
        };
        let t = m.type_idx(vec![VT::I32; h.1], res_vts(h.2));
        m.imports.push(("env".into(), h.0.into(), ImpKind::Func(t)));
    }
    let n_glob = rng.range(0, 3);
    for _ in 0..n_glob {
        m.globals.push((if rng.bool() { VT::I32 } else { VT::I64 }, true));
    }
    let n_fn = rng.range(1, 5) as u32;
    let nimp = m.n_imp_funcs();
    let mut required = Vec::new();
    let mut exports = vec![("memory".to_string(), 2u8, 0u32)];
    // declare function types first so that bodies can call any function
    let mut tys = Vec::new();
    for i in 0..n_fn {
        let export_it = i == 0 || rng.chance(1, 3);
        let t = if export_it {
            m.type_idx(vec![VT::I64], vec![VT::I64])
        } else {
            let np = rng.range(0, 3) as usize;
            let p: Vec<VT> = (0..np).map(|_| if rng.bool() { VT::I32 } else { VT::I64 }).collect();
            let r = if rng.bool() { vec![] } else { vec![if rng.bool() { VT::I32 } else { VT::I64 }] };
            m.type_idx(p, r)
        };
        tys.push((t, export_it));
    }
    for (_, (t, _)) in tys.iter().enumerate() {
        m.funcs.push(FuncSpec { ty: *t, locals: vec![], body: vec![] });
    }
    for (i, (t, export_it)) in tys.iter().enumerate() {
        let mut locals = Vec::new();
        for _ in 0..rng.range(0, 2) {
            locals.push((rng.range(1, 3) as u32, if rng.bool() { VT::I32 } else { VT::I64 }));
        }
        // local indices start after the params
        let np = m.types[*t as usize].0.len() as u32;
        let shifted: Vec<(u32, VT)> = locals.clone();
        let mut budget = 12;
        let mut body = rand_stmts(rng, &m, 0, nimp + n_fn, &shifted, &mut budget);
        // SetLocal indices are relative to declared locals: shift by the number of params
        fn shift(ss: &mut Vec<Stmt>, by: u32) {
            for s in ss.iter_mut() {
                match s {
                    Stmt::SetLocal(l, _) => *l += by,
                    Stmt::Block(b) | Stmt::Loop(b) => shift(b, by),
                    Stmt::If(a, b) => {
                        shift(a, by);
                        shift(b, by)
                    }
                    _ => {}
                }
            }
        }
        shift(&mut body, np);
        m.funcs[i].locals = locals;
        m.funcs[i].body = body;
        if *export_it {
            let name = format!("Test_f{}", i);
            exports.push((name.clone(), 0, nimp + i as u32));
            if rng.chance(3, 4) {
                required.push(name);
            }
        }
    }
    m.memories = Some(vec![(rng.range(0, 3), if rng.bool() { Some(rng.range(3, 64)) } else { None })]);
    if rng.chance(1, 3) {
        let n = rng.range(1, 4) as u32;
        m.tables = Some(vec![(n, if rng.bool() { Some(n + 2) } else { None })]);
        if rng.bool() {
            m.elements = vec![nimp];
        }
    }
    if rng.chance(1, 4) {
        m.data = Some((rng.range(0, 100) as i32, rng.range(0, 40) as usize));
    }
    m.custom = rng.chance(1, 5);
    m.exports = Some(exports);
    (m, required)
}

fn add_func(m: &mut ModSpec, p: Vec<VT>, r: Vec<VT>, locals: Vec<(u32, VT)>, body: Vec<Stmt>) -> u32 {
    let t = m.type_idx(p, r);
    m.funcs.push(FuncSpec { ty: t, locals, body });
    m.n_imp_funcs() + m.funcs.len() as u32 - 1
}

const MUTATIONS: u32 = 46;
/// applies mutation `k`; returns its tag
fn mutate(rng: &mut Rng, k: u32, m: &mut ModSpec, required: &mut Vec<String>, ver: &mut u64, lim: &Limits, delta: Option<u64>) -> String {
    let pm1 = |rng: &mut Rng, x: u64| -> u64 {
        match delta.unwrap_or_else(|| rng.below(3)) {
            0 => x - 1,
            1 => x,
            _ => x + 1,
        }
    };
    match k {
        0 => {
            let v = pm1(rng, lim.mem);
            m.memories = Some(vec![(v, None)]);
            format!("mem_initial_{}", v as i64 - lim.mem as i64)
        }
        1 => {
            let v = pm1(rng, lim.mem);
            m.memories = Some(vec![(1, Some(v))]);
            format!("mem_max_{}", v as i64 - lim.mem as i64)
        }
        2 | 3 => {
            // nothing may refer to memory 0, otherwise the validator refuses the module first
            m.memories = if k == 2 { None } else { Some(vec![]) };
            m.data = None;
            for f in m.funcs.iter_mut() {
                f.body.clear();
            }
            if let Some(es) = &mut m.exports {
                es.retain(|e| e.1 != 2);
            }
            if k == 2 { "mem_missing".into() } else { "mem_empty_section".into() }
        }
        4 => {
            m.memories = Some(vec![(1, None), (1, None)]);
            "mem_two".into()
        }
        5 => {
            if let Some(es) = &mut m.exports {
                es.retain(|e| e.0 != "memory");
            }
            "mem_not_exported".into()
        }
        6 => {
            if let Some(es) = &mut m.exports {
                for e in es.iter_mut() {
                    if e.0 == "memory" {
                        e.0 = "Memory".into();
                    }
                }
            }
            "mem_exported_other_name".into()
        }
        7 => {
            // "memory" names a global, the memory itself is exported under another name
            m.globals.push((VT::I32, false));
            let gi = m.globals.len() as u32 - 1;
            if let Some(es) = &mut m.exports {
                for e in es.iter_mut() {
                    if e.0 == "memory" {
                        e.0 = "mem".into();
                    }
                }
                es.push(("memory".into(), 3, gi));
            }
            "mem_name_on_global".into()
        }
        8 => {
            m.memories = Some(vec![(5, Some(2))]);
            "mem_max_below_initial".into()
        }
        9 => {
            let v = pm1(rng, lim.table) as u32;
            m.tables = Some(vec![(v, None)]);
            m.elements.clear();
            format!("table_initial_{}", v as i64 - lim.table as i64)
        }
        10 => {
            m.tables = Some(vec![(1, None), (1, None)]);
            "table_two".into()
        }
        11 => {
            m.tables = Some(vec![]);
            m.elements.clear();
            "table_empty_section".into()
        }
        12 => {
            let v = pm1(rng, lim.br as u64) as u32;
            let i = rng.usize_below(m.funcs.len());
            m.funcs[i].body.push(Stmt::BrTable(v));
            format!("br_table_{}", v as i64 - lim.br as i64)
        }
        13 => {
            let v = pm1(rng, lim.funcs as u64) as usize;
            while m.funcs.len() < v {
                let t = m.type_idx(vec![], vec![]);
                m.funcs.push(FuncSpec { ty: t, locals: vec![], body: vec![] });
            }
            format!("functions_{}", v as i64 - lim.funcs as i64)
        }
        14 => {
            // parameter limit on the FIRST local function of a module without imports
            let v = pm1(rng, 32) as usize;
            m.imports.clear();
            let t = m.type_idx(vec![VT::I32; v], vec![]);
            // re-point exports/calls: rebuild a minimal module
            let mut n = ModSpec::default();
            n.types = m.types.clone();
            n.memories = Some(vec![(1, None)]);
            n.funcs.push(FuncSpec { ty: t, locals: vec![], body: vec![] });
            let e = add_func(&mut n, vec![VT::I64], vec![VT::I64], vec![], vec![]);
            n.exports = Some(vec![("memory".into(), 2, 0), ("Test_f".into(), 0, e)]);
            *m = n;
            *required = vec!["Test_f".into()];
            format!("params_first_local_{}", v as i64 - 32)
        }
        15 => {
            // parameter limit on the LAST local function of a module with one import
            let v = pm1(rng, 32) as usize;
            let mut n = ModSpec::default();
            let ti = n.type_idx(vec![VT::I32; 2], vec![]);
            n.imports.push(("env".into(), "buffer_consume".into(), ImpKind::Func(ti)));
            n.memories = Some(vec![(1, None)]);
            let e = add_func(&mut n, vec![VT::I64], vec![VT::I64], vec![], vec![]);
            add_func(&mut n, vec![VT::I32; v], vec![], vec![], vec![]);
            n.exports = Some(vec![("memory".into(), 2, 0), ("Test_f".into(), 0, e)]);
            *m = n;
            *required = vec!["Test_f".into()];
            format!("params_last_local_with_import_{}", v as i64 - 32)
        }
        16 => {
            let v = pm1(rng, lim.locals) as u32;
            let i = rng.usize_below(m.funcs.len());
            let cur: u32 = m.funcs[i].locals.iter().map(|l| l.0).sum();
            if v > cur {
                if rng.bool() {
                    m.funcs[i].locals.push((v - cur, VT::I32));
                } else {
                    let a = (v - cur) / 2;
                    m.funcs[i].locals.push((a, VT::I64));
                    m.funcs[i].locals.push((v - cur - a, VT::I32));
                }
            }
            format!("locals_{}", v as i64 - lim.locals as i64)
        }
        17 => {
            let i = rng.usize_below(m.funcs.len());
            m.funcs[i].locals.push((u32::MAX, VT::I32));
            m.funcs[i].locals.push((2, VT::I32));
            "locals_u32_overflow".into()
        }
        18 => {
            let v = pm1(rng, lim.globals as u64) as usize;
            while m.globals.len() < v {
                m.globals.push((VT::I32, false));
            }
            format!("globals_{}", v as i64 - lim.globals as i64)
        }
        19 => {
            let f = add_func(m, vec![], vec![], vec![], vec![Stmt::Nop]);
            m.start = Some(f);
            "start".into()
        }
        20 => {
            add_func(m, vec![VT::F32], vec![], vec![], vec![]);
            "float_param".into()
        }
        21 => {
            let i = rng.usize_below(m.funcs.len());
            m.funcs[i].locals.push((1, VT::F64));
            "float_local".into()
        }
        22 => {
            let i = rng.usize_below(m.funcs.len());
            m.funcs[i].body.push(Stmt::FloatConst);
            "float_const".into()
        }
        23 => {
            m.globals.push((VT::F64, false));
            "float_global".into()
        }
        24 => {
            let i = rng.usize_below(m.funcs.len());
            m.funcs[i].body.push(if rng.bool() { Stmt::FloatConv } else { Stmt::BlockResultFloat });
            "float_conv_or_blocktype".into()
        }
        25 => {
            // unused float type in the type section only
            m.types.push((vec![VT::F32], vec![VT::F64]));
            "float_unused_type".into()
        }
        26 => {
            let h = rng.pick(HOSTS);
            let np = match rng.below(3) {
                0 => h.1 + 1,
                1 if h.1 > 0 => h.1 - 1,
                _ => h.1 + 2,
            };
            let t = m.type_idx(vec![VT::I32; np], res_vts(h.2));
            insert_import(m, ("env".into(), h.0.into(), ImpKind::Func(t)));
            *ver = 2;
            "import_wrong_param_count".into()
        }
        27 => {
            let h = rng.pick(HOSTS);
            let t = m.type_idx(vec![VT::I32; h.1], res_vts((h.2 + 1 + rng.below(2) as u8) % 3));
            insert_import(m, ("env".into(), h.0.into(), ImpKind::Func(t)));
            *ver = 2;
            "import_wrong_result".into()
        }
        28 => {
            let h = loop {
                let h = rng.pick(HOSTS);
                if h.1 > 0 {
                    break *h;
                }
            };
            let mut p = vec![VT::I32; h.1];
            let j = rng.usize_below(h.1);
            p[j] = VT::I64;
            let t = m.type_idx(p, res_vts(h.2));
            insert_import(m, ("env".into(), h.0.into(), ImpKind::Func(t)));
            *ver = 2;
            "import_i64_param".into()
        }
        29 => {
            let name = *rng.pick(&["gas", "unknown_fn", "", "object_cal", "OBJECT_CALL", "sys_log\u{0}", "é"]);
            let t = m.type_idx(vec![VT::I64], vec![]);
            insert_import(m, ("env".into(), name.into(), ImpKind::Func(t)));
            format!("import_unknown_name_{}", if name == "gas" { "gas" } else { "other" })
        }
        30 => {
            let md = *rng.pick(&["Env", "env2", "", "wasi_snapshot_preview1"]);
            let t = m.type_idx(vec![VT::I32; 2], vec![]);
            insert_import(m, (md.into(), "buffer_consume".into(), ImpKind::Func(t)));
            "import_other_module".into()
        }
        31 => {
            let kind = match rng.below(3) {
                0 => ImpKind::Global(VT::I32),
                1 => ImpKind::Memory(1, None),
                _ => ImpKind::Table(1),
            };
            if matches!(kind, ImpKind::Memory(..)) {
                m.memories = None; // a second memory would be refused by the validator first
            }
            if matches!(kind, ImpKind::Table(..)) {
                m.tables = None;
                m.elements.clear();
            }
            let tag = format!("import_non_function_{}", match kind { ImpKind::Global(_) => "global", ImpKind::Memory(..) => "memory", _ => "table" });
            let name = if rng.bool() { "buffer_consume" } else { "memory" };
            insert_import(m, ("env".into(), name.into(), kind));
            tag
        }
        32 => {
            // crypto import against each version
            let h = loop {
                let h = rng.pick(HOSTS);
                if h.3 > 0 {
                    break *h;
                }
            };
            *ver = rng.below(3);
            let right = rng.chance(2, 3);
            let t = m.type_idx(vec![VT::I32; if right { h.1 } else { h.1 + 1 }], res_vts(h.2));
            insert_import(m, ("env".into(), h.0.into(), ImpKind::Func(t)));
            format!("import_crypto_v{}_{}", h.3, if *ver < h.3 { "too_old" } else if right { "ok" } else { "wrong_sig" })
        }
        33 => {
            // a whitelisted import whose type index is a *result-less* variant listed later in the type section
            let h = rng.pick(HOSTS);
            let t = m.type_idx(vec![VT::I32; h.1], res_vts(h.2));
            insert_import(m, ("env".into(), h.0.into(), ImpKind::Func(t)));
            *ver = 2;
            "import_ok_extra".into()
        }
        34 => {
            let bad = *rng.pick(&["a-b", "1abc", "fn", "", "_", "a b", "é-", "self", "x.y", "r#fn", "r#x", "héllo", "_9", "Ünï"]);
            let f = add_func(m, vec![], vec![], vec![], vec![]);
            if let Some(es) = &mut m.exports {
                es.push((bad.into(), 0, f));
            }
            format!("export_name_{}", if ident_ok(bad) { "ident" } else { "not_ident" })
        }
        35 => {
            if let Some(es) = &mut m.exports {
                if let Some(r) = required.first() {
                    es.retain(|e| &e.0 != r);
                } else {
                    required.push("Missing_fn".into());
                }
            }
            "export_required_missing".into()
        }
        36 => {
            // required export exists but with the wrong signature
            let f = add_func(m, vec![VT::I32], vec![VT::I64], vec![], vec![]);
            if let Some(es) = &mut m.exports {
                es.push(("Test_wrong_sig".into(), 0, f));
            }
            required.push("Test_wrong_sig".into());
            "export_required_wrong_sig".into()
        }
        37 => {
            m.globals.push((VT::I64, false));
            let g = m.globals.len() as u32 - 1;
            if let Some(es) = &mut m.exports {
                es.push(("Test_global".into(), 3, g));
            }
            required.push("Test_global".into());
            "export_required_is_global".into()
        }
        38 => {
            m.exports = None;
            "export_section_missing".into()
        }
        39 => {
            if let Some(es) = &mut m.exports {
                let e = es[rng.usize_below(es.len())].clone();
                es.push(e);
            }
            "export_duplicate_name".into()
        }
        40 => {
            let i = rng.usize_below(m.funcs.len());
            m.funcs[i].body.push(if rng.bool() { Stmt::BulkCopy } else { Stmt::SatConv });
            "post_mvp_instruction".into()
        }
        41 => {
            add_func(m, vec![], vec![VT::I32, VT::I32], vec![], vec![]);
            "multi_value".into()
        }
        42 => {
            // data segment beyond the initial memory: passes the rules, not instantiatable
            m.memories = Some(vec![(1, Some(2))]);
            m.data = Some((65530, 16));
            "data_out_of_bounds".into()
        }
        43 => {
            // export index of a required export points at an import with the right type? impossible ([i64]->[i64] is
            // no host signature) — instead: a required export that points at a function index out of range
            if let Some(es) = &mut m.exports {
                es.push(("Test_oob".into(), 0, 100000));
            }
            required.push("Test_oob".into());
            "export_index_out_of_range".into()
        }
        44 => {
            // call_indirect through the table, element pointing at an exported function
            if m.tables.is_none() {
                m.tables = Some(vec![(2, None)]);
            }
            let nimp = m.n_imp_funcs();
            m.elements = vec![nimp];
            let ty = m.funcs[0].ty;
            let i = rng.usize_below(m.funcs.len());
            m.funcs[i].body.push(Stmt::CallIndirect(ty));
            "call_indirect".into()
        }
        _ => {
            // mutable global exported and read/written
            m.globals.push((VT::I32, true));
            let g = m.globals.len() as u32 - 1;
            if let Some(es) = &mut m.exports {
                es.push(("counter".into(), 3, g));
            }
            let i = rng.usize_below(m.funcs.len());
            m.funcs[i].body.push(Stmt::GlobalRW(g, VT::I32));
            "mutable_global_export".into()
        }
    }
}

/// inserting a function import shifts the function index space: fix calls, exports, elements, start
fn insert_import(m: &mut ModSpec, imp: (String, String, ImpKind)) {
    let is_func = matches!(imp.2, ImpKind::Func(_));
    let at = m.n_imp_funcs();
    m.imports.push(imp);
    if !is_func {
        return;
    }
    fn fix(ss: &mut Vec<Stmt>, at: u32) {
        for s in ss.iter_mut() {
            match s {
                Stmt::CallFn(i) if *i >= at => *i += 1,
                Stmt::Block(b) | Stmt::Loop(b) => fix(b, at),
                Stmt::If(a, b) => {
                    fix(a, at);
                    fix(b, at)
                }
                _ => {}
            }
        }
    }
    for f in m.funcs.iter_mut() {
        fix(&mut f.body, at);
    }
    if let Some(es) = &mut m.exports {
        for e in es.iter_mut() {
            if e.1 == 0 && e.2 >= at {
                e.2 += 1;
            }
        }
    }
    for e in m.elements.iter_mut() {
        if *e >= at {
            *e += 1;
        }
    }
    if let Some(s) = &mut m.start {
        if *s >= at {
            *s += 1;
        }
    }
}

// ------------------------------------------------------------------------------------------------
// stream B: totality
// ------------------------------------------------------------------------------------------------
const EXOTIC_WAT: &[&str] = &[
    r#"(module (memory (export "memory") 1) (func (export "Test_f") (param i64) (result i64) (v128.const i32x4 0 0 0 0) drop (local.get 0)))"#,
    r#"(module (memory (export "memory") 1) (func (export "Test_f") (param i64) (result i64) (memory.fill (i32.const 0) (i32.const 0) (i32.const 0)) (local.get 0)))"#,
    r#"(module (memory (export "memory") 1) (func (export "Test_f") (param i64) (result i64) (ref.null func) drop (local.get 0)))"#,
    r#"(module (memory (export "memory") 1) (func $g (param i64) (result i64) (local.get 0)) (func (export "Test_f") (param i64) (result i64) (return_call $g (local.get 0))))"#,
    r#"(module (memory (export "memory") 1 1 shared) (func (export "Test_f") (param i64) (result i64) (i32.atomic.load (i32.const 0)) drop (local.get 0)))"#,
    r#"(module (memory (export "memory") i64 1) (func (export "Test_f") (param i64) (result i64) (local.get 0)))"#,
    r#"(module (memory (export "memory") 1) (memory 1) (func (export "Test_f") (param i64) (result i64) (local.get 0)))"#,
    r#"(module (memory (export "memory") 1) (tag (param i32)) (func (export "Test_f") (param i64) (result i64) (local.get 0)))"#,
    r#"(module (memory (export "memory") 1) (func (export "Test_f") (param i64) (result i64) (i32.trunc_sat_f32_s (f32.const 1)) drop (local.get 0)))"#,
    r#"(module (memory (export "memory") 1) (func (export "Test_f") (param i64) (result i64 i64) (local.get 0) (local.get 0)))"#,
    r#"(module (memory (export "memory") 1) (global i32 (i32.add (i32.const 1) (i32.const 2))) (func (export "Test_f") (param i64) (result i64) (local.get 0)))"#,
    r#"(module (memory (export "memory") 1) (table 1 externref) (func (export "Test_f") (param i64) (result i64) (local.get 0)))"#,
    r#"(module (memory (export "memory") 1) (func (export "Test_f") (param i64) (result i64) (select (result i64) (local.get 0) (local.get 0) (i32.const 1))))"#,
    r#"(module (memory (export "memory") 1) (data "abc") (func (export "Test_f") (param i64) (result i64) (memory.init 0 (i32.const 0) (i32.const 0) (i32.const 0)) (local.get 0)))"#,
    r#"(module (memory (export "memory") 1) (func (export "Test_f") (param i64) (result i64) (i64.extend32_s (local.get 0))))"#,
    r#"(module (memory (export "memory") 1) (func (export "Test_f") (param i64) (result i64) (block (result i64) (loop (result i64) (br 1 (local.get 0))))))"#,
    r#"(module (memory (export "memory") 1) (func (export "Test_f") (param i64) (result i64) unreachable))"#,
    r#"(module (memory (export "memory") 0) (data (i32.const 0) "x") (func (export "Test_f") (param i64) (result i64) (local.get 0)))"#,
    r#"(module (memory (export "memory") 1) (table 1 funcref) (elem (i32.const 5) 0) (func (export "Test_f") (param i64) (result i64) (local.get 0)))"#,
    r#"(module (memory (export "memory") 1) (global $g (mut i32) (i32.const 0)) (table 2 funcref) (elem (global.get 0) 0) (func (export "Test_f") (param i64) (result i64) (local.get 0)))"#,
];

fn mutate_bytes(rng: &mut Rng, base: &[u8]) -> Vec<u8> {
    let mut b = base.to_vec();
    let n = rng.range(1, 4);
    for _ in 0..n {
        if b.is_empty() {
            break;
        }
        match rng.below(9) {
            7 | 8 => {
                // nudge a byte (immediates, counts, limits) by one
                let i = rng.usize_below(b.len());
                b[i] = if rng.bool() { b[i].wrapping_add(1) } else { b[i].wrapping_sub(1) };
            }
            0 => {
                let i = rng.usize_below(b.len());
                b[i] ^= 1 << rng.below(8);
            }
            1 => {
                let i = rng.usize_below(b.len());
                b[i] = rng.next_u64() as u8;
            }
            2 => {
                let i = rng.usize_below(b.len() + 1);
                b.truncate(i);
            }
            3 => {
                let i = rng.usize_below(b.len() + 1);
                b.insert(i, rng.next_u64() as u8);
            }
            4 => {
                let i = rng.usize_below(b.len());
                b.remove(i);
            }
            5 => {
                // set a byte to an interesting value (LEB continuation / section ids / opcodes)
                let i = rng.usize_below(b.len());
                b[i] = *rng.pick(&[0x00u8, 0x7f, 0x80, 0xff, 0x0b, 0x0e, 0xfc, 0xfd, 0xfe, 0x40, 0x7c, 0x7d, 0x05, 0x0a, 0x0c]);
            }
            _ => {
                // duplicate a chunk
                let i = rng.usize_below(b.len());
                let l = rng.usize_below((b.len() - i).min(24) + 1);
                let chunk: Vec<u8> = b[i..i + l].to_vec();
                let at = rng.usize_below(b.len() + 1);
                for (k, x) in chunk.into_iter().enumerate() {
                    b.insert(at + k, x);
                }
            }
        }
    }
    b
}

fn out_coq(o: &Out, mem_max: Option<u64>) -> String {
    match o {
        Out::Passed(..) => format!("(IPassed {})", mem_max.map(|x| x.to_string()).unwrap_or("4294967296".into())),
        Out::PostRule(_) => "IPostRule".into(),
        Out::Err(c) => format!("(IErr {})", c),
        Out::Panic(_) => "IPanic".into(),
    }
}

// ------------------------------------------------------------------------------------------------
// the deterministic boundary family (identical for every seed)
// ------------------------------------------------------------------------------------------------
type Plan = (Vec<String>, ModSpec, Vec<String>, u64);

/// minimal accepted module: one memory exported as "memory", one function Test_f : [i64] -> [i64]
fn base() -> (ModSpec, Vec<String>) {
    let mut m = ModSpec::default();
    let t = m.type_idx(vec![VT::I64], vec![VT::I64]);
    m.funcs.push(FuncSpec { ty: t, locals: vec![], body: vec![Stmt::ConstDrop32(1)] });
    m.memories = Some(vec![(1, None)]);
    m.exports = Some(vec![("memory".into(), 2, 0), ("Test_f".into(), 0, 0)]);
    (m, vec!["Test_f".to_string()])
}

/// the whitelist rows of the generated Coq table (name, params, result, min version): the harness does
/// not know the whitelist, it only enumerates it
fn whitelist_rows() -> Vec<(String, usize, u8, u64)> {
    let path = std::env::var("C45_GEN").unwrap_or_else(|_| "/verif/coq/Gen/C45_wasm_limits.v".to_string());
    let text = std::fs::read_to_string(&path).unwrap_or_default();
    let mut rows = Vec::new();
    let mut in_table = false;
    for line in text.lines() {
        if line.starts_with("Definition c45_host_imports") {
            in_table = true;
            continue;
        }
        if in_table {
            if line.starts_with("].") {
                break;
            }
            // ([..], (n, r, v)); (* name *)
            if let (Some(a), Some(b)) = (line.find("], ("), line.find("(* ")) {
                let nums: Vec<u64> = line[a + 4..].split(|c: char| !c.is_ascii_digit()).filter(|x| !x.is_empty()).take(3).map(|x| x.parse().unwrap()).collect();
                let name = line[b + 3..].trim_end_matches("*)").trim().to_string();
                if nums.len() == 3 {
                    rows.push((name, nums[0] as usize, nums[1] as u8, nums[2]));
                }
            }
        }
    }
    rows
}

fn family(lim: &Limits) -> Vec<Plan> {
    let mut v: Vec<Plan> = Vec::new();
    // (a) every mutation of the random generator at limit-1 / limit / limit+1 on a FIXED baseline stream
    let fixed = Rng::new(0xC45);
    for i in 0..(MUTATIONS as usize) * 3 {
        let mut rng = fixed.fork(i as u64);
        let mut ver = rng.below(3);
        let (mut m, mut required) = baseline(&mut rng, ver);
        let k = (i as u32) % MUTATIONS;
        let delta = Some((i as u64 / MUTATIONS as u64) % 3);
        let tag = mutate(&mut rng, k, &mut m, &mut required, &mut ver, lim, delta);
        v.push((vec![tag], m, required, ver));
    }
    // (b) memory: initial x declared maximum around the limit
    for init in [lim.mem - 1, lim.mem, lim.mem + 1] {
        for mx in [None, Some(lim.mem - 1), Some(lim.mem), Some(lim.mem + 1), Some(lim.mem + 2)] {
            let (mut m, req) = base();
            m.memories = Some(vec![(init, mx)]);
            v.push((vec![format!("fam_mem_init{:+}_max{}", init as i64 - lim.mem as i64, mx.map(|x| format!("{:+}", x as i64 - lim.mem as i64)).unwrap_or("none".into()))], m, req, 2));
        }
    }
    // (c) table: initial around the limit, with and without a maximum
    for init in [lim.table - 1, lim.table, lim.table + 1] {
        for with_max in [false, true] {
            let (mut m, req) = base();
            m.tables = Some(vec![(init as u32, if with_max { Some(init as u32 + 5) } else { None })]);
            v.push((vec![format!("fam_table_init{:+}_{}", init as i64 - lim.table as i64, if with_max { "max" } else { "nomax" })], m, req, 2));
        }
    }
    // (d) br_table: around the limit, in the first / last of three functions, and a legal one followed by an illegal one
    for n in [lim.br - 1, lim.br, lim.br + 1] {
        for pos in [0usize, 2] {
            let (mut m, req) = base();
            add_func(&mut m, vec![], vec![], vec![], vec![Stmt::Nop]);
            add_func(&mut m, vec![], vec![], vec![], vec![Stmt::Nop]);
            m.funcs[pos].body.push(Stmt::BrTable(n));
            v.push((vec![format!("fam_br_table{:+}_fn{}", n as i64 - lim.br as i64, pos)], m, req, 2));
        }
    }
    {
        let (mut m, req) = base();
        m.funcs[0].body.push(Stmt::BrTable(lim.br));
        m.funcs[0].body.push(Stmt::BrTable(lim.br + 1));
        v.push((vec!["fam_br_table_legal_then_illegal".into()], m, req, 2));
    }
    // (e) locals: around the limit as one group, two groups, many groups of one, and split over two functions
    for n in [lim.locals - 1, lim.locals, lim.locals + 1] {
        let d = n as i64 - lim.locals as i64;
        let (mut m, req) = base();
        m.funcs[0].locals = vec![(n as u32, VT::I32)];
        v.push((vec![format!("fam_locals{:+}_one_group", d)], m, req, 2));
        let (mut m, req) = base();
        m.funcs[0].locals = vec![(1, VT::I64), (n as u32 - 1, VT::I32)];
        v.push((vec![format!("fam_locals{:+}_two_groups", d)], m, req, 2));
        let (mut m, req) = base();
        m.funcs[0].locals = (0..n).map(|j| (1u32, if j % 2 == 0 { VT::I32 } else { VT::I64 })).collect();
        v.push((vec![format!("fam_locals{:+}_groups_of_one", d)], m, req, 2));
        let (mut m, req) = base();
        add_func(&mut m, vec![], vec![], vec![(n as u32, VT::I64)], vec![]);
        v.push((vec![format!("fam_locals{:+}_last_function", d)], m, req, 2));
    }
    // (f) parameters: around the limit on the first / middle / last local function, without and with imports
    for n in [31usize, 32, 33] {
        for (pos, nimp) in [(0usize, 0usize), (1, 0), (2, 0), (0, 1), (1, 1), (2, 1), (1, 2)] {
            let (mut m, req) = base();
            for _ in 0..nimp {
                let t = m.type_idx(vec![VT::I32; 2], vec![]);
                insert_import(&mut m, ("env".into(), "buffer_consume".into(), ImpKind::Func(t)));
            }
            // three more local functions; `pos` gets the parameters
            for j in 0..3 {
                add_func(&mut m, if j == pos { vec![VT::I32; n] } else { vec![] }, vec![], vec![], vec![]);
            }
            v.push((vec![format!("fam_params{:+}_pos{}_imports{}", n as i64 - 32, pos, nimp)], m, req, 2));
        }
    }
    // (g) globals around the limit
    for n in [lim.globals - 1, lim.globals, lim.globals + 1] {
        let (mut m, req) = base();
        for j in 0..n {
            m.globals.push((if j % 2 == 0 { VT::I32 } else { VT::I64 }, j % 3 == 0));
        }
        v.push((vec![format!("fam_globals{:+}", n as i64 - lim.globals as i64)], m, req, 2));
    }
    // (h) host imports: every whitelist row at every VM version with the exact signature; wrong signatures
    //     (one parameter more / less, each other result, one i64 parameter) at every version; the same name
    //     as a global / from another module
    for (name, np, res, minv) in whitelist_rows() {
        for ver in 0..3u64 {
            let (mut m, req) = base();
            let t = m.type_idx(vec![VT::I32; np], res_vts(res));
            insert_import(&mut m, ("env".into(), name.clone(), ImpKind::Func(t)));
            m.funcs[0].body.push(Stmt::CallFn(0));
            v.push((vec![format!("fam_import_exact_v{}_{}", ver, if ver < minv { "too_old" } else { "ok" })], m, req, ver));
        }
        for ver in 0..3u64 {
            let mut sigs: Vec<(String, Vec<VT>, Vec<VT>)> = vec![("more".into(), vec![VT::I32; np + 1], res_vts(res))];
            if np > 0 {
                sigs.push(("less".into(), vec![VT::I32; np - 1], res_vts(res)));
                let mut p = vec![VT::I32; np];
                p[np - 1] = VT::I64;
                sigs.push(("i64_last".into(), p, res_vts(res)));
                let mut p = vec![VT::I32; np];
                p[0] = VT::I64;
                sigs.push(("i64_first".into(), p, res_vts(res)));
            }
            sigs.push(("result_a".into(), vec![VT::I32; np], res_vts((res + 1) % 3)));
            sigs.push(("result_b".into(), vec![VT::I32; np], res_vts((res + 2) % 3)));
            for (what, p, r) in sigs {
                let (mut m, req) = base();
                let t = m.type_idx(p, r);
                insert_import(&mut m, ("env".into(), name.clone(), ImpKind::Func(t)));
                v.push((vec![format!("fam_import_wrong_{}_v{}", what, ver)], m, req, ver));
            }
        }
        let (mut m, req) = base();
        insert_import(&mut m, ("env".into(), name.clone(), ImpKind::Global(VT::I32)));
        v.push((vec!["fam_import_name_as_global".into()], m, req, 2));
        let (mut m, req) = base();
        let t = m.type_idx(vec![VT::I32; np], res_vts(res));
        insert_import(&mut m, ("Env".into(), name.clone(), ImpKind::Func(t)));
        v.push((vec!["fam_import_other_module".into()], m, req, 2));
    }
    // (i) export names
    for name in ["a-b", "1abc", "fn", "", "_", "a b", "self", "x.y", "r#fn", "r#x", "h\u{e9}llo", "_9", "Abc_9", "memory2", "crate", "Self", "async", "try", "\u{dc}n\u{ef}"] {
        let (mut m, req) = base();
        let f = add_func(&mut m, vec![], vec![], vec![], vec![]);
        m.exports.as_mut().unwrap().push((name.to_string(), 0, f));
        v.push((vec![format!("fam_export_name_{}", if ident_ok(name) { "ident" } else { "not_ident" })], m, req, 2));
    }
    // (j) order of the pipeline: every pair of violations, the earlier check must answer
    let violations: Vec<(&str, fn(&mut ModSpec, &mut Vec<String>, &Limits))> = vec![
        ("start", |m, _, _| {
            let f = add_func(m, vec![], vec![], vec![], vec![]);
            m.start = Some(f);
        }),
        ("import", |m, _, _| {
            let t = m.type_idx(vec![VT::I64], vec![]);
            insert_import(m, ("env".into(), "gas".into(), ImpKind::Func(t)));
        }),
        ("export_name", |m, _, _| {
            let f = add_func(m, vec![], vec![], vec![], vec![]);
            m.exports.as_mut().unwrap().push(("a-b".into(), 0, f));
        }),
        ("memory", |m, _, l| {
            m.memories = Some(vec![(1, Some(l.mem + 1))]);
        }),
        ("table", |m, _, l| {
            m.tables = Some(vec![(l.table as u32 + 1, None)]);
        }),
        ("br_table", |m, _, l| {
            m.funcs[0].body.push(Stmt::BrTable(l.br + 1));
        }),
        ("params", |m, _, _| {
            // first local function (no imports are added after this one in a pair, see below)
            let t = m.type_idx(vec![VT::I32; 33], vec![]);
            m.funcs.insert(0, FuncSpec { ty: t, locals: vec![], body: vec![] });
            for e in m.exports.as_mut().unwrap().iter_mut() {
                if e.1 == 0 {
                    e.2 += 1;
                }
            }
            if let Some(s) = m.start.as_mut() {
                *s += 1;
            }
        }),
        ("locals", |m, _, l| {
            m.funcs[0].locals.push((l.locals as u32 + 1, VT::I32));
        }),
        ("globals", |m, _, l| {
            while m.globals.len() <= l.globals as usize {
                m.globals.push((VT::I32, false));
            }
        }),
        ("required_export", |_, req, _| {
            req.push("Missing_fn".into());
        }),
    ];
    for i in 0..violations.len() {
        for j in (i + 1)..violations.len() {
            // "import" shifts function indices and would move the 33-parameter function out of the checked
            // prefix: apply "params" before "import"
            let (mut m, mut req) = base();
            let (a, b) = (&violations[i], &violations[j]);
            if a.0 == "import" && b.0 == "params" {
                (b.1)(&mut m, &mut req, lim);
                (a.1)(&mut m, &mut req, lim);
            } else {
                (a.1)(&mut m, &mut req, lim);
                (b.1)(&mut m, &mut req, lim);
            }
            v.push((vec![format!("fam_order_{}_then_{}", a.0, b.0)], m, req, 2));
        }
    }
    v
}

// counts of the deterministic family on the unmodified code (a class that stops being generated, or
// whose outcome moves, fails the run)
const FAMILY_FLOORS: &[(&str, u64)] = &[
    ("fam|verdict_VImportNotAllowed", 86),
    ("fam|verdict_VInitialTableSizeLimitExceeded", 6),
    ("fam|verdict_VInvalid", 33),
    ("fam|verdict_VInvalidExportName", 15),
    ("fam|verdict_VInvalidFunctionType", 527),
    ("fam|verdict_VMemoryNotExported", 9),
    ("fam|verdict_VMemorySizeLimitExceeded", 11),
    ("fam|verdict_VMissingExport", 6),
    ("fam|verdict_VMissingMemorySection", 2),
    ("fam|verdict_VNoMemoryDefinition", 2),
    ("fam|verdict_VProtocolVersionMismatch", 80),
    ("fam|verdict_VStartFunctionNotAllowed", 9),
    ("fam|verdict_VTooManyFunctionLocals", 5),
    ("fam|verdict_VTooManyFunctionParams", 6),
    ("fam|verdict_VTooManyFunctions", 1),
    ("fam|verdict_VTooManyGlobals", 2),
    ("fam|verdict_VTooManyTargetsInBrTable", 6),
    ("fam|verdict_accepted", 156),
    ("fam|verdict_post_rule_NotInstantiatable", 4),
];

fn main() {
    let args = Args::parse();
    let lim = limits();
    let mut report = Report::new(
        "C45",
        args.seed,
        "stream A: random valid baseline modules (wasm-encoder) with 0-2 rule/limit mutations, verdict class of ScryptoV1WasmValidator::validate vs the Coq pipeline on the harness-extracted summary; \
         stream B: random bytes, byte-mutated valid modules, post-MVP WAT modules through the full validation (no panic; accepted outputs satisfy the rules). \
         non-trivial = stream A case with at least one mutation or at least one import; distinct by module bytes + version + required exports",
    );
    let mut cw = CaseWriter::new("RV.Corr.C45_run RV.Model.C45_WasmRules", "check");
    let root = Rng::new(args.seed);
    let thorough = args.tier == "thorough";
    let mut corpus: Vec<Vec<u8>> = Vec::new();

    let fam = family(&lim);
    let n_fam = fam.len();
    report.count_n("family_cases", n_fam as u64);
    for i in 0..(n_fam + args.cases) {
        let mut rng = root.fork(i as u64);
        let in_family = i < n_fam;
        let (tags, m, required, ver): Plan = if in_family {
            fam[i].clone()
        } else {
            let mut ver = rng.below(3);
            let (mut m, mut required) = baseline(&mut rng, ver);
            let mut tags: Vec<String> = Vec::new();
            let nmut = [0, 1, 1, 1, 2][rng.usize_below(5)];
            for _ in 0..nmut {
                let mut k = rng.below(MUTATIONS as u64) as u32;
                // the function-count mutation builds 8k functions: keep it rare in the random stream
                if k == 13 && !(thorough && rng.chance(1, 4)) {
                    k = 12;
                }
                tags.push(mutate(&mut rng, k, &mut m, &mut required, &mut ver, &lim, None));
            }
            (tags, m, required, ver)
        };
        let code = m.encode();
        let sum = summarize(&code);
        let out = run_validator(&code, ver, &required);
        let mut mem_max = None;
        let class = match &out {
            Out::Passed(bytes, _) => {
                let so = summarize(bytes);
                mem_max = so.memories.as_ref().and_then(|v| v.first().and_then(|x| x.1));
                if let Err(what) = oracle_accepted(&code, &sum, bytes, &required, &lim) {
                    report.oracle_failure(i, "", &what, json!({"wasm": hex(&code), "version": ver, "required": required, "tags": tags}));
                }
                if code.len() < 4000 {
                    corpus.push(code.clone());
                }
                "accepted".to_string()
            }
            Out::PostRule(c) => format!("post_rule_{}", c),
            Out::Err(c) => c.to_string(),
            Out::Panic(msg) => {
                report.oracle_failure(i, "", &format!("validate panicked: {}", msg), json!({"wasm": hex(&code), "version": ver, "required": required, "tags": tags}));
                "panic".to_string()
            }
        };
        report.count(&format!("verdict_{}", class));
        if in_family {
            report.count(&format!("fam|verdict_{}", class));
            for t in &tags {
                report.count(&format!("fam|{}|{}", t.split('_').take(2).collect::<Vec<_>>().join("_"), class));
            }
        }
        for t in &tags {
            report.count(&format!("mut_{}", t));
            if matches!(out, Out::Passed(..)) {
                report.count(&format!("accepted_with_{}", t));
            }
        }
        if tags.is_empty() {
            report.count("mut_none");
        }
        // the known gap of enforce_function_limit: an accepted module with a local function over the parameter limit
        if matches!(out, Out::Passed(..)) {
            let over = sum.funcs.iter().any(|t| sum.types.get(*t as usize).map(|ft| ft.0.len() > 32).unwrap_or(false));
            if over {
                report.count("accepted_with_local_function_over_param_limit");
            }
        }
        let canon = format!("{}|{}|{:?}", hex(&code), ver, required);
        report.case(&canon, !tags.is_empty() || !sum.imports.is_empty());
        if i < 3 {
            report.sample(json!({"tags": tags, "version": ver, "required": required, "verdict": class, "wasm_len": code.len()}));
        }
        cw.push(format!(
            "(mkCase {} {} {} {})",
            ver,
            summary_coq(&sum),
            coq_list(required.iter().map(|r| coq_bytes(r.as_bytes()))),
            out_coq(&out, mem_max)
        ));
    }

    // ---------------- stream B: totality ----------------
    let nb = if thorough { args.cases * 20 } else { args.cases * 6 };
    let req = vec!["Test_f".to_string()];
    let mut exotic: Vec<Vec<u8>> = Vec::new();
    for w in EXOTIC_WAT {
        match wat::parse_str(w) {
            Ok(b) => exotic.push(b),
            Err(e) => report.notes.push(format!("wat parse failed: {}", e)),
        }
    }
    if corpus.is_empty() {
        corpus.push(wat::parse_str(r#"(module (memory (export "memory") 1) (func (export "Test_f") (param i64) (result i64) (local.get 0)))"#).unwrap());
    }
    let run_b = |idx: usize, bytes: &[u8], kind: &str, report: &mut Report| {
        let ver = (idx % 3) as u64;
        let out = run_validator(bytes, ver, &req);
        match &out {
            Out::Panic(msg) => {
                report.count(&format!("b_{}_panic", kind));
                report.oracle_failure(1_000_000 + idx, "", &format!("validate panicked on {} input: {}", kind, msg), json!({"wasm": hex(bytes), "version": ver}));
            }
            Out::Passed(o, _) => {
                report.count(&format!("b_{}_accepted", kind));
                let si = summarize(bytes);
                if let Err(what) = oracle_accepted(bytes, &si, o, &req, &lim) {
                    report.oracle_failure(1_000_000 + idx, "", &format!("{} input: {}", kind, what), json!({"wasm": hex(bytes), "version": ver}));
                }
            }
            Out::PostRule(_) => report.count(&format!("b_{}_post_rule_error", kind)),
            Out::Err(c) => {
                report.count(&format!("b_{}_rejected", kind));
                if *c != "VInvalid" {
                    report.count(&format!("b_{}_rejected_by_rule", kind));
                }
            }
        }
        report.evaluations += 1;
    };
    for (j, b) in exotic.iter().enumerate() {
        run_b(j, b, "exotic", &mut report);
    }
    for j in 0..nb {
        let mut rng = root.fork(0x4000_0000 + j as u64);
        let r = rng.below(10);
        if r < 2 {
            let n = rng.range(0, 200) as usize;
            let mut b = if rng.bool() { vec![0x00, 0x61, 0x73, 0x6d, 0x01, 0x00, 0x00, 0x00] } else { vec![] };
            b.extend(rng.bytes(n));
            run_b(j, &b, "random", &mut report);
        } else if r < 4 && !exotic.is_empty() {
            let base = rng.pick(&exotic).clone();
            let b = mutate_bytes(&mut rng, &base);
            run_b(j, &b, "mutated_exotic", &mut report);
        } else {
            let base = rng.pick(&corpus).clone();
            let b = mutate_bytes(&mut rng, &base);
            run_b(j, &b, "mutated", &mut report);
        }
    }

    // generator informativeness floors (very conservative)
    let n = args.cases as u64;
    report.floor("verdict_accepted", n / 20);
    report.floor("verdict_VInvalid", n / 50);
    report.floor("b_mutated_rejected", (nb as u64) / 10);
    {
        for k in [
            "verdict_VStartFunctionNotAllowed",
            "verdict_VImportNotAllowed",
            "verdict_VInvalidFunctionType",
            "verdict_VProtocolVersionMismatch",
            "verdict_VInvalidExportName",
            "verdict_VMissingMemorySection",
            "verdict_VNoMemoryDefinition",
            "verdict_VMemorySizeLimitExceeded",
            "verdict_VMemoryNotExported",
            "verdict_VInitialTableSizeLimitExceeded",
            "verdict_VTooManyTargetsInBrTable",
            "verdict_VTooManyFunctionLocals",
            "verdict_VTooManyGlobals",
            "verdict_VMissingExport",
        ] {
            report.floor(k, 1);
        }
    }
    for (k, m) in FAMILY_FLOORS {
        report.floor(k, *m);
    }
    cw.write(&args.out, args.shards).unwrap();
    report.write(&args.out).unwrap();
}
