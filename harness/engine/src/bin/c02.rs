//! C02 track-level correspondence harness: failing-transaction shaped operation sequences (work, force-writes, then revert, then finalisation-like writes) on the real `Track` over an in-memory
//! database; outputs, IOAccess events, finalized tracked structure and StateUpdates are compared in
//! Coq with the model coq/Model/C12_Track.v. Direct oracle: plain BTreeMap replay (`view`).
#[path = "../track_drv.rs"]
mod track_drv;
use serde_json::json;
use track_drv::*;
use vh_common::*;

fn main() {
    let args = Args::parse();
    let mut report = Report::new(
        "C02",
        args.seed,
        "random create_node/get/set/remove/force_write/scan_keys/drain/scan_sorted/delete_partition/revert sequences (len 1..60) \
         over 4 nodes x 3 partitions (field/map/sorted keys, 4-6 keys each) on a random base database; non-trivial = a read \
         returned a value written earlier in the run and a scan/drain returned entries; distinct by canonical op text",
    );
    let mut cw = CaseWriter::new("RV.Corr.C12_run RV.Model.C12_Track", "check");
    let alpha = Alphabet::new();
    run_boundary(&alpha, &mut report, &mut cw);
    let root = Rng::new(args.seed);
    let cfg = GenCfg {
        max_len: 50, w_get: 20, w_set: 22, w_remove: 10, w_scan_keys: 3, w_drain: 5, w_scan_sorted: 3, w_info: 3,
        w_create: 7, w_force: 14, w_delete_part: 2, w_revert: 0, wild_den: 10, revert_near_end: true,
    };
    for i in 0..args.cases {
        let mut rng = root.fork(i as u64);
        let mut next_id = 0u32;
        let base = gen_base(&mut rng, &mut next_id);
        let (mut ops, wild) = gen_ops(&mut rng, &cfg, &base, &mut next_id);
        normalise_create(&alpha, &mut ops);
        let db = build_db(&alpha, &base);
        let (outs, fin) = run_impl(&alpha, &db, &ops);
        let used = &ops[..outs.len()];
        // distribution
        report.count(if wild { "cases_wild" } else { "cases_admissible_by_construction" });
        report.count(if fin.is_some() { "runs_finalized" } else { "runs_ending_in_panic" });
        let mut written: std::collections::BTreeSet<u32> = Default::default();
        let mut ryw = false;
        let mut scan_hit = false;
        for (op, (r, evs)) in used.iter().zip(outs.iter()) {
            match op {
                Op::Set(_, id, _) => { written.insert(*id); }
                Op::CreateNode(_, parts) => for (_, subs) in parts { for (_, id, _) in subs { written.insert(*id); } },
                _ => {}
            }
            match r {
                Res::Opt(Some(v)) => { if written.contains(&v.0) { ryw = true; report.count("reads_of_own_write"); } else { report.count("reads_from_db"); } }
                Res::Opt(None) => report.count("reads_absent"),
                Res::Keys(l) => { if !l.is_empty() { scan_hit = true; } report.count("scan_keys"); }
                Res::KVs(l) => {
                    if !l.is_empty() { scan_hit = true; }
                    report.count(if matches!(op, Op::Drain(..)) { "drain" } else { "scan_sorted" });
                    if matches!(op, Op::ScanSorted(..)) && l.iter().any(|(_, v)| written.contains(&v.0)) && l.iter().any(|(_, v)| !written.contains(&v.0)) {
                        report.count("scan_sorted_interleaving_track_and_db");
                    }
                }
                Res::Panic => report.count("panics"),
                _ => {}
            }
            if matches!(op, Op::Revert) { report.count("reverts"); }
            if matches!(op, Op::ForceWrite(..)) { report.count("force_writes"); }
            report.count_n("io_events", evs.len() as u64);
        }
        report.count_n("ops_total", outs.len() as u64);
        let canon = used.iter().map(|o| op_coq(o, &value_len)).collect::<Vec<_>>().join(";");
        report.case(&canon, ryw && scan_hit);
        let o = oracle(&alpha, &base, &db, used, &outs, &fin);
        report.count_n("oracle_reads_checked", o.reads_checked);
        report.count_n("oracle_scans_checked", o.scans_checked);
        if o.final_checked { report.count("oracle_final_checked"); }
        if o.stopped_inadmissible.is_some() { report.count("oracle_stopped_inadmissible"); }
        if let Some((class, what)) = o.failure {
            report.oracle_failure(i, &class, &what, json!({"case": case_coq(&base, used, &outs, &fin)}));
        }
        if i < 2 {
            report.sample(json!({"ops": used.iter().take(20).map(|o| op_coq(o, &value_len)).collect::<Vec<_>>(),
                                 "outs": outs.iter().take(20).map(|(r, _)| res_coq(r)).collect::<Vec<_>>()}));
        }
        cw.push(case_coq(&base, used, &outs, &fin));
    }
    report.floor("reads_of_own_write", (args.cases as u64) / 2);
    report.floor("reverts", (args.cases as u64) / 2);
    report.floor("force_writes", args.cases as u64);
    report.floor("oracle_final_checked", (args.cases as u64) / 2);
    cw.write(&args.out, args.shards).unwrap();
    report.write(&args.out).unwrap();
}
