//! C11 harness: no transaction can crash the engine.
//!
//! The native packages' blueprint definitions are read from the ledger (every function and method
//! of every native blueprint, as stored by each package's `definition()` at genesis / protocol
//! updates). A case = one transaction calling one native function, or one native method on a
//! matching live object of a random history (accounts, faucet, validator, consensus manager,
//! resource managers, pools, access rules modules ...), with an argument payload drawn from
//!   (i)  typed boundary tuples: Decimal MIN/MAX/0/-1/1 atto, huge and empty collections, foreign /
//!        wrong-kind addresses, u8/u32/u64/i64 extremes, empty and long strings, EntireWorktop /
//!        EntireAuthZone expressions, buckets and proofs created just before the call;
//!   (ii) arbitrary SBOR values (random trees of every manifest value kind, depth <= 4);
//!   (iii) the empty tuple / wrong arity.
//! Everything runs under catch_unwind. Direct oracle: the outcome is a receipt (commit / reject /
//! abort) — never a host panic — and no failure is a native-VM trap (`Trap` in the error).
//! The proved part is the pinned collection of `*_no_panic` theorems (Props/C11.v).
use radix_common::prelude::*;
use radix_engine::transaction::*;
use radix_engine_interface::prelude::*;
use radix_transactions::manifest::*;
use radix_transactions::prelude::*;
use serde_json::json;
use vh_common::*;
use vh_engine::histories::*;

fn dec_edge(rng: &mut Rng) -> Decimal {
    match rng.below(8) {
        0 => Decimal::MAX,
        1 => Decimal::MIN,
        2 => Decimal::ZERO,
        3 => Decimal::from_attos(I192::from(1)),
        4 => Decimal::from_attos(I192::from(-1)),
        5 => Decimal::ONE,
        6 => Decimal::from_attos(I192::from_str("5708990770823839524233143877797980545530986496").unwrap()),
        _ => Decimal::from(rng.below(1000)),
    }
}

fn leaf(rng: &mut Rng, w: &World) -> ManifestValue {
    let addr = |rng: &mut Rng| -> ManifestValue {
        let n: NodeId = match rng.below(8) {
            0 => XRD.into_node_id(),
            1 => w.accts[rng.usize_below(4)].addr.into_node_id(),
            2 => FAUCET.into_node_id(),
            3 => CONSENSUS_MANAGER.into_node_id(),
            4 => w.validator.into_node_id(),
            5 => RESOURCE_PACKAGE.into_node_id(),
            6 => NodeId(rng.bytes(30).try_into().unwrap()),
            _ => w.fres.first().map(|f| f.addr.into_node_id()).unwrap_or(XRD.into_node_id()),
        };
        ManifestValue::Custom { value: ManifestCustomValue::Address(ManifestAddress::Static(n)) }
    };
    match rng.below(16) {
        0 => ManifestValue::Bool { value: rng.bool() },
        1 => ManifestValue::U8 { value: *rng.pick(&[0u8, 1, 18, 19, 255]) },
        2 => ManifestValue::U32 { value: *rng.pick(&[0u32, 1, u32::MAX]) },
        3 => ManifestValue::U64 { value: *rng.pick(&[0u64, 1, u64::MAX]) },
        4 => ManifestValue::I64 { value: *rng.pick(&[0i64, -1, i64::MIN, i64::MAX]) },
        5 => ManifestValue::String { value: if rng.bool() { String::new() } else { "x".repeat(1 + rng.usize_below(300)) } },
        6 | 7 => ManifestValue::Custom { value: ManifestCustomValue::Decimal(from_decimal(&dec_edge(rng))) },
        8 | 9 => addr(rng),
        10 => ManifestValue::Custom { value: ManifestCustomValue::Expression(ManifestExpression::EntireWorktop) },
        11 => ManifestValue::Custom { value: ManifestCustomValue::Expression(ManifestExpression::EntireAuthZone) },
        12 => ManifestValue::Custom { value: ManifestCustomValue::NonFungibleLocalId(from_non_fungible_local_id(NonFungibleLocalId::integer(rng.below(5)))) },
        13 => ManifestValue::Custom { value: ManifestCustomValue::PreciseDecimal(from_precise_decimal(&(if rng.bool() { PreciseDecimal::MAX } else { PreciseDecimal::MIN }))) },
        14 => ManifestValue::Enum { discriminator: rng.below(4) as u8, fields: vec![] },
        _ => ManifestValue::Tuple { fields: vec![] },
    }
}

fn value(rng: &mut Rng, w: &World, depth: u32) -> ManifestValue {
    if depth == 0 || rng.chance(1, 2) {
        return leaf(rng, w);
    }
    match rng.below(5) {
        0 => ManifestValue::Tuple { fields: (0..rng.below(4)).map(|_| value(rng, w, depth - 1)).collect() },
        1 => ManifestValue::Enum { discriminator: rng.below(5) as u8, fields: (0..rng.below(3)).map(|_| value(rng, w, depth - 1)).collect() },
        2 => {
            let n = if rng.chance(1, 10) { 2000 } else { rng.below(4) };
            ManifestValue::Array { element_value_kind: ManifestValueKind::U8, elements: (0..n).map(|_| ManifestValue::U8 { value: rng.next_u64() as u8 }).collect() }
        }
        3 => {
            let d = dec_edge(rng);
            ManifestValue::Array {
                element_value_kind: ManifestValueKind::Custom(ManifestCustomValueKind::Decimal),
                elements: (0..rng.below(4)).map(|_| ManifestValue::Custom { value: ManifestCustomValue::Decimal(from_decimal(&d)) }).collect(),
            }
        }
        _ => ManifestValue::Map { key_value_kind: ManifestValueKind::String, value_value_kind: ManifestValueKind::Tuple, entries: vec![] },
    }
}

fn args_for(rng: &mut Rng, w: &World) -> ManifestValue {
    let n = match rng.below(10) {
        0 => 0,
        1 | 2 | 3 => 1,
        4 | 5 | 6 => 2,
        7 | 8 => 3,
        _ => 4 + rng.below(3),
    };
    ManifestValue::Tuple { fields: (0..n).map(|_| value(rng, w, 3)).collect() }
}

fn main() {
    let args = Args::parse();
    let mut report = Report::new(
        "C11",
        args.seed,
        "a case = one transaction calling one native blueprint function or method (enumerated from the stored native package definitions) \
         with boundary / arbitrary SBOR / wrong-arity arguments against the state of a random history; non-trivial = the call reached the \
         engine (executable built); distinct by (blueprint, function, payload bytes)",
    );
    let root = Rng::new(args.seed);
    let mut world = World::new();
    // a short history so that resources, pools, vaults exist
    {
        let mut rng = root.fork(u64::MAX);
        for _ in 0..40 {
            let tx = world.next_tx(&mut rng);
            let _ = world.run(&tx);
        }
    }
    // enumerate native exports
    let packages: Vec<PackageAddress> = vec![
        PACKAGE_PACKAGE, RESOURCE_PACKAGE, ACCOUNT_PACKAGE, IDENTITY_PACKAGE, CONSENSUS_MANAGER_PACKAGE, ACCESS_CONTROLLER_PACKAGE,
        POOL_PACKAGE, TRANSACTION_PROCESSOR_PACKAGE, METADATA_MODULE_PACKAGE, ROYALTY_MODULE_PACKAGE, ROLE_ASSIGNMENT_MODULE_PACKAGE,
        TRANSACTION_TRACKER_PACKAGE, LOCKER_PACKAGE,
    ];
    let mut exports: Vec<(PackageAddress, String, String, bool)> = Vec::new();
    for p in &packages {
        for (k, def) in world.ledger.get_package_blueprint_definitions(p) {
            for (name, f) in &def.interface.functions {
                exports.push((*p, k.blueprint.clone(), name.clone(), f.receiver.is_some()));
            }
        }
    }
    exports.sort();
    report.extra.insert("native_exports".into(), json!(exports.len()));
    for i in 0..args.cases {
        let mut rng = root.fork(i as u64);
        let (pkg, bp, name, is_method) = exports[if i < exports.len() { i } else { rng.usize_below(exports.len()) }].clone();
        let payload = args_for(&mut rng, &world);
        let a = rng.usize_below(4);
        let mut b = ManifestBuilder::new().lock_fee_from_faucet();
        if rng.chance(1, 2) {
            b = b.get_free_xrd_from_faucet();
        }
        let target: Option<GlobalAddress> = if !is_method {
            None
        } else {
            Some(match bp.as_str() {
                "Account" => world.accts[a].addr.into(),
                "Validator" => world.validator.into(),
                "ConsensusManager" => CONSENSUS_MANAGER.into(),
                "FungibleResourceManager" => if rng.bool() { XRD.into() } else { world.fres[rng.usize_below(world.fres.len())].addr.into() },
                "NonFungibleResourceManager" => world.nres[rng.usize_below(world.nres.len())].addr.into(),
                "OneResourcePool" | "TwoResourcePool" | "MultiResourcePool" => match world.pools.first() {
                    Some(p) => p.addr.into(),
                    None => world.accts[a].addr.into(),
                },
                "Package" => FAUCET_PACKAGE.into(),
                "TransactionTracker" => TRANSACTION_TRACKER.into(),
                _ => *rng.pick(&[GlobalAddress::from(world.accts[a].addr), GlobalAddress::from(FAUCET), GlobalAddress::from(XRD), GlobalAddress::from(world.validator)]),
            })
        };
        report.count(if is_method { "method_calls" } else { "function_calls" });
        let b = match target {
            None => b.call_function_raw(pkg, bp.clone(), name.clone(), payload.clone()),
            Some(t) => match bp.as_str() {
                "Metadata" => b.add_instruction_advanced(CallMetadataMethod {
                    address: ManifestGlobalAddress::Static(t),
                    method_name: name.clone(),
                    args: payload.clone(),
                }).0,
                "RoleAssignment" => b.add_instruction_advanced(CallRoleAssignmentMethod {
                    address: ManifestGlobalAddress::Static(t),
                    method_name: name.clone(),
                    args: payload.clone(),
                }).0,
                "ComponentRoyalty" => b.add_instruction_advanced(CallRoyaltyMethod {
                    address: ManifestGlobalAddress::Static(t),
                    method_name: name.clone(),
                    args: payload.clone(),
                }).0,
                _ => b.call_method_raw(t, name.clone(), payload.clone()),
            },
        };
        let b = b.try_deposit_entire_worktop_or_abort(world.accts[a].addr, None);
        let manifest = match catch(std::panic::AssertUnwindSafe(|| b.build_no_validate())) {
            Ok(m) => m,
            Err(_) => {
                report.count("manifest_not_buildable");
                continue;
            }
        };
        let tx = Tx { label: "native_call", body: Body::User(manifest, vec![a]), meta: Meta::None, expect_fail: true };
        let bytes = manifest_encode(&payload).unwrap_or_default();
        let input = json!({"index": i, "seed": args.seed, "package": format!("{:?}", pkg), "blueprint": bp, "function": name, "is_method": is_method,
            "target": format!("{:?}", target), "args_manifest_sbor_hex": hex(&bytes)});
        match world.run(&tx) {
            Err(p) if p.starts_with("Could not") || p.contains("prepare") => {
                report.count("not_executable");
            }
            Err(p) => {
                report.oracle_failure(i, "", &format!("host panic while executing {}::{}: {}", bp, name, p.chars().take(300).collect::<String>()), input);
            }
            Ok(r) => {
                report.count(&format!("outcome_{}", outcome_class(&r)));
                report.case(&format!("{}:{}:{}", bp, name, hex(&bytes)), true);
                if let TransactionResult::Commit(c) = &r.result {
                    if let TransactionOutcome::Failure(e) = &c.outcome {
                        let s = format!("{:?}", e);
                        if s.contains("Trap") {
                            report.oracle_failure(i, "", &format!("native blueprint trapped in {}::{}: {}", bp, name, s.chars().take(300).collect::<String>()), input);
                        } else if s.contains("InputDecodeError") || s.contains("PayloadValidationAgainstSchemaError") || s.contains("InputSchemaNotMatch") {
                            report.count("rejected_by_input_schema");
                        } else {
                            report.count("reached_blueprint_code_or_auth");
                        }
                    } else {
                        report.count("call_succeeded");
                    }
                }
            }
        }
    }
    let n = args.cases as u64;
    report.floor("function_calls", n / 20);
    report.floor("method_calls", n / 4);
    report.floor("outcome_failure", n / 4);
    report.write(&args.out).unwrap();
}
