//! C08 correspondence harness: random access-rule trees (depth <= 4) installed as the `minter`
//! role of a fresh resource (or left to the owner-role fallback); random placement of badge proofs
//! (in the transaction's auth zone, or popped out of it into named proofs), random signer sets,
//! optional dropping of the signature proofs, optional preview with assume_all_signature_proofs;
//! `mint` then succeeds or fails with AuthError::Unauthorized in the real engine.  The Coq model
//! (Model/C08_Auth.v `verify_call`) receives the CALL CHAIN and builds the auth zone itself (create_zone).
//! Call shapes: manifest -> resource.mint; manifest -> account.withdraw -> vault.take; manifest -> vault.recall
//! (direct access); manifest -> pool.contribute -> pool-unit resource.mint (two context changes).
//! Direct oracle: the declarative meaning of the rule (require / amount-of / count-of / all-of /
//! any-of and their composition) over the set of visible badges, evaluated in Rust without zone
//! traversal order or short-circuiting.
use radix_common::prelude::*;
use radix_engine::errors::*;
use radix_engine::system::system_modules::auth::AuthError;
use radix_engine::transaction::*;
use radix_engine_interface::blueprints::resource::*;
use radix_engine_interface::prelude::*;
use radix_transactions::manifest::*;
use radix_transactions::model::*;
use radix_transactions::prelude::*;
use scrypto_test::prelude::*;
use serde_json::json;
use std::collections::BTreeSet;
use vh_common::*;

const UNIT: i128 = 1_000_000_000_000_000_000;
fn dec(attos: i128) -> Decimal {
    Decimal::from_attos(I192::from(attos))
}

// model codes
const SIG_SECP: u64 = 10; // SECP256K1_SIGNATURE_RESOURCE
const SIG_ED: u64 = 11; // ED25519_SIGNATURE_RESOURCE
const PKG_RES: u64 = 1000001;
const GC_RES: u64 = 1000002;
const TP_PKG: u64 = 1; // transaction processor package
const OTHER_PKG: u64 = 3; // some other package (resource package)
const TP_GC: u64 = 2; // global caller = transaction processor blueprint
const OTHER_GC: u64 = 4; // global caller = the badge account
const MINTER: u64 = 5;
const WITHDRAWER: u64 = 7;
const RECALLER: u64 = 8;
const POOL_MANAGER: u64 = 9;
const POOL_PKG: u64 = 12;
const POOL_GC: u64 = 13; // global caller = the pool component of the case
const ACCOUNT_PKG: u64 = 6; // account package (direct caller of the vault in the deeper chain)

#[derive(Clone, Debug, PartialEq)]
enum Ron {
    NF(u64, u64), // resource code, local id code
    Res(u64),
}
#[derive(Clone, Debug, PartialEq)]
enum Basic {
    Require(Ron),
    AmountOf(i128, u64),
    CountOf(u8, Vec<Ron>),
    AllOf(Vec<Ron>),
    AnyOf(Vec<Ron>),
}
#[derive(Clone, Debug, PartialEq)]
enum Comp {
    Basic(Basic),
    AnyOf(Vec<Comp>),
    AllOf(Vec<Comp>),
}
#[derive(Clone, Debug, PartialEq)]
enum Rule {
    AllowAll,
    DenyAll,
    Protected(Comp),
}

struct World {
    ledger: DefaultLedgerSimulator,
    account: ComponentAddress,
    badges: [ResourceAddress; 4], // codes 1..4: FA (div 18, 100), FB (div 0, 10), NA (ids 1..3), NB (ids 1..2)
    secp: Vec<Secp256k1PublicKey>, // local id codes 0..2 under SIG_SECP
    ed: Ed25519PublicKey,          // local id code 0 under SIG_ED
    pool_res: ResourceAddress,     // resource the per-case pools are created over (never used as a badge)
}

impl World {
    fn new() -> World {
        let mut ledger = LedgerSimulatorBuilder::new().build();
        let account = ledger.new_account_advanced(OwnerRole::Fixed(rule!(allow_all)));
        let mut badges = Vec::new();
        for (div, amt) in [(18u8, 100i128), (0u8, 10i128)] {
            let m = ManifestBuilder::new()
                .lock_fee_from_faucet()
                .create_fungible_resource(OwnerRole::None, true, div, FungibleResourceRoles::default(), metadata!(), Some(dec(amt * UNIT)))
                .try_deposit_entire_worktop_or_abort(account, None)
                .build();
            badges.push(ledger.execute_manifest(m, vec![]).expect_commit(true).new_resource_addresses()[0]);
        }
        for n in [3u64, 2u64] {
            let entries: Vec<(NonFungibleLocalId, ())> = (1..=n).map(|i| (NonFungibleLocalId::integer(i), ())).collect();
            let m = ManifestBuilder::new()
                .lock_fee_from_faucet()
                .create_non_fungible_resource(OwnerRole::None, NonFungibleIdType::Integer, true, NonFungibleResourceRoles::default(), metadata!(), Some(entries))
                .try_deposit_entire_worktop_or_abort(account, None)
                .build();
            badges.push(ledger.execute_manifest(m, vec![]).expect_commit(true).new_resource_addresses()[0]);
        }
        let pool_res = {
            let m = ManifestBuilder::new()
                .lock_fee_from_faucet()
                .create_fungible_resource(OwnerRole::None, true, 18, FungibleResourceRoles::default(), metadata!(), Some(dec(1000000 * UNIT)))
                .try_deposit_entire_worktop_or_abort(account, None)
                .build();
            ledger.execute_manifest(m, vec![]).expect_commit(true).new_resource_addresses()[0]
        };
        let secp: Vec<Secp256k1PublicKey> = (0..3).map(|_| ledger.new_key_pair().0).collect();
        let ed = ledger.new_ed25519_key_pair().0;
        World { ledger, account, badges: [badges[0], badges[1], badges[2], badges[3]], secp, ed, pool_res }
    }
    fn res_addr(&self, code: u64) -> ResourceAddress {
        match code {
            1..=4 => self.badges[(code - 1) as usize],
            SIG_SECP => SECP256K1_SIGNATURE_RESOURCE,
            SIG_ED => ED25519_SIGNATURE_RESOURCE,
            PKG_RES => PACKAGE_OF_DIRECT_CALLER_RESOURCE,
            GC_RES => GLOBAL_CALLER_RESOURCE,
            _ => unreachable!(),
        }
    }
    fn gid(&self, res: u64, id: u64) -> NonFungibleGlobalId {
        match res {
            SIG_SECP => NonFungibleGlobalId::from_public_key(&self.secp[id as usize]),
            SIG_ED => NonFungibleGlobalId::from_public_key(&self.ed),
            PKG_RES => NonFungibleGlobalId::package_of_direct_caller_badge(if id == TP_PKG { TRANSACTION_PROCESSOR_PACKAGE } else if id == ACCOUNT_PKG { ACCOUNT_PACKAGE } else if id == POOL_PKG { POOL_PACKAGE } else { RESOURCE_PACKAGE }),
            GC_RES => {
                if id == TP_GC {
                    NonFungibleGlobalId::global_caller_badge(GlobalCaller::PackageBlueprint(BlueprintId::new(
                        &TRANSACTION_PROCESSOR_PACKAGE,
                        TRANSACTION_PROCESSOR_BLUEPRINT,
                    )))
                } else {
                    NonFungibleGlobalId::global_caller_badge(GlobalCaller::GlobalObject(self.account.into()))
                }
            }
            _ => NonFungibleGlobalId::new(self.res_addr(res), NonFungibleLocalId::integer(id)),
        }
    }
    fn ron(&self, r: &Ron) -> ResourceOrNonFungible {
        match r {
            Ron::NF(res, id) => ResourceOrNonFungible::NonFungible(self.gid(*res, *id)),
            Ron::Res(res) => ResourceOrNonFungible::Resource(self.res_addr(*res)),
        }
    }
    fn basic(&self, b: &Basic) -> BasicRequirement {
        match b {
            Basic::Require(r) => BasicRequirement::Require(self.ron(r)),
            Basic::AmountOf(a, res) => BasicRequirement::AmountOf(dec(*a), self.res_addr(*res)),
            Basic::CountOf(n, l) => BasicRequirement::CountOf(*n, l.iter().map(|r| self.ron(r)).collect()),
            Basic::AllOf(l) => BasicRequirement::AllOf(l.iter().map(|r| self.ron(r)).collect()),
            Basic::AnyOf(l) => BasicRequirement::AnyOf(l.iter().map(|r| self.ron(r)).collect()),
        }
    }
    fn comp(&self, c: &Comp) -> CompositeRequirement {
        match c {
            Comp::Basic(b) => CompositeRequirement::BasicRequirement(self.basic(b)),
            Comp::AnyOf(l) => CompositeRequirement::AnyOf(l.iter().map(|c| self.comp(c)).collect()),
            Comp::AllOf(l) => CompositeRequirement::AllOf(l.iter().map(|c| self.comp(c)).collect()),
        }
    }
    fn rule(&self, r: &Rule) -> AccessRule {
        match r {
            Rule::AllowAll => AccessRule::AllowAll,
            Rule::DenyAll => AccessRule::DenyAll,
            Rule::Protected(c) => AccessRule::Protected(self.comp(c)),
        }
    }
}

// --- generator -----------------------------------------------------------------------------
fn gen_ron(rng: &mut Rng) -> Ron {
    match rng.below(20) {
        0..=5 => Ron::NF(SIG_SECP, rng.below(3)),
        6 => Ron::NF(SIG_ED, 0),
        7..=9 => Ron::NF(3, rng.range(1, 4)), // NA ids 1..3 exist, 4 does not
        10 => Ron::NF(4, rng.range(1, 3)),
        11..=13 => Ron::Res(rng.range(1, 4)),
        14 => Ron::Res(if rng.bool() { SIG_SECP } else { SIG_ED }),
        15 => Ron::NF(PKG_RES, *rng.pick(&[TP_PKG, TP_PKG, ACCOUNT_PKG, ACCOUNT_PKG, OTHER_PKG])),
        16 => Ron::NF(GC_RES, if rng.chance(2, 3) { TP_GC } else { OTHER_GC }),
        17 => Ron::Res(if rng.bool() { PKG_RES } else { GC_RES }),
        _ => Ron::NF(SIG_SECP, rng.below(3)),
    }
}
fn gen_rons(rng: &mut Rng) -> Vec<Ron> {
    let n = match rng.below(8) {
        0 => 0,
        1 => 1,
        _ => rng.range(2, 4),
    };
    (0..n).map(|_| gen_ron(rng)).collect()
}
fn gen_basic(rng: &mut Rng) -> Basic {
    match rng.below(10) {
        0..=2 => Basic::Require(gen_ron(rng)),
        3 | 4 => {
            let res = rng.range(1, 3);
            let amt = *rng.pick(&[0i128, 1, UNIT, 2 * UNIT, 5 * UNIT, 10 * UNIT, 50 * UNIT, 100 * UNIT, 100 * UNIT + 1, 3 * UNIT]);
            Basic::AmountOf(amt, res)
        }
        5 | 6 => {
            let l = gen_rons(rng);
            let n = rng.below(l.len() as u64 + 2) as u8;
            Basic::CountOf(n, l)
        }
        7 | 8 => Basic::AllOf(gen_rons(rng)),
        _ => Basic::AnyOf(gen_rons(rng)),
    }
}
fn gen_comp(rng: &mut Rng, depth: u32) -> Comp {
    if depth == 0 || rng.chance(2, 5) {
        return Comp::Basic(gen_basic(rng));
    }
    let n = match rng.below(8) {
        0 => 0,
        1 => 1,
        _ => rng.range(2, 3),
    };
    let l: Vec<Comp> = (0..n).map(|_| gen_comp(rng, depth - 1)).collect();
    if rng.bool() {
        Comp::AnyOf(l)
    } else {
        Comp::AllOf(l)
    }
}
fn gen_rule(rng: &mut Rng) -> Rule {
    match rng.below(16) {
        0 => Rule::AllowAll,
        1 => Rule::DenyAll,
        _ => Rule::Protected(gen_comp(rng, 3)),
    }
}

/// a proof request on the badge account: (resource code, amount attos or ids), and whether it is
/// popped from the auth zone into a named proof afterwards (then it must not count)
#[derive(Clone, Debug)]
struct Placement {
    res: u64,
    amt: i128,
    ids: Vec<u64>,
    popped: bool,
}

// --- declarative oracle --------------------------------------------------------------------
struct Visible {
    /// implicit non-fungible badges (signatures that are still there, local implicit badges)
    vnf: BTreeSet<(u64, u64)>,
    /// resources with all proofs simulated
    vres: BTreeSet<u64>,
    /// real proofs: (resource, amount, ids)
    proofs: Vec<(u64, i128, Vec<u64>)>,
}
impl Visible {
    fn has(&self, r: &Ron) -> bool {
        match r {
            Ron::NF(res, id) => {
                self.vnf.contains(&(*res, *id)) || self.vres.contains(res) || self.proofs.iter().any(|p| p.0 == *res && p.2.contains(id))
            }
            Ron::Res(res) => self.proofs.iter().any(|p| p.0 == *res),
        }
    }
    fn basic(&self, b: &Basic) -> bool {
        match b {
            Basic::Require(r) => self.has(r),
            Basic::AmountOf(a, res) => self.proofs.iter().any(|p| p.0 == *res && p.1 >= *a),
            Basic::CountOf(n, l) => l.iter().filter(|r| self.has(r)).count() >= *n as usize,
            Basic::AllOf(l) => l.iter().all(|r| self.has(r)),
            Basic::AnyOf(l) => l.iter().any(|r| self.has(r)),
        }
    }
    fn comp(&self, c: &Comp) -> bool {
        match c {
            Comp::Basic(b) => self.basic(b),
            Comp::AnyOf(l) => l.iter().any(|c| self.comp(c)),
            Comp::AllOf(l) => l.iter().all(|c| self.comp(c)),
        }
    }
    fn rule(&self, r: &Rule) -> bool {
        match r {
            Rule::AllowAll => true,
            Rule::DenyAll => false,
            Rule::Protected(c) => self.comp(c),
        }
    }
}

// --- Coq printing ----------------------------------------------------------------------------
fn ron_coq(r: &Ron) -> String {
    match r {
        Ron::NF(res, id) => format!("RNF ({}, {})", res, id),
        Ron::Res(res) => format!("RRes {}", res),
    }
}
fn basic_coq(b: &Basic) -> String {
    match b {
        Basic::Require(r) => format!("Require ({})", ron_coq(r)),
        Basic::AmountOf(a, res) => format!("AmountOf {} {}", coq_z(a), res),
        Basic::CountOf(n, l) => format!("CountOf {} {}", n, coq_list(l.iter().map(ron_coq))),
        Basic::AllOf(l) => format!("AllOf {}", coq_list(l.iter().map(ron_coq))),
        Basic::AnyOf(l) => format!("AnyOf {}", coq_list(l.iter().map(ron_coq))),
    }
}
fn comp_coq(c: &Comp) -> String {
    match c {
        Comp::Basic(b) => format!("Basic ({})", basic_coq(b)),
        Comp::AnyOf(l) => format!("CAnyOf {}", coq_list(l.iter().map(comp_coq))),
        Comp::AllOf(l) => format!("CAllOf {}", coq_list(l.iter().map(comp_coq))),
    }
}
fn rule_coq(r: &Rule) -> String {
    match r {
        Rule::AllowAll => "AllowAll".into(),
        Rule::DenyAll => "DenyAll".into(),
        Rule::Protected(c) => format!("Protected ({})", comp_coq(c)),
    }
}


/// a fully specified case (used by the deterministic boundary family)
#[derive(Clone, Debug)]
struct Over {
    rule: Rule,
    fallback: bool,
    via_account: bool,
    /// 0 = as via_account says, 2 = direct vault recall, 3 = pool contribute
    shape: u8,
    signers: Vec<u64>,
    ed_signer: bool,
    placements: Vec<Placement>,
    drop_sigs: bool,
    simulate: bool,
}

/// Deterministic boundary family, identical for every seed: every connective at its edge cases
/// (empty / single / duplicate lists, count 0 / = length / length + 1, amount exactly equal and one
/// atto either side), every kind of badge (signature, simulated signature, resource proof,
/// non-fungible id in / not in a proof, package-of-direct-caller and global-caller badges) in both
/// call shapes, proofs popped out of the auth zone, dropped signature proofs, owner fallback.
fn boundary_cases() -> Vec<(String, Over)> {
    let k = |i: u64| Ron::NF(SIG_SECP, i);
    let base = |rule: Rule| Over { rule, fallback: false, via_account: false, shape: 0, signers: vec![0], ed_signer: false, placements: vec![], drop_sigs: false, simulate: false };
    let prot = |b: Basic| Rule::Protected(Comp::Basic(b));
    let fa = |amt: i128, popped: bool| Placement { res: 1, amt, ids: vec![], popped };
    let na = |ids: Vec<u64>, popped: bool| Placement { res: 3, amt: ids.len() as i128 * UNIT, ids, popped };
    let mut v: Vec<(String, Over)> = Vec::new();
    let mut add = |class: &str, o: Over| v.push((class.to_string(), o));
    // CountOf
    for (n, l) in [
        (0u8, vec![]), (0, vec![k(1)]), (1, vec![]), (1, vec![k(0)]), (1, vec![k(1)]), (1, vec![k(1), k(0)]), (1, vec![k(0), k(1)]),
        (2, vec![k(0), k(1)]), (2, vec![k(0), k(0)]), (2, vec![k(0), k(1), k(0)]), (3, vec![k(0), k(0), k(0)]), (3, vec![k(0), k(0)]),
        (2, vec![k(1), k(0), k(2)]), (255, vec![k(0)]),
    ] {
        add("bnd_count_of", base(prot(Basic::CountOf(n, l.clone()))));
        let mut o = base(prot(Basic::CountOf(n, l)));
        o.signers = vec![0, 2];
        add("bnd_count_of", o);
    }
    // AmountOf: exactly equal, one atto either side, zero with / without a proof, two proofs that only sum up,
    // non-fungible proof amount, popped proof
    for (req, have) in [(5 * UNIT, vec![5 * UNIT]), (5 * UNIT, vec![5 * UNIT - 1]), (5 * UNIT, vec![5 * UNIT + 1]), (5 * UNIT + 1, vec![5 * UNIT]),
                        (5 * UNIT - 1, vec![5 * UNIT]), (0, vec![1]), (0, vec![]), (1, vec![1]), (5 * UNIT, vec![3 * UNIT, 2 * UNIT]),
                        (5 * UNIT, vec![UNIT, 5 * UNIT]), (100 * UNIT, vec![100 * UNIT]), (-UNIT, vec![])] {
        let mut o = base(prot(Basic::AmountOf(req, 1)));
        o.placements = have.iter().map(|a| fa(*a, false)).collect();
        add("bnd_amount_of", o);
    }
    {
        let mut o = base(prot(Basic::AmountOf(5 * UNIT, 1)));
        o.placements = vec![fa(5 * UNIT, true)];
        add("bnd_amount_of", o);
        let mut o = base(prot(Basic::AmountOf(2 * UNIT, 3)));
        o.placements = vec![na(vec![1, 2], false)];
        add("bnd_amount_of", o);
        let mut o = base(prot(Basic::AmountOf(2 * UNIT + 1, 3)));
        o.placements = vec![na(vec![1, 2], false)];
        add("bnd_amount_of", o);
        let mut o = base(prot(Basic::AmountOf(5 * UNIT, 2)));
        o.placements = vec![fa(5 * UNIT, false)]; // proof of another resource
        add("bnd_amount_of", o);
    }
    // AllOf / AnyOf / composite: empty, single, first / last decides
    for l in [vec![], vec![k(0)], vec![k(1)], vec![k(0), k(1)], vec![k(1), k(0)], vec![k(0), k(0)]] {
        add("bnd_all_any", base(prot(Basic::AllOf(l.clone()))));
        add("bnd_all_any", base(prot(Basic::AnyOf(l.clone()))));
        let cs: Vec<Comp> = l.iter().map(|r| Comp::Basic(Basic::Require(r.clone()))).collect();
        add("bnd_all_any", base(Rule::Protected(Comp::AllOf(cs.clone()))));
        add("bnd_all_any", base(Rule::Protected(Comp::AnyOf(cs))));
    }
    add("bnd_all_any", base(Rule::Protected(Comp::AllOf(vec![Comp::AnyOf(vec![]), Comp::Basic(Basic::Require(k(0)))]))));
    add("bnd_all_any", base(Rule::Protected(Comp::AnyOf(vec![Comp::AllOf(vec![]), Comp::Basic(Basic::Require(k(1)))]))));
    add("bnd_all_any", base(Rule::Protected(Comp::AnyOf(vec![Comp::AllOf(vec![Comp::AnyOf(vec![Comp::AllOf(vec![Comp::Basic(Basic::Require(k(0)))])])])]))));
    add("bnd_all_any", base(Rule::AllowAll));
    add("bnd_all_any", base(Rule::DenyAll));
    // Require: each kind of badge, present / absent
    for (r, pl) in [
        (Ron::Res(1), vec![fa(1, false)]), (Ron::Res(1), vec![]), (Ron::Res(1), vec![fa(1, true)]), (Ron::Res(3), vec![na(vec![2], false)]),
        (Ron::NF(3, 2), vec![na(vec![2], false)]), (Ron::NF(3, 2), vec![na(vec![1, 3], false)]), (Ron::NF(3, 2), vec![na(vec![1], false), na(vec![3, 2], false)]),
        (Ron::NF(3, 4), vec![na(vec![1, 2, 3], false)]), (Ron::NF(4, 1), vec![na(vec![1], false)]), (Ron::NF(3, 2), vec![na(vec![2], true)]),
        (Ron::Res(SIG_SECP), vec![]), (Ron::NF(SIG_ED, 0), vec![]),
    ] {
        let mut o = base(prot(Basic::Require(r)));
        o.placements = pl;
        add("bnd_require", o);
    }
    for (sig, signers, ed, drop, sim) in [(k(0), vec![0u64], false, false, false), (k(0), vec![1], false, false, false), (k(0), vec![], false, false, false),
                                          (k(0), vec![0], false, true, false), (k(1), vec![0], false, false, true), (k(1), vec![0], false, true, true),
                                          (Ron::NF(SIG_ED, 0), vec![], true, false, false), (Ron::NF(SIG_ED, 0), vec![0], false, false, true),
                                          (Ron::Res(SIG_SECP), vec![0], false, false, true), (k(2), vec![0, 1, 2], true, false, false)] {
        let mut o = base(prot(Basic::Require(sig)));
        o.signers = signers;
        o.ed_signer = ed;
        o.drop_sigs = drop;
        o.simulate = sim;
        add("bnd_signatures", o);
    }
    // implicit badges and visibility in both call shapes; owner fallback in both
    for via in [false, true] {
        for r in [Ron::NF(PKG_RES, TP_PKG), Ron::NF(PKG_RES, ACCOUNT_PKG), Ron::NF(PKG_RES, OTHER_PKG), Ron::NF(GC_RES, TP_GC), Ron::NF(GC_RES, OTHER_GC),
                  Ron::Res(PKG_RES), Ron::Res(GC_RES), k(0), k(1), Ron::Res(1), Ron::NF(3, 1)] {
            let mut o = base(prot(Basic::Require(r)));
            o.via_account = via;
            o.placements = vec![fa(UNIT, false), na(vec![1], false)];
            add("bnd_call_shapes", o.clone());
            o.fallback = true;
            add("bnd_call_shapes", o);
        }
        let mut o = base(prot(Basic::AmountOf(UNIT, 1)));
        o.via_account = via;
        o.placements = vec![fa(UNIT, false)];
        add("bnd_call_shapes", o.clone());
        o.placements = vec![fa(UNIT - 1, false)];
        add("bnd_call_shapes", o);
    }
    // direct vault access (recall) and a pool method (two context changes: the pool then mints pool units)
    for shape in [2u8, 3u8] {
        for r in [Ron::NF(PKG_RES, TP_PKG), Ron::NF(PKG_RES, ACCOUNT_PKG), Ron::NF(PKG_RES, POOL_PKG), Ron::NF(GC_RES, TP_GC), Ron::NF(GC_RES, OTHER_GC), k(0), k(1), Ron::Res(1), Ron::NF(3, 1)] {
            let mut o = base(prot(Basic::Require(r)));
            o.shape = shape;
            o.placements = vec![fa(UNIT, false), na(vec![1], false)];
            add("bnd_call_shapes_direct_pool", o);
        }
        for rule in [Rule::AllowAll, Rule::DenyAll, prot(Basic::AmountOf(UNIT, 1)), prot(Basic::CountOf(2, vec![k(0), Ron::NF(PKG_RES, TP_PKG)]))] {
            let mut o = base(rule);
            o.shape = shape;
            o.placements = vec![fa(UNIT, false)];
            add("bnd_call_shapes_direct_pool", o);
        }
    }
    v
}

#[derive(Debug, PartialEq)]
enum Outcome {
    Authorized,
    Unauthorized,
    Other(String),
}

fn main() {
    let args = Args::parse();
    let mut report = Report::new(
        "C08",
        args.seed,
        "random rule trees (depth <= 4: require / amount-of / count-of / all-of / any-of over signature badges, badge resources, \
         non-fungible ids, package-of-direct-caller and global-caller badges; composite any-of / all-of; allow-all / deny-all) as the \
         minter role of a fresh resource (manifest -> mint) or as its withdrawer role reached through account.withdraw -> vault.take (parent zone + copied global caller), or through the owner fallback; random signers, account proofs kept in / popped \
         from the auth zone, signature proofs dropped, preview with simulated signature proofs; non-trivial = protected rule; \
         distinct by canonical text of rule + placement",
    );
    let mut cw = CaseWriter::new("RV.Corr.C08_run RV.Model.C08_Auth", "check");
    let root = Rng::new(args.seed);
    let mut w = World::new();
    let bnd = boundary_cases();
    for i in 0..args.cases.max(bnd.len()) {
        let mut rng = root.fork(i as u64);
        let ov: Option<&Over> = bnd.get(i).map(|x| &x.1);
        if let Some((class, _)) = bnd.get(i) {
            report.count(class);
        } else {
            report.count("random_cases");
        }
        let rule = match ov { Some(o) => o.rule.clone(), None => gen_rule(&mut rng) };
        let fallback = match ov { Some(o) => o.fallback, None => rng.chance(1, 4) };
        let other = gen_rule(&mut rng);
        // shape of the protected call:
        //   direct:      manifest -> resource.mint            (role minter)
        //   via account: manifest -> account.withdraw -> vault.take  (role withdrawer of the resource; the vault's
        //                frame has the account's zone as parent and the account's global caller copied)
        // 0 direct mint, 1 via account (vault.take), 2 direct vault access (vault.recall), 3 pool.contribute (+ inner pool-unit mint)
        let shape: u8 = match ov {
            Some(o) => if o.shape != 0 { o.shape } else if o.via_account { 1 } else { 0 },
            None => match rng.below(20) { 0..=7 => 0, 8..=12 => 1, 13..=15 => 2, _ => 3 },
        };
        let via_account = shape == 1;
        let fallback = fallback && shape != 3;
        // role table of the new resource: role = rule (owner = other), or the role falls to owner = rule
        let (role_def, owner_rule) = if fallback { (None, rule.clone()) } else { (Some(w.rule(&rule)), other.clone()) };
        let roles = match shape {
            1 => FungibleResourceRoles {
                withdraw_roles: Some(WithdrawRoles { withdrawer: role_def, withdrawer_updater: Some(AccessRule::DenyAll) }),
                ..Default::default()
            },
            2 => FungibleResourceRoles {
                recall_roles: Some(RecallRoles { recaller: role_def, recaller_updater: Some(AccessRule::DenyAll) }),
                ..Default::default()
            },
            _ => FungibleResourceRoles {
                mint_roles: Some(MintRoles { minter: role_def, minter_updater: Some(AccessRule::DenyAll) }),
                ..Default::default()
            },
        };
        let with_supply = shape == 1 || shape == 2;
        let mb = ManifestBuilder::new().lock_fee_from_faucet().create_fungible_resource(
            OwnerRole::Fixed(w.rule(&owner_rule)),
            true,
            18,
            roles,
            metadata!(),
            if with_supply { Some(dec(10 * UNIT)) } else { None },
        );
        let m = if with_supply { mb.try_deposit_entire_worktop_or_abort(w.account, None).build() } else { mb.build() };
        let receipt = w.ledger.execute_manifest(m, vec![]);
        let created = match &receipt.result {
            TransactionResult::Commit(c) if matches!(c.outcome, TransactionOutcome::Success(_)) => c.new_resource_addresses()[0],
            _ => {
                report.count("resource_creation_failed");
                report.notes.push(format!("case {}: resource creation failed for rule {}", i, rule_coq(&rule)));
                continue;
            }
        };
        let mut pool: Option<ComponentAddress> = None;
        if shape == 3 {
            let badge = w.pool_res;
            let rule_e = w.rule(&rule);
            let ledger = &mut w.ledger;
            match catch(std::panic::AssertUnwindSafe(|| ledger.create_one_resource_pool(badge, rule_e))) {
                Ok((c, _)) => pool = Some(c),
                Err(_) => {
                    report.count("resource_creation_failed");
                    continue;
                }
            }
        }
        let vault_of_created: Option<NodeId> = if shape == 2 { w.ledger.get_component_vaults(w.account, created).first().cloned() } else { None };
        // signers and proof placement
        let signers: Vec<u64> = match ov { Some(o) => o.signers.clone(), None => (0..3).filter(|_| rng.chance(2, 5)).collect() };
        let ed_signer = match ov { Some(o) => o.ed_signer, None => rng.chance(1, 5) };
        let mut placements: Vec<Placement> = match ov { Some(o) => o.placements.clone(), None => Vec::new() };
        for _ in 0..(if ov.is_some() { 0 } else { rng.below(4) }) {
            let res = rng.range(1, 4);
            let (amt, ids) = match res {
                1 => (*rng.pick(&[UNIT, 5 * UNIT, 50 * UNIT, 100 * UNIT, 1]), vec![]),
                2 => (*rng.pick(&[UNIT, 3 * UNIT, 10 * UNIT]), vec![]),
                3 => {
                    let mut ids = vec![1u64, 2, 3];
                    rng.shuffle(&mut ids);
                    ids.truncate(rng.range(1, 3) as usize);
                    (ids.len() as i128 * UNIT, ids)
                }
                _ => {
                    let ids = if rng.bool() { vec![1u64] } else { vec![1, 2] };
                    (ids.len() as i128 * UNIT, ids)
                }
            };
            placements.push(Placement { res, amt, ids, popped: rng.chance(1, 5) });
        }
        // aim at the amount-of boundary: a proof with exactly / one atto less than a required amount
        fn amounts(c: &Comp, out: &mut Vec<(i128, u64)>) {
            match c {
                Comp::Basic(Basic::AmountOf(a, r)) => out.push((*a, *r)),
                Comp::Basic(_) => {}
                Comp::AnyOf(l) | Comp::AllOf(l) => l.iter().for_each(|c| amounts(c, out)),
            }
        }
        if let (Rule::Protected(c), None) = (&rule, ov) {
            let mut am = Vec::new();
            amounts(c, &mut am);
            for (a, r) in am {
                let a = if rng.chance(1, 3) { a - 1 } else { a };
                let ok = a > 0 && ((r == 1 && a <= 100 * UNIT) || (r == 2 && a <= 10 * UNIT && a % UNIT == 0));
                if ok && rng.chance(2, 3) {
                    placements.push(Placement { res: r, amt: a, ids: vec![], popped: rng.chance(1, 8) });
                }
            }
        }
        let drop_sigs = match ov { Some(o) => o.drop_sigs, None => rng.chance(1, 10) };
        let simulate = match ov { Some(o) => o.simulate, None => rng.chance(1, 10) };

        let mut instrs: Vec<InstructionV1> = vec![InstructionV1::CallMethod(CallMethod {
            address: ManifestGlobalAddress::Static(FAUCET.into()),
            method_name: "lock_fee".to_string(),
            args: to_manifest_value_and_unwrap!(&(dec(5000 * UNIT),)),
        })];
        for p in &placements {
            let addr = w.res_addr(p.res);
            instrs.push(if p.ids.is_empty() {
                InstructionV1::CallMethod(CallMethod {
                    address: ManifestGlobalAddress::Static(w.account.into()),
                    method_name: "create_proof_of_amount".to_string(),
                    args: to_manifest_value_and_unwrap!(&(addr, dec(p.amt))),
                })
            } else {
                let ids: Vec<NonFungibleLocalId> = p.ids.iter().map(|i| NonFungibleLocalId::integer(*i)).collect();
                InstructionV1::CallMethod(CallMethod {
                    address: ManifestGlobalAddress::Static(w.account.into()),
                    method_name: "create_proof_of_non_fungibles".to_string(),
                    args: to_manifest_value_and_unwrap!(&(addr, ids)),
                })
            });
            if p.popped {
                instrs.push(InstructionV1::PopFromAuthZone(PopFromAuthZone));
            }
        }
        if drop_sigs {
            instrs.push(InstructionV1::DropAuthZoneSignatureProofs(DropAuthZoneSignatureProofs));
        }
        match shape {
            1 => instrs.push(InstructionV1::CallMethod(CallMethod {
                address: ManifestGlobalAddress::Static(w.account.into()),
                method_name: "withdraw".to_string(),
                args: to_manifest_value_and_unwrap!(&(created, dec(UNIT))),
            })),
            2 => instrs.push(InstructionV1::CallDirectVaultMethod(CallDirectVaultMethod {
                address: InternalAddress::new_or_panic(vault_of_created.expect("vault").into()),
                method_name: "recall".to_string(),
                args: to_manifest_value_and_unwrap!(&(dec(UNIT),)),
            })),
            3 => {
                instrs.push(InstructionV1::CallMethod(CallMethod {
                    address: ManifestGlobalAddress::Static(w.account.into()),
                    method_name: "withdraw".to_string(),
                    args: to_manifest_value_and_unwrap!(&(w.pool_res, dec(UNIT))),
                }));
                instrs.push(InstructionV1::TakeAllFromWorktop(TakeAllFromWorktop { resource_address: w.pool_res }));
                instrs.push(InstructionV1::CallMethod(CallMethod {
                    address: ManifestGlobalAddress::Static(pool.unwrap().into()),
                    method_name: "contribute".to_string(),
                    args: to_manifest_value_and_unwrap!(&(ManifestBucket(0),)),
                }));
            }
            _ => instrs.push(InstructionV1::CallMethod(CallMethod {
                address: ManifestGlobalAddress::Static(created.into()),
                method_name: "mint".to_string(),
                args: to_manifest_value_and_unwrap!(&(dec(UNIT),)),
            })),
        }
        let none: Option<ResourceOrNonFungible> = None;
        instrs.push(InstructionV1::CallMethod(CallMethod {
            address: ManifestGlobalAddress::Static(w.account.into()),
            method_name: "try_deposit_batch_or_abort".to_string(),
            args: to_manifest_value_and_unwrap!(&(ManifestExpression::EntireWorktop, none)),
        }));
        let manifest = TransactionManifestV1 { instructions: instrs, blobs: Default::default(), object_names: ManifestObjectNames::Unknown };

        let receipt = if simulate {
            let mut keys: Vec<PublicKey> = signers.iter().map(|k| PublicKey::Secp256k1(w.secp[*k as usize])).collect();
            if ed_signer {
                keys.push(PublicKey::Ed25519(w.ed));
            }
            let ledger = &mut w.ledger;
            catch(std::panic::AssertUnwindSafe(|| {
                ledger.preview_manifest(
                    manifest,
                    keys,
                    0,
                    PreviewFlags { use_free_credit: true, assume_all_signature_proofs: true, skip_epoch_check: true, disable_auth: false },
                )
            }))
        } else {
            let mut proofs: BTreeSet<NonFungibleGlobalId> = signers.iter().map(|k| NonFungibleGlobalId::from_public_key(&w.secp[*k as usize])).collect();
            if ed_signer {
                proofs.insert(NonFungibleGlobalId::from_public_key(&w.ed));
            }
            let nonce = w.ledger.next_transaction_nonce();
            let executable = manifest.into_executable_with_proofs(nonce, proofs, w.ledger.transaction_validator()).expect("executable");
            let ledger = &mut w.ledger;
            catch(std::panic::AssertUnwindSafe(|| ledger.execute_transaction_no_commit(executable, ExecutionConfig::for_test_transaction())))
        };
        let outcome = match receipt {
            Err(m) => Outcome::Other(format!("panic {}", m)),
            Ok(receipt) => match &receipt.result {
                TransactionResult::Commit(c) => match &c.outcome {
                    TransactionOutcome::Success(_) => Outcome::Authorized,
                    TransactionOutcome::Failure(RuntimeError::SystemModuleError(SystemModuleError::AuthError(AuthError::Unauthorized(u))))
                        if u.fn_identifier.ident == ["mint", "take", "recall", "contribute"][shape as usize] =>
                    {
                        Outcome::Unauthorized
                    }
                    TransactionOutcome::Failure(e) => Outcome::Other(format!("{:?}", e)),
                },
                TransactionResult::Reject(r) => Outcome::Other(format!("rejected {:?}", r.reason)),
                TransactionResult::Abort(a) => Outcome::Other(format!("aborted {:?}", a.reason)),
            },
        };

        // the auth zones as the engine builds them for `mint` called from the manifest: the callee's
        // zone has direct caller package = transaction processor, global caller = the transaction
        // processor blueprint with the transaction's auth zone as its chain, no parent
        let mut vnf: Vec<(u64, u64)> = Vec::new();
        let mut vres: Vec<u64> = Vec::new();
        if !drop_sigs {
            for k in &signers {
                vnf.push((SIG_SECP, *k));
            }
            if ed_signer {
                vnf.push((SIG_ED, 0));
            }
            if simulate {
                vres.push(SIG_SECP);
                vres.push(SIG_ED);
            }
        }
        let visible_proofs: Vec<(u64, i128, Vec<u64>)> = placements.iter().filter(|p| !p.popped).map(|p| (p.res, p.amt, p.ids.clone())).collect();
        let tp_zone = format!(
            "{{| z_proofs := {}; z_vres := {}; z_vnf := {} |}}",
            coq_list(visible_proofs.iter().map(|p| format!(
                "{{| p_res := {}; p_amt := {}; p_ids := {} |}}",
                p.0,
                coq_z(p.1),
                coq_list(p.2.iter().map(|i| i.to_string()))
            ))),
            coq_list(vres.iter().map(|r| r.to_string())),
            coq_list(vnf.iter().map(|g| format!("({}, {})", g.0, g.1))),
        );
        // the call chain, newest call first (Model/C08_Auth.v `call`): who calls (actor), the content of the
        // caller's auth zone at that moment, what is called; the zone is built by the model (create_zone)
        let root = "(CRoot, {| z_proofs := []; z_vres := []; z_vnf := [] |}, RFunction)".to_string();
        let empty = "{| z_proofs := []; z_vres := []; z_vnf := [] |}";
        let tp_call = |recv: &str| format!("(CFunction {} {}, {}, {})", TP_GC, TP_PKG, tp_zone, recv);
        let chain_coq = match shape {
            1 => format!("[(CMethod {} (OGlobal {}), {}, RMethod false false); {}; {}]", ACCOUNT_PKG, OTHER_GC, empty, tp_call("RMethod true false"), root),
            2 => format!("[{}; {}]", tp_call("RMethod false true"), root),
            _ => format!("[{}; {}]", tp_call("RMethod true false"), root),
        };
        let role_key = [MINTER, WITHDRAWER, RECALLER, POOL_MANAGER][shape as usize];
        let roles_coq = if fallback { "[]".to_string() } else { format!("[({}, {})]", role_key, rule_coq(&rule)) };
        let observed = match &outcome {
            Outcome::Authorized => "OAuthorized",
            Outcome::Unauthorized => "OUnauthorized",
            Outcome::Other(_) => "OOther",
        };
        cw.push(format!("({}, (77, {}, {}, [{}]), {})", chain_coq, roles_coq, rule_coq(&owner_rule), role_key, observed));
        if shape == 3 && outcome == Outcome::Authorized {
            // the pool then mints pool units: a second global context change; the pool-unit resource's minter rule
            // is require(global_caller(pool)); the transaction's proofs and signatures are behind the barrier
            report.count("pool_inner_mint_checked");
            cw.push(format!(
                "([(CMethod {} (OGlobal {}), {}, RMethod true false); {}; {}], (78, [({}, Protected (Basic (Require (RNF ({}, {})))))], DenyAll, [{}]), OAuthorized)",
                POOL_PKG, POOL_GC, empty, tp_call("RMethod true false"), root, MINTER, GC_RES, POOL_GC, MINTER
            ));
        }

        // oracle: declarative meaning over everything visible
        let mut vis = Visible { vnf: vnf.iter().cloned().collect(), vres: vres.iter().cloned().collect(), proofs: visible_proofs.clone() };
        vis.vnf.insert((PKG_RES, if via_account { ACCOUNT_PKG } else { TP_PKG }));
        report.count(["shape_direct_mint", "shape_via_account", "shape_direct_vault", "shape_pool"][shape as usize]);
        vis.vnf.insert((GC_RES, TP_GC));
        let expect = vis.rule(&rule);
        let canon = format!("{}|{}|{:?}|{:?}|{}|{}|{}|{}", rule_coq(&rule), fallback, signers, placements, ed_signer, drop_sigs, simulate, shape);
        report.case(&canon, matches!(rule, Rule::Protected(_)));
        report.count(match &outcome {
            Outcome::Authorized => "authorized",
            Outcome::Unauthorized => "unauthorized",
            Outcome::Other(_) => "other_outcome",
        });
        if via_account {
            report.count("via_account_vault_chain");
        }
        if fallback {
            report.count("owner_fallback");
        }
        if simulate {
            report.count("preview_simulated_signatures");
        }
        if drop_sigs {
            report.count("signature_proofs_dropped");
        }
        report.count_n("proofs_in_auth_zone", visible_proofs.len() as u64);
        report.count_n("proofs_popped", placements.iter().filter(|p| p.popped).count() as u64);
        let input = json!({"rule": rule_coq(&rule), "fallback": fallback, "signers": signers, "ed": ed_signer, "placements": format!("{:?}", placements),
                           "drop_sigs": drop_sigs, "simulate": simulate, "via_account": via_account, "engine": format!("{:?}", outcome)});
        match &outcome {
            Outcome::Authorized if !expect => report.oracle_failure(i, "", "mint authorized although the rule is not satisfied by the visible badges", input.clone()),
            Outcome::Unauthorized if expect => report.oracle_failure(i, "", "mint refused although the rule is satisfied by the visible badges", input.clone()),
            Outcome::Other(s) => {
                report.notes.push(format!("case {}: unexpected outcome {}", i, s.chars().take(300).collect::<String>()));
                report.oracle_failure(i, "", "neither success nor Unauthorized", input.clone())
            }
            _ => {}
        }
        if i < 3 {
            report.sample(input);
        }
    }
    report.floor("authorized", (args.cases as u64) / 8);
    report.floor("unauthorized", (args.cases as u64) / 8);
    report.floor("owner_fallback", (args.cases as u64) / 10);
    report.floor("via_account_vault_chain", (args.cases as u64) / 8);
    report.floor("shape_direct_vault", (args.cases as u64) / 12);
    report.floor("shape_pool", (args.cases as u64) / 10);
    report.floor("pool_inner_mint_checked", (args.cases as u64) / 40);
    let mut per_class: std::collections::BTreeMap<String, u64> = Default::default();
    for (c, _) in &bnd {
        *per_class.entry(c.clone()).or_insert(0) += 1;
    }
    for (c, n) in per_class {
        report.floor(&c, n);
    }
    cw.write(&args.out, args.shards).unwrap();
    report.write(&args.out).unwrap();
}
