//! C03 harness: every committed transaction conserves resources.
//!
//! One long random history (see `vh_engine::histories`): create / mint / burn / transfer / recall /
//! freeze / fee locks from accounts (plain + contingent) / staking / pools / epoch changes /
//! failing transactions, executed and committed by the real engine (`LedgerSimulator`). Before and
//! after every transaction the WHOLE database is scanned (every vault and resource-manager
//! substate; not the engine's checkers).
//!
//! Direct oracle (per committed transaction, per resource; plain big-integer arithmetic):
//!   * sum of all vault balances after - before == amount in Mint events - amount in Burn events;
//!   * resources that track their supply: TotalSupply moves by exactly that amount (a resource
//!     created by the transaction starts from 0);
//!   * non-fungibles: ids after == (ids before ∪ minted) \ burned, minted ∩ ids before == ∅, no id
//!     in two vaults;
//!   * rejected / aborted transactions change no vault and no supply.
//! Correspondence: the receipt's events, fee summary and the two scans are written as a Coq case;
//! `Corr/C03_run.check` folds the events into operations of `Model/C03_Ledger.v`, which must accept
//! every operation, reproduce the fee-finalisation events, leave nothing in flight and end in the
//! observed balances / id sets / supplies.
use num_bigint::BigInt;
use radix_common::prelude::*;
use radix_engine::transaction::*;
use serde_json::json;
use std::collections::{BTreeMap, BTreeSet};
use vh_common::*;
use vh_engine::histories::*;

fn main() {
    let args = Args::parse();
    let mut report = Report::new(
        "C03",
        args.seed,
        "one random history of committed transactions (create/mint/burn/transfer/recall/freeze/fee locks/staking/pools/epoch changes/failures); \
         a case = one executed transaction with whole-database scans before and after; non-trivial = the transaction committed and \
         changed at least one vault; distinct by (label, decoded resource events)",
    );
    let mut cw = CaseWriter::new("RV.Corr.C03_run RV.Model.C03_Ledger", "check");
    let root = Rng::new(args.seed);
    let mut world = match World::try_new() {
        Ok(w) => w,
        Err(msg) => {
            report.oracle_failure(0, "", &format!("the engine failed while bootstrapping the ledger and creating accounts: {}", msg.chars().take(400).collect::<String>()), json!({"phase": "bootstrap", "seed": args.seed}));
            report.write(&args.out).unwrap();
            return;
        }
    };
    let mut pre = scan(world.db());
    let zero = BigInt::from(0);
    let plan = boundary_plan();
    let nb = plan.len();
    for i in 0..(nb + args.cases) {
        let mut rng = root.fork(i as u64);
        let tx = if i < nb {
            // deterministic boundary family, identical for every seed
            match world.boundary_step(i) {
                Some((class, tx)) => {
                    report.count(&format!("bf_{}", class));
                    tx
                }
                None => {
                    report.count(&format!("bf_skipped_{}", plan[i].0));
                    continue;
                }
            }
        } else {
            world.next_tx(&mut rng)
        };
        let scripted = i < nb;
        report.count(&format!("tx_{}", tx.label));
        let receipt = match world.run(&tx) {
            Ok(r) => r,
            Err(msg) => {
                report.oracle_failure(i, "", &format!("engine panicked: {}", msg.chars().take(300).collect::<String>()), json!({"tx": tx.label, "index": i}));
                continue;
            }
        };
        let post = scan(world.db());
        report.count(&format!("outcome_{}", outcome_class(&receipt)));
        if scripted && (outcome_class(&receipt) != "success") != tx.expect_fail {
            report.count("bf_outcome_not_as_scripted");
            report.notes.push(format!("boundary step {} ({}) ended as {} (scripted: {})", i, tx.label, outcome_class(&receipt), if tx.expect_fail { "failure" } else { "success" }));
        }
        report.count(&format!("txo_{}_{}", tx.label, outcome_class(&receipt)));
        if std::env::var("VH_DEBUG").is_ok() {
            if let TransactionResult::Commit(c) = &receipt.result {
                if let TransactionOutcome::Failure(e) = &c.outcome {
                    report.notes.push(format!("{} {} expect_fail={}: {}", i, tx.label, tx.expect_fail, format!("{:?}", e).chars().take(1200).collect::<String>()));
                }
            }
        }
        let input = json!({"index": i, "tx": tx.label, "seed": args.seed, "manifest": format!("{:?}", tx.body).chars().take(1500).collect::<String>()});
        let c = match &receipt.result {
            TransactionResult::Commit(c) => c,
            _ => {
                if post != pre {
                    report.oracle_failure(i, "", "a rejected/aborted transaction changed vaults or supplies", input);
                }
                report.case(&format!("{}:{}", tx.label, outcome_class(&receipt)), false);
                pre = post;
                continue;
            }
        };
        let evs = events_of(&c.application_events);
        // ---------------- direct oracle -------------------------------------------------------
        let mut minted: BTreeMap<ResourceAddress, BigInt> = BTreeMap::new();
        let mut burned: BTreeMap<ResourceAddress, BigInt> = BTreeMap::new();
        let mut minted_ids: BTreeMap<ResourceAddress, Vec<NonFungibleLocalId>> = BTreeMap::new();
        let mut burned_ids: BTreeMap<ResourceAddress, Vec<NonFungibleLocalId>> = BTreeMap::new();
        for e in &evs {
            match e {
                Ev::MintF(r, a) => *minted.entry(*r).or_default() += a,
                Ev::BurnF(r, a) => *burned.entry(*r).or_default() += a,
                Ev::MintN(r, ids) => {
                    *minted.entry(*r).or_default() += BigInt::from(ids.len()) * unit();
                    minted_ids.entry(*r).or_default().extend(ids.iter().cloned());
                }
                Ev::BurnN(r, ids) => {
                    *burned.entry(*r).or_default() += BigInt::from(ids.len()) * unit();
                    burned_ids.entry(*r).or_default().extend(ids.iter().cloned());
                }
                _ => {}
            }
        }
        let (s0, s1) = (pre.sums(), post.sums());
        let mut bad: Vec<String> = Vec::new();
        let mut changed = false;
        for (r, info) in &post.res {
            let before = s0.get(r).cloned().unwrap_or_default();
            let after = s1.get(r).cloned().unwrap_or_default();
            let net = minted.get(r).cloned().unwrap_or_default() - burned.get(r).cloned().unwrap_or_default();
            if after != before {
                changed = true;
            }
            if &after - &before != net {
                bad.push(format!("resource {:?}: vault sum moved by {} but minted - burned = {}", r, &after - &before, net));
            }
            if let Some(sup) = &info.supply {
                let sup0 = pre.res.get(r).and_then(|x| x.supply.clone()).unwrap_or_default();
                if sup - &sup0 != net {
                    bad.push(format!("resource {:?}: total supply moved by {} but minted - burned = {}", r, sup - &sup0, net));
                }
            }
            if info.nf {
                let before_ids: Vec<NonFungibleLocalId> = pre.ids_of(r);
                let after_ids: Vec<NonFungibleLocalId> = post.ids_of(r);
                let bset: BTreeSet<_> = before_ids.iter().cloned().collect();
                let aset: BTreeSet<_> = after_ids.iter().cloned().collect();
                if aset.len() != after_ids.len() {
                    bad.push(format!("resource {:?}: a non-fungible id is in two vaults", r));
                }
                let m: BTreeSet<_> = minted_ids.get(r).cloned().unwrap_or_default().into_iter().collect();
                let b: BTreeSet<_> = burned_ids.get(r).cloned().unwrap_or_default().into_iter().collect();
                if m.iter().any(|x| bset.contains(x)) {
                    bad.push(format!("resource {:?}: minted an id that already existed", r));
                }
                let expect: BTreeSet<_> = bset.union(&m).filter(|x| !b.contains(*x)).cloned().collect();
                if expect != aset {
                    bad.push(format!("resource {:?}: ids after != (ids before ∪ minted) \\ burned", r));
                }
            }
        }
        for r in pre.res.keys() {
            if !post.res.contains_key(r) {
                bad.push(format!("resource {:?} disappeared", r));
            }
        }
        for (v, (r, b)) in &post.fvaults {
            if *b < zero {
                bad.push(format!("vault {:?} of {:?} has a negative balance", v, r));
            }
        }
        if !bad.is_empty() {
            report.oracle_failure(i, "", &format!("committed transaction does not conserve resources: {}", bad.join("; ")), input.clone());
        }
        report.count("conservation_checked");
        if changed {
            report.count("tx_changed_vaults");
        }
        if !minted.is_empty() {
            report.count("tx_with_mint");
        }
        // ---------------- Coq case -----------------------------------------------------------
        let (app, fin) = split_final(&evs, c);
        if app.iter().any(|e| matches!(e, Ev::BurnF(..) | Ev::BurnN(..))) {
            report.count("tx_with_burn");
        }
        let mut touched: BTreeSet<ResourceAddress> = BTreeSet::new();
        for e in &evs {
            match ev_res(e, &pre, &post) {
                Some(r) => {
                    touched.insert(r);
                }
                None => bad.push("event of an unknown vault".into()),
            }
        }
        for (r, info) in &post.res {
            if pre.res.get(r) != Some(info) || s0.get(r) != s1.get(r) {
                touched.insert(*r);
            }
        }
        for (v, x) in &post.fvaults {
            if pre.fvaults.get(v) != Some(x) {
                touched.insert(x.0);
            }
        }
        for (v, x) in &post.nvaults {
            if pre.nvaults.get(v) != Some(x) {
                touched.insert(x.0);
            }
        }
        let costing = c.fee_destination.to_burn.is_positive() || fin.iter().any(|e| matches!(e, Ev::PayFee(..)));
        if costing {
            touched.insert(XRD);
        }
        let mut it = Intern::new();
        let res_pre: Vec<String> =
            touched.iter().filter(|r| pre.res.contains_key(*r)).map(|r| format!("({}, {})", coq_n(it.r(r)), coq_rinfo(&pre.res[r]))).collect();
        let res_new: Vec<String> = touched
            .iter()
            .filter(|r| !pre.res.contains_key(*r))
            .map(|r| {
                let mut info = post.res[r].clone();
                info.supply = info.supply.map(|_| BigInt::from(0));
                format!("({}, {})", coq_n(it.r(r)), coq_rinfo(&info))
            })
            .collect();
        let (fv0, nv0) = coq_vaults(&pre, &touched, &mut it);
        let (fv1, nv1) = coq_vaults(&post, &touched, &mut it);
        let app_c: Vec<String> = app.iter().map(|e| coq_event(e, &mut it, &pre, &post)).collect();
        let fin_c: Vec<String> = fin.iter().map(|e| coq_event(e, &mut it, &pre, &post)).collect();
        let flags: Vec<String> = lock_flags(&tx).into_iter().map(|b| coq_bool(b).to_string()).collect();
        let fee = if costing {
            let fs = &receipt.fee_summary;
            let total = big(fs.total_execution_cost_in_xrd)
                + big(fs.total_finalization_cost_in_xrd)
                + big(fs.total_tipping_cost_in_xrd)
                + big(fs.total_storage_cost_in_xrd)
                + big(fs.total_royalty_cost_in_xrd);
            let roy: Vec<String> = c
                .fee_destination
                .to_royalty_recipients
                .iter()
                .map(|(rec, a)| format!("({}, {})", coq_n(it.v(&rec.vault_id())), coq_z(big(*a))))
                .collect();
            let rv = rewards_vault(world.db());
            Some(format!(
                "(mkFee {} {} {} {} {} {} {} 0%Z)",
                coq_bool(matches!(c.outcome, TransactionOutcome::Success(_))),
                coq_z(total),
                coq_list(roy),
                coq_z(big(fs.total_royalty_cost_in_xrd)),
                coq_z(big(c.fee_destination.to_proposer) + big(c.fee_destination.to_validator_set)),
                coq_z(big(c.fee_destination.to_burn)),
                coq_n(it.v(&rv)),
            ))
        } else {
            None
        };
        let post_res: Vec<String> =
            touched.iter().map(|r| format!("({}, {})", coq_n(it.r(r)), coq_option(post.res[r].supply.as_ref().map(|s| coq_z(s))))).collect();
        cw.push(format!(
            "(mkCase {} {} {} {} {} {} {} {} {} {} {})",
            coq_list(res_pre),
            coq_list(res_new),
            fv0,
            nv0,
            coq_list(app_c),
            coq_list(flags),
            coq_option(fee),
            coq_list(fin_c),
            coq_list(post_res),
            fv1,
            nv1
        ));
        let canon = format!("{}:{:?}", tx.label, evs);
        report.case(&canon, changed);
        if i < 3 {
            report.sample(json!({"tx": tx.label, "outcome": outcome_class(&receipt), "events": format!("{:?}", evs).chars().take(600).collect::<String>()}));
        }
        pre = post;
    }
    report.extra.insert("db_nodes_final".into(), json!(pre.nodes));
    report.extra.insert("resources_final".into(), json!(pre.res.len()));
    report.extra.insert("vaults_final".into(), json!(pre.fvaults.len() + pre.nvaults.len()));
    let mut per_class: BTreeMap<&'static str, u64> = BTreeMap::new();
    for (c, _) in &plan {
        *per_class.entry(*c).or_default() += 1;
    }
    for (c, k) in &per_class {
        report.floor(&format!("bf_{}", c), *k);
    }
    let n = args.cases as u64;
    report.floor("outcome_success", n / 3);
    report.floor("outcome_failure", n / 40);
    report.floor("tx_changed_vaults", n / 3);
    report.floor("tx_with_mint", n / 20);
    report.floor("tx_with_burn", n / 20);
    cw.write(&args.out, args.shards).unwrap();
    report.write(&args.out).unwrap();
}
