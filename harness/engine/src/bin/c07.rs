//! C07 correspondence harness (model: coq/Model/C07_Tracker.v, evaluation: coq/Corr/C07_run.v).
//!  (i)   unit: random tracker values vs the real partition_for_expiry_epoch / advance;
//!  (ii)  validators: V1/V2 notarized transactions with chosen epoch windows vs header validation,
//!        overall range and nullification expiries of the created executable;
//!  (iii) engine: LedgerSimulator histories from an injected tracker state (start partition near
//!        the ring end, epoch near the partition boundary): notarized V1/V2 transactions that
//!        succeed / fail / are rejected, immediate and delayed replays, shared subintents, real
//!        round-update transactions for every epoch change; the thorough tier adds a full ring wrap.
//! Direct oracle (no model): a plain map of committed intents; a commit of a transaction carrying a
//! committed, unexpired intent, or a commit outside an intent's window, is a property failure.
use radix_common::prelude::*;
use radix_engine::blueprints::transaction_tracker::*;
use radix_engine::errors::RejectionReason;
use radix_engine::system::system_substates::FieldSubstate;
use radix_engine::transaction::*;
use radix_engine::updates::BabylonSettings;
use radix_engine_interface::blueprints::consensus_manager::*;
use radix_engine_interface::prelude::*;
use radix_substate_store_interface::interface::*;
use radix_transactions::model::*;
use radix_transactions::prelude::*;
use radix_transactions::validation::*;
use scrypto_test::prelude::{LedgerSimulator, LedgerSimulatorBuilder, NoExtension};
use radix_substate_store_impls::memory_db::InMemorySubstateDatabase;
use serde_json::json;
use std::collections::BTreeMap;
use vh_common::*;

type Ledger = LedgerSimulator<NoExtension, InMemorySubstateDatabase>;

// ------------------------------------------------------------------------------------------------
// (i) unit cases
// ------------------------------------------------------------------------------------------------
fn tracker_coq(t: &TransactionTrackerSubstateV1) -> String {
    format!(
        "(mkTracker {} {} {} {} {})",
        t.start_epoch, t.start_partition, t.partition_range_start_inclusive, t.partition_range_end_inclusive, t.epochs_per_partition
    )
}

fn unit_case(rng: &mut Rng, report: &mut Report) -> String {
    let plausible = rng.chance(2, 3);
    let (lo, hi, epp) = if plausible {
        (PARTITION_RANGE_START, PARTITION_RANGE_END, EPOCHS_PER_PARTITION)
    } else {
        let lo = rng.below(256) as u8;
        let hi = if rng.chance(4, 5) { rng.range(lo as u64, 255) as u8 } else { rng.below(256) as u8 };
        let epp = *rng.pick(&[0u64, 1, 2, 100, 1000, u64::MAX / 200, u64::MAX / 3, u64::MAX]);
        (lo, hi, epp)
    };
    let sp = if rng.chance(9, 10) && lo <= hi {
        let mid = rng.range(lo as u64, hi as u64) as u8;
        *rng.pick(&[lo, hi, mid])
    } else {
        rng.below(256) as u8
    };
    let start_epoch = match rng.below(10) {
        0 => 0,
        1 => u64::MAX - rng.below(40_000),
        2 => u64::MAX - rng.below(300),
        _ => rng.below(5_000_000),
    };
    let t = TransactionTrackerSubstateV1 {
        start_epoch,
        start_partition: sp,
        partition_range_start_inclusive: lo,
        partition_range_end_inclusive: hi,
        epochs_per_partition: epp,
    };
    let n = (hi as u64).wrapping_sub(lo as u64).wrapping_add(1) & 0x1ff;
    let span = n.saturating_mul(epp);
    let epoch = match rng.below(8) {
        0 => start_epoch.wrapping_sub(1),
        1 => start_epoch,
        2 => start_epoch.saturating_add(span).wrapping_sub(1),
        3 => start_epoch.saturating_add(span),
        4 => start_epoch.saturating_add(epp.saturating_mul(rng.below(n.max(1)))),
        5 => start_epoch.saturating_add(epp.saturating_mul(rng.below(n.max(1)))).wrapping_sub(1),
        6 => rng.next_u64(),
        _ => start_epoch.saturating_add(rng.below(span.max(1))),
    };
    let t1 = t.clone();
    let pf = catch(std::panic::AssertUnwindSafe(move || t1.partition_for_expiry_epoch(Epoch::of(epoch))));
    let pf_coq = match &pf {
        Ok(Some(p)) => format!("(PSome {})", p),
        Ok(None) => "PNone".to_string(),
        Err(_) => "PPanic".to_string(),
    };
    let mut t2 = t.clone();
    let adv = catch(std::panic::AssertUnwindSafe(move || {
        let d = t2.advance();
        (t2.start_epoch, t2.start_partition, d)
    }));
    let adv_coq = match &adv {
        Ok((se, sp, d)) => format!("(Some ({}, {}, {}))", se, sp, d),
        Err(_) => "None".to_string(),
    };
    report.count(match &pf {
        Ok(Some(_)) => "unit_pf_some",
        Ok(None) => "unit_pf_none",
        Err(_) => "unit_pf_panic",
    });
    if adv.is_err() {
        report.count("unit_advance_panic");
    }
    // direct sanity oracle: a returned partition lies inside the ring
    if let Ok(Some(p)) = pf {
        if p < lo || p > hi {
            report.oracle_failure(0, "", "partition outside the ring", json!({"tracker": tracker_coq(&t), "epoch": epoch}));
        }
    }
    let term = format!("CUnit {} {} {} {}", tracker_coq(&t), epoch, pf_coq, adv_coq);
    report.case(&term, matches!(pf, Ok(Some(_))));
    term
}

// ------------------------------------------------------------------------------------------------
// transactions
// ------------------------------------------------------------------------------------------------
#[derive(Clone, Copy, Debug, PartialEq)]
enum Want {
    Success,
    Failure,
    Reject,
}

#[derive(Clone, Debug)]
struct IntentInfo {
    sub: bool,
    id: usize,
    start: u64,
    end: u64,
}
fn intent_coq(i: &IntentInfo) -> String {
    format!("(mkIntent {} {} {} {})", if i.sub { "KSub" } else { "KTx" }, i.id, i.start, i.end)
}

#[derive(Clone)]
struct Tx {
    intents: Vec<IntentInfo>,
    want: Want,
    executable: Option<ExecutableTransaction>, // None = refused by the static validator
    overall: Option<(u64, u64, Vec<u64>)>,
}

struct Ids {
    by_hash: BTreeMap<Hash, usize>,
}
impl Ids {
    fn id(&mut self, h: Hash) -> usize {
        let n = self.by_hash.len();
        *self.by_hash.entry(h).or_insert(n)
    }
}

fn notary() -> Ed25519PrivateKey {
    Ed25519PrivateKey::from_u64(1337).unwrap()
}

fn root_manifest_v1(want: Want) -> TransactionManifestV1 {
    match want {
        Want::Success => ManifestBuilder::new().lock_fee_from_faucet().build(),
        Want::Failure => ManifestBuilder::new()
            .lock_fee_from_faucet()
            .assert_worktop_contains(XRD, dec!(1))
            .build(),
        Want::Reject => ManifestBuilder::new().drop_auth_zone_proofs().build(),
    }
}

fn build_v1(validator: &TransactionValidator, ids: &mut Ids, nonce: u32, start: u64, end: u64, want: Want) -> Tx {
    let tx = TransactionV1Builder::new()
        .header(TransactionHeaderV1 {
            network_id: NetworkDefinition::simulator().id,
            start_epoch_inclusive: Epoch::of(start),
            end_epoch_exclusive: Epoch::of(end),
            nonce,
            notary_public_key: notary().public_key().into(),
            notary_is_signatory: false,
            tip_percentage: 0,
        })
        .manifest(root_manifest_v1(want))
        .notarize(&notary())
        .build();
    let prepared = tx.prepare(validator.preparation_settings()).expect("prepare v1");
    let id = ids.id(prepared.transaction_intent_hash().0);
    let intents = vec![IntentInfo { sub: false, id, start, end }];
    match tx.prepare_and_validate(validator) {
        Ok(v) => {
            let ex = v.create_executable();
            let overall = overall_of(&ex);
            Tx { intents, want, executable: Some(ex), overall }
        }
        Err(_) => Tx { intents, want, executable: None, overall: None },
    }
}

fn overall_of(ex: &ExecutableTransaction) -> Option<(u64, u64, Vec<u64>)> {
    let r = ex.overall_epoch_range()?;
    let exp = ex
        .intent_hash_nullifications()
        .iter()
        .map(|n| match n {
            IntentHashNullification::TransactionIntent { expiry_epoch, .. } => expiry_epoch.number(),
            IntentHashNullification::Subintent { expiry_epoch, .. } => expiry_epoch.number(),
            _ => u64::MAX,
        })
        .collect();
    Some((r.start_epoch_inclusive.number(), r.end_epoch_exclusive.number(), exp))
}

#[derive(Clone)]
struct Child {
    signed: SignedPartialTransactionV2,
    info: IntentInfo,
}

fn build_child(ids: &mut Ids, disc: u64, start: u64, end: u64) -> Child {
    let mut b = PartialTransactionV2Builder::new()
        .intent_header(IntentHeaderV2 {
            network_id: NetworkDefinition::simulator().id,
            start_epoch_inclusive: Epoch::of(start),
            end_epoch_exclusive: Epoch::of(end),
            min_proposer_timestamp_inclusive: None,
            max_proposer_timestamp_exclusive: None,
            intent_discriminator: disc,
        })
        .manifest_builder(|b| b.yield_to_parent(()));
    let h = b.subintent_hash();
    let signed = b.build_minimal();
    Child { signed, info: IntentInfo { sub: true, id: ids.id(h.0), start, end } }
}

fn build_v2(
    validator: &TransactionValidator,
    ids: &mut Ids,
    disc: u64,
    start: u64,
    end: u64,
    want: Want,
    children: &[Child],
) -> Tx {
    let mut b = TransactionV2Builder::new()
        .intent_header(IntentHeaderV2 {
            network_id: NetworkDefinition::simulator().id,
            start_epoch_inclusive: Epoch::of(start),
            end_epoch_exclusive: Epoch::of(end),
            min_proposer_timestamp_inclusive: None,
            max_proposer_timestamp_exclusive: None,
            intent_discriminator: disc,
        })
        .transaction_header(TransactionHeaderV2 {
            notary_public_key: notary().public_key().into(),
            notary_is_signatory: false,
            tip_basis_points: 0,
        });
    for (i, c) in children.iter().enumerate() {
        b = b.add_signed_child(format!("c{}", i), c.signed.clone());
    }
    let n = children.len();
    let mut b = b.manifest_builder(|mut m| {
        if want != Want::Reject {
            m = m.lock_fee_from_faucet();
        }
        for i in 0..n {
            m = m.yield_to_child(format!("c{}", i), ());
        }
        if want == Want::Failure {
            m = m.assert_worktop_contains(XRD, dec!(1));
        }
        m
    });
    let root_hash = b.intent_hash();
    let tx = b.notarize(&notary()).build_minimal_no_validate();
    let mut intents = vec![IntentInfo { sub: false, id: ids.id(root_hash.0), start, end }];
    intents.extend(children.iter().map(|c| c.info.clone()));
    match tx.prepare_and_validate(validator) {
        Ok(v) => {
            let ex = v.create_executable();
            let overall = overall_of(&ex);
            Tx { intents, want, executable: Some(ex), overall }
        }
        Err(_) => Tx { intents, want, executable: None, overall: None },
    }
}

// ------------------------------------------------------------------------------------------------
// (ii) validator cases
// ------------------------------------------------------------------------------------------------
fn pick_window(rng: &mut Rng, base: u64, maxr: u64) -> (u64, u64) {
    let s = match rng.below(8) {
        0 => 0,
        1 => u64::MAX - rng.below(maxr + 3),
        _ => base.saturating_add(rng.below(50)).saturating_sub(rng.below(50)),
    };
    let e = match rng.below(10) {
        0 => s,
        1 => s.saturating_sub(1 + rng.below(3)),
        2 => s.saturating_add(maxr),
        3 => s.saturating_add(maxr + 1),
        4 => s.saturating_add(1),
        5 => s.saturating_add(maxr - 1),
        6 => u64::MAX,
        _ => s.saturating_add(1 + rng.below(maxr)),
    };
    (s, e)
}

fn valid_case(rng: &mut Rng, validator: &TransactionValidator, maxr: u64, report: &mut Report) -> String {
    let mut ids = Ids { by_hash: BTreeMap::new() };
    let base = 1000 + rng.below(100_000);
    let tx = if rng.chance(1, 2) {
        let (s, e) = pick_window(rng, base, maxr);
        build_v1(validator, &mut ids, rng.next_u32(), s, e, Want::Success)
    } else {
        let nchild = rng.range(0, 2) as usize;
        let mut children = vec![];
        for _ in 0..nchild {
            let (s, e) = if rng.chance(2, 3) {
                let s = base.saturating_sub(rng.below(30));
                (s, s + 1 + rng.below(maxr))
            } else {
                pick_window(rng, base, maxr)
            };
            children.push(build_child(&mut ids, rng.next_u64(), s, e));
        }
        let (s, e) = if rng.chance(2, 3) { (base, base + 1 + rng.below(maxr)) } else { pick_window(rng, base, maxr) };
        build_v2(validator, &mut ids, rng.next_u64(), s, e, Want::Success, &children)
    };
    report.count(if tx.executable.is_some() { "valid_accepted" } else { "valid_refused" });
    // direct oracle: accepted => every intent window is non-empty and at most maxr long, and the overall
    // range is the intersection
    if let Some((s, e, exp)) = &tx.overall {
        let ok = tx.intents.iter().all(|i| i.start < i.end && i.end - i.start <= maxr && i.start <= *s && *e <= i.end)
            && s < e
            && exp.len() == tx.intents.len()
            && exp.iter().zip(tx.intents.iter()).all(|(x, i)| *x == i.end);
        if !ok {
            report.oracle_failure(0, "", "validator accepted an epoch window outside the limits", json!({"intents": tx.intents.iter().map(intent_coq).collect::<Vec<_>>() }));
        }
    }
    let o = match &tx.overall {
        Some((s, e, exp)) => format!("(Some ({}, {}, {}))", s, e, coq_list(exp.iter().map(|x| x.to_string()))),
        None => "None".to_string(),
    };
    let term = format!("CValid {} {} {}", maxr, coq_list(tx.intents.iter().map(intent_coq)), o);
    report.case(&term, tx.executable.is_some());
    term
}

// ------------------------------------------------------------------------------------------------
// (iii) engine histories
// ------------------------------------------------------------------------------------------------
fn new_ledger() -> Ledger {
    let genesis = BabylonSettings::test_default().with_consensus_manager_config(
        ConsensusManagerConfig::test_default().with_epoch_change_condition(EpochChangeCondition {
            min_round_count: 1,
            max_round_count: 1,
            target_duration_millis: 0,
        }),
    );
    LedgerSimulatorBuilder::new()
        .with_custom_protocol(|b| b.configure_babylon(|_| genesis).from_bootstrap_to_latest())
        .without_kernel_trace()
        .build()
}

fn read_tracker(ledger: &Ledger) -> TransactionTrackerSubstateV1 {
    let t: FieldSubstate<TransactionTrackerSubstate> = ledger
        .substate_db()
        .get_substate(TRANSACTION_TRACKER, MAIN_BASE_PARTITION, TransactionTrackerField::TransactionTracker)
        .expect("tracker");
    t.into_payload().into_v1()
}

fn write_tracker(ledger: &mut Ledger, t: TransactionTrackerSubstateV1) {
    let updates = StateUpdates::empty().set_substate(
        TRANSACTION_TRACKER,
        MAIN_BASE_PARTITION,
        TransactionTrackerField::TransactionTracker,
        FieldSubstate::new_unlocked_field(TransactionTrackerSubstate::V1(t)),
    );
    ledger.substate_db_mut().commit(&updates.create_database_updates());
}

fn observe(ledger: &mut Ledger) -> (u64, u64, u8) {
    let c = ledger.get_consensus_manager_state().epoch.number();
    let t = read_tracker(ledger);
    (c, t.start_epoch, t.start_partition)
}

#[derive(Clone, Debug, PartialEq)]
enum Res {
    Invalid,
    Commit(bool),
    NotYetValid,
    NoLongerValid,
    PrevCommitted(bool, usize),
    PrevCancelled(bool, usize),
    ExecRejected,
    Panic,
}
fn res_coq(r: &Res) -> String {
    let k = |s: &bool| if *s { "KSub" } else { "KTx" };
    match r {
        Res::Invalid => "EInvalid".into(),
        Res::Commit(b) => format!("(ERes (RCommit {}))", coq_bool(*b)),
        Res::NotYetValid => "(ERes (RReject NotYetValid))".into(),
        Res::NoLongerValid => "(ERes (RReject NoLongerValid))".into(),
        Res::PrevCommitted(s, h) => format!("(ERes (RReject (PrevCommitted {} {})))", k(s), h),
        Res::PrevCancelled(s, h) => format!("(ERes (RReject (PrevCancelled {} {})))", k(s), h),
        Res::ExecRejected => "(ERes (RReject ExecRejected))".into(),
        Res::Panic => "(ERes RPanic)".into(),
    }
}

fn classify(receipt: &TransactionReceipt, ids: &mut Ids) -> Res {
    match &receipt.result {
        TransactionResult::Commit(c) => Res::Commit(matches!(c.outcome, TransactionOutcome::Success(_))),
        TransactionResult::Reject(r) => match &r.reason {
            RejectionReason::TransactionEpochNotYetValid { .. } => Res::NotYetValid,
            RejectionReason::TransactionEpochNoLongerValid { .. } => Res::NoLongerValid,
            RejectionReason::IntentHashPreviouslyCommitted(h) => match h {
                IntentHash::Transaction(h) => Res::PrevCommitted(false, ids.id(h.0)),
                IntentHash::Subintent(h) => Res::PrevCommitted(true, ids.id(h.0)),
            },
            RejectionReason::IntentHashPreviouslyCancelled(h) => match h {
                IntentHash::Transaction(h) => Res::PrevCancelled(false, ids.id(h.0)),
                IntentHash::Subintent(h) => Res::PrevCancelled(true, ids.id(h.0)),
            },
            _ => Res::ExecRejected,
        },
        TransactionResult::Abort(_) => Res::ExecRejected,
    }
}

fn submit(ledger: &mut Ledger, tx: &Tx, ids: &mut Ids) -> Res {
    match &tx.executable {
        None => Res::Invalid,
        Some(ex) => {
            let ex = ex.clone();
            let r = catch(std::panic::AssertUnwindSafe(|| {
                ledger.execute_transaction(ex, ExecutionConfig::for_notarized_transaction(NetworkDefinition::simulator()))
            }));
            match r {
                Ok(receipt) => classify(&receipt, ids),
                Err(_) => Res::Panic,
            }
        }
    }
}

struct Hist {
    steps: Vec<String>,
    committed: BTreeMap<usize, u64>, // oracle: intent id -> expiry
    n_replay_rejected: u64,
    n_commits: u64,
    n_epochs: u64,
    n_partition_rotations: u64,
    failures: Vec<String>,
}

fn do_submit(ledger: &mut Ledger, h: &mut Hist, tx: &Tx, ids: &mut Ids) -> Res {
    let (cur, _, _) = observe(ledger);
    let res = submit(ledger, tx, ids);
    let o = observe(ledger);
    // model input: what execution did
    let oc = match (&res, tx.want) {
        (Res::Commit(true), _) => "ExSuccess",
        (Res::Commit(false), _) => "ExFailure",
        (Res::ExecRejected, _) => "ExReject",
        (_, Want::Success) => "ExSuccess",
        (_, Want::Failure) => "ExFailure",
        (_, Want::Reject) => "ExReject",
    };
    // direct oracle
    if let Res::Commit(ok) = &res {
        for i in &tx.intents {
            if !(i.start <= cur && cur < i.end) {
                h.failures.push(format!("committed at epoch {} outside window [{},{}) of intent {}", cur, i.start, i.end, i.id));
            }
            if let Some(exp) = h.committed.get(&i.id) {
                if cur < *exp {
                    h.failures.push(format!("intent {} (expiry {}) committed again at epoch {}", i.id, exp, cur));
                }
            }
        }
        for i in &tx.intents {
            if !i.sub || *ok {
                h.committed.insert(i.id, i.end);
            }
        }
        h.n_commits += 1;
        let intended = match tx.want {
            Want::Success => *ok,
            Want::Failure => !*ok,
            Want::Reject => false,
        };
        if !intended {
            h.failures.push(format!("harness: transaction intended {:?} committed with success={}", tx.want, ok));
        }
    }
    if matches!(res, Res::PrevCommitted(..)) {
        h.n_replay_rejected += 1;
    }
    if res == Res::Panic {
        h.failures.push(format!("engine panicked on a submitted transaction at epoch {}", cur));
    }
    h.steps.push(format!(
        "(ESubmit {} {}, {}, ({}, {}, {}))",
        coq_list(tx.intents.iter().map(intent_coq)),
        oc,
        res_coq(&res),
        o.0,
        o.1,
        o.2
    ));
    res
}

fn do_next(ledger: &mut Ledger, h: &mut Hist, k: u64) {
    let before = observe(ledger);
    for _ in 0..k {
        let receipt = ledger.advance_to_round(Round::of(1));
        receipt.expect_commit_success();
    }
    let o = observe(ledger);
    if o.0 != before.0 + k {
        h.failures.push(format!("harness: {} round updates moved the epoch from {} to {}", k, before.0, o.0));
    }
    h.n_epochs += k;
    h.n_partition_rotations += (o.1 - before.1) / EPOCHS_PER_PARTITION;
    h.steps.push(format!("(ENext {}, (ERes (RCommit true)), ({}, {}, {}))", k, o.0, o.1, o.2));
}

fn do_sys(ledger: &mut Ledger, h: &mut Hist) {
    let _ = ledger.get_current_epoch();
    let o = observe(ledger);
    h.steps.push(format!("(ESys, (ERes (RCommit true)), ({}, {}, {}))", o.0, o.1, o.2));
}

fn pick_want(rng: &mut Rng) -> Want {
    match rng.below(20) {
        0..=11 => Want::Success,
        12..=16 => Want::Failure,
        _ => Want::Reject,
    }
}

/// expiry choices biased to partition boundaries of the current ring position
fn pick_end(rng: &mut Rng, cur: u64, start_epoch: u64, s: u64, maxr: u64) -> u64 {
    let e = match rng.below(10) {
        0 => cur + 1,
        1 => cur + 2,
        2 | 3 => {
            // a partition boundary +-1
            let k = 1 + rng.below(4);
            start_epoch + k * EPOCHS_PER_PARTITION + rng.below(3) - 1
        }
        4 => s + maxr,
        5 => s + maxr - rng.below(100),
        6 => cur, // already expired
        _ => cur + 1 + rng.below(300),
    };
    e
}

fn history_case(rng: &mut Rng, maxr: u64, nsteps: usize, wrap: bool, report: &mut Report) -> (String, Vec<String>, bool) {
    let mut ledger = new_ledger();
    let validator = ledger.transaction_validator().clone();
    let mut ids = Ids { by_hash: BTreeMap::new() };
    // injected initial state
    let sp = match rng.below(6) {
        0 => PARTITION_RANGE_START,
        1 | 2 => PARTITION_RANGE_END,
        3 => PARTITION_RANGE_END - 1,
        _ => rng.range(PARTITION_RANGE_START as u64, PARTITION_RANGE_END as u64) as u8,
    };
    let start_epoch = 1000 + rng.below(1_000_000);
    let off = match rng.below(5) {
        0 => 0,
        1 | 2 => EPOCHS_PER_PARTITION - 1 - rng.below(3),
        _ => rng.below(EPOCHS_PER_PARTITION),
    };
    let real = read_tracker(&ledger);
    write_tracker(
        &mut ledger,
        TransactionTrackerSubstateV1 { start_epoch, start_partition: sp, ..real.clone() },
    );
    ledger.set_current_epoch(Epoch::of(start_epoch + off));
    let init = observe(&mut ledger);
    let init_coq = format!(
        "(mkState {} (mkTracker {} {} {} {} {}) [])",
        init.0, init.1, init.2, real.partition_range_start_inclusive, real.partition_range_end_inclusive, real.epochs_per_partition
    );
    let mut h = Hist {
        steps: vec![],
        committed: BTreeMap::new(),
        n_replay_rejected: 0,
        n_commits: 0,
        n_epochs: 0,
        n_partition_rotations: 0,
        failures: vec![],
    };
    let mut pool: Vec<Tx> = vec![];
    let mut children: Vec<Child> = vec![];
    let mut disc: u64 = 1;
    let mut remaining_wrap = if wrap { (PARTITION_RANGE_END as u64 - PARTITION_RANGE_START as u64 + 2) * EPOCHS_PER_PARTITION } else { 0 };
    for _ in 0..nsteps {
        let (cur, se, _) = observe(&mut ledger);
        let r = rng.below(100);
        if r < 30 {
            // new V1 transaction
            let s = match rng.below(6) {
                0 => cur + 1 + rng.below(2),
                1 => cur,
                _ => cur.saturating_sub(rng.below(200)),
            };
            let e = pick_end(rng, cur, se, s, maxr);
            disc += 1;
            let tx = build_v1(&validator, &mut ids, disc as u32, s, e, pick_want(rng));
            do_submit(&mut ledger, &mut h, &tx, &mut ids);
            pool.push(tx);
        } else if r < 45 {
            // new V2 transaction with children (new or shared)
            let nchild = rng.range(0, 2) as usize;
            let mut cs = vec![];
            for _ in 0..nchild {
                if !children.is_empty() && rng.chance(1, 2) {
                    cs.push(rng.pick(&children).clone());
                } else {
                    let s = cur.saturating_sub(rng.below(100));
                    let e = pick_end(rng, cur, se, s, maxr).max(s + 1);
                    disc += 1;
                    let c = build_child(&mut ids, disc, s, e);
                    children.push(c.clone());
                    cs.push(c);
                }
            }
            // the same child twice in one transaction is refused structurally; avoid it
            cs.dedup_by_key(|c| c.info.id);
            if cs.len() == 2 && cs[0].info.id == cs[1].info.id {
                cs.pop();
            }
            let s = cur.saturating_sub(rng.below(100));
            let e = pick_end(rng, cur, se, s, maxr);
            disc += 1;
            let tx = build_v2(&validator, &mut ids, disc, s, e, pick_want(rng), &cs);
            do_submit(&mut ledger, &mut h, &tx, &mut ids);
            pool.push(tx);
        } else if r < 75 && !pool.is_empty() {
            // replay (biased to recent transactions)
            let idx = if rng.chance(1, 2) { pool.len() - 1 - rng.usize_below(pool.len().min(3)) } else { rng.usize_below(pool.len()) };
            let tx = pool[idx].clone();
            do_submit(&mut ledger, &mut h, &tx, &mut ids);
        } else if r < 95 {
            let k = match rng.below(10) {
                0 => EPOCHS_PER_PARTITION,
                1 => EPOCHS_PER_PARTITION - 1,
                2 | 3 => (se + EPOCHS_PER_PARTITION - cur).max(1), // exactly to the rotation
                4 => (se + EPOCHS_PER_PARTITION - cur).max(2) - 1, // just before the rotation
                _ => 1 + rng.below(3),
            };
            // the wrap case walks the whole ring (191 partitions x 100 epochs) in large strides
            let k = if wrap && remaining_wrap > 0 { let k2 = k.max(rng.range(700, 1600)).min(remaining_wrap); remaining_wrap -= k2; k2 } else { k };
            do_next(&mut ledger, &mut h, k);
        } else {
            do_sys(&mut ledger, &mut h);
        }
    }
    // final sweep (oracle search): every committed, unexpired transaction is replayed once more
    let (cur, _, _) = observe(&mut ledger);
    let replays: Vec<Tx> = pool
        .iter()
        .filter(|t| t.executable.is_some() && t.intents.iter().any(|i| h.committed.get(&i.id).map_or(false, |e| cur < *e)))
        .take(12)
        .cloned()
        .collect();
    for tx in replays {
        do_submit(&mut ledger, &mut h, &tx, &mut ids);
    }
    if wrap && remaining_wrap > 0 {
        // not enough epoch-change steps were drawn: finish the wrap, then replay what is still effective
        do_next(&mut ledger, &mut h, remaining_wrap);
        let (cur, _, _) = observe(&mut ledger);
        let again: Vec<Tx> = pool
            .iter()
            .filter(|t| t.executable.is_some() && t.intents.iter().any(|i| h.committed.get(&i.id).map_or(false, |e| cur < *e)))
            .take(12)
            .cloned()
            .collect();
        for tx in again {
            do_submit(&mut ledger, &mut h, &tx, &mut ids);
        }
    }
    report.count_n("hist_steps", h.steps.len() as u64);
    report.count_n("hist_commits", h.n_commits);
    report.count_n("hist_replays_rejected", h.n_replay_rejected);
    report.count_n("hist_epoch_changes", h.n_epochs);
    report.count_n("hist_partition_rotations", h.n_partition_rotations);
    if h.n_partition_rotations >= (PARTITION_RANGE_END as u64 - PARTITION_RANGE_START as u64 + 1) {
        report.count("hist_full_ring_wrap_cases");
    }
    let nontrivial = h.n_replay_rejected > 0 && h.n_partition_rotations > 0;
    let term = format!("CHist {} {} {}", maxr, init_coq, coq_list(h.steps.iter().cloned()));
    (term, h.failures, nontrivial)
}

fn main() {
    let args = Args::parse();
    let mut report = Report::new(
        "C07",
        args.seed,
        "3 streams: (unit) random tracker values/epochs vs partition_for_expiry_epoch+advance; (valid) V1/V2 notarized \
         transactions with boundary epoch windows vs the static validators; (hist) LedgerSimulator histories from an injected \
         ring position with commits, failures, rejections, shared subintents, replays and real epoch changes. \
         non-trivial: unit = in-range partition; valid = accepted; hist = at least one replay rejected and one partition rotation",
    );
    let mut cw = CaseWriter::new("RV.Corr.C07_run RV.Model.C07_Tracker", "check");
    let root = Rng::new(args.seed);
    let thorough = args.tier == "thorough";
    let maxr = TransactionValidationConfig::latest().max_epoch_range;
    let validator = TransactionValidator::new_with_latest_config(&NetworkDefinition::simulator());
    // split of the case budget
    let n_hist = if thorough { (args.cases / 60).max(8) } else { (args.cases / 60).max(6) };
    let n_valid = args.cases / 5;
    let n_unit = args.cases.saturating_sub(n_hist + n_valid);
    let mut idx: u64 = 0;
    for _ in 0..n_unit {
        let mut rng = root.fork(idx);
        idx += 1;
        let t = unit_case(&mut rng, &mut report);
        cw.push(t);
    }
    for _ in 0..n_valid {
        let mut rng = root.fork(idx);
        idx += 1;
        let t = valid_case(&mut rng, &validator, maxr, &mut report);
        cw.push(t);
    }
    let mut hist_nontrivial = 0u64;
    for j in 0..n_hist {
        let mut rng = root.fork(idx);
        let case_index = idx as usize;
        idx += 1;
        let wrap = thorough && j == 0 && !args.oracle_only;
        let nsteps = if wrap { 160 } else if thorough { 80 } else { 45 };
        let (term, failures, nontrivial) = history_case(&mut rng, maxr, nsteps, wrap, &mut report);
        report.case(&term, nontrivial);
        if nontrivial {
            hist_nontrivial += 1;
        }
        for f in failures {
            report.oracle_failure(case_index, "", &f, json!({"case": case_index, "history": term.chars().take(4000).collect::<String>()}));
        }
        if j == 0 {
            report.sample(json!({"history_head": term.chars().take(1500).collect::<String>()}));
        }
        cw.push(term);
    }
    report.count_n("hist_nontrivial_cases", hist_nontrivial);
    report.floor("unit_pf_some", (n_unit as u64) / 10);
    report.floor("unit_pf_panic", 1);
    report.floor("valid_accepted", (n_valid as u64) / 10);
    report.floor("valid_refused", (n_valid as u64) / 10);
    report.floor("hist_replays_rejected", n_hist as u64);
    report.floor("hist_partition_rotations", 1);
    if thorough && !args.oracle_only {
        report.floor("hist_full_ring_wrap_cases", 1);
    }
    cw.write(&args.out, args.shards).unwrap();
    report.write(&args.out).unwrap();
}
