//! C07 correspondence harness (model: coq/Model/C07_Tracker.v, evaluation: coq/Corr/C07_run.v).
//!  (i)   unit: random tracker values vs the real partition_for_expiry_epoch / advance;
//!  (ii)  validators: V1/V2 notarized transactions with chosen epoch windows vs header validation,
//!        overall range and nullification expiries of the created executable;
//!  (iii) engine: LedgerSimulator histories from an injected tracker state (start partition near
//!        the ring end, epoch near the partition boundary): notarized V1/V2 transactions that
//!        succeed / fail / are rejected, immediate and delayed replays, shared subintents, real
//!        round-update transactions for every epoch change; the thorough tier adds a full ring wrap.
//! Direct oracle (no model): a plain map of committed intents; a commit of a transaction carrying a
//! committed, unexpired intent, or a commit outside an intent's window, is a property failure.
use radix_common::prelude::*;
use radix_engine::blueprints::transaction_tracker::*;
use radix_engine::errors::RejectionReason;
use radix_engine::system::system_substates::FieldSubstate;
use radix_engine::transaction::*;
use radix_engine::updates::BabylonSettings;
use radix_engine_interface::blueprints::consensus_manager::*;
use radix_engine_interface::prelude::*;
use radix_substate_store_interface::interface::*;
use radix_transactions::model::*;
use radix_transactions::prelude::*;
use radix_transactions::validation::*;
use scrypto_test::prelude::{LedgerSimulator, LedgerSimulatorBuilder, NoExtension};
use radix_substate_store_impls::memory_db::InMemorySubstateDatabase;
use serde_json::json;
use std::collections::BTreeMap;
use vh_common::*;

type Ledger = LedgerSimulator<NoExtension, InMemorySubstateDatabase>;

// ------------------------------------------------------------------------------------------------
// (i) unit cases
// ------------------------------------------------------------------------------------------------
fn tracker_coq(t: &TransactionTrackerSubstateV1) -> String {
    format!(
        "(mkTracker {} {} {} {} {})",
        t.start_epoch, t.start_partition, t.partition_range_start_inclusive, t.partition_range_end_inclusive, t.epochs_per_partition
    )
}

fn unit_case(rng: &mut Rng, report: &mut Report) -> String {
    let plausible = rng.chance(2, 3);
    let (lo, hi, epp) = if plausible {
        (PARTITION_RANGE_START, PARTITION_RANGE_END, EPOCHS_PER_PARTITION)
    } else {
        let lo = rng.below(256) as u8;
        let hi = if rng.chance(4, 5) { rng.range(lo as u64, 255) as u8 } else { rng.below(256) as u8 };
        let epp = *rng.pick(&[0u64, 1, 2, 100, 1000, u64::MAX / 200, u64::MAX / 3, u64::MAX]);
        (lo, hi, epp)
    };
    let sp = if rng.chance(9, 10) && lo <= hi {
        let mid = rng.range(lo as u64, hi as u64) as u8;
        *rng.pick(&[lo, hi, mid])
    } else {
        rng.below(256) as u8
    };
    let start_epoch = match rng.below(10) {
        0 => 0,
        1 => u64::MAX - rng.below(40_000),
        2 => u64::MAX - rng.below(300),
        _ => rng.below(5_000_000),
    };
    let t = TransactionTrackerSubstateV1 {
        start_epoch,
        start_partition: sp,
        partition_range_start_inclusive: lo,
        partition_range_end_inclusive: hi,
        epochs_per_partition: epp,
    };
    let n = (hi as u64).wrapping_sub(lo as u64).wrapping_add(1) & 0x1ff;
    let span = n.saturating_mul(epp);
    let epoch = match rng.below(8) {
        0 => start_epoch.wrapping_sub(1),
        1 => start_epoch,
        2 => start_epoch.saturating_add(span).wrapping_sub(1),
        3 => start_epoch.saturating_add(span),
        4 => start_epoch.saturating_add(epp.saturating_mul(rng.below(n.max(1)))),
        5 => start_epoch.saturating_add(epp.saturating_mul(rng.below(n.max(1)))).wrapping_sub(1),
        6 => rng.next_u64(),
        _ => start_epoch.saturating_add(rng.below(span.max(1))),
    };
    run_unit(t, epoch, report, None)
}

/// runs the real partition_for_expiry_epoch / advance on `t` and returns the Coq case
fn run_unit(t: TransactionTrackerSubstateV1, epoch: u64, report: &mut Report, class: Option<&str>) -> String {
    let (lo, hi) = (t.partition_range_start_inclusive, t.partition_range_end_inclusive);
    if let Some(c) = class {
        report.count(c);
    }
    let t1 = t.clone();
    let pf = catch(std::panic::AssertUnwindSafe(move || t1.partition_for_expiry_epoch(Epoch::of(epoch))));
    let pf_coq = match &pf {
        Ok(Some(p)) => format!("(PSome {})", p),
        Ok(None) => "PNone".to_string(),
        Err(_) => "PPanic".to_string(),
    };
    let mut t2 = t.clone();
    let adv = catch(std::panic::AssertUnwindSafe(move || {
        let d = t2.advance();
        (t2.start_epoch, t2.start_partition, d)
    }));
    let adv_coq = match &adv {
        Ok((se, sp, d)) => format!("(Some ({}, {}, {}))", se, sp, d),
        Err(_) => "None".to_string(),
    };
    report.count(match &pf {
        Ok(Some(_)) => "unit_pf_some",
        Ok(None) => "unit_pf_none",
        Err(_) => "unit_pf_panic",
    });
    if adv.is_err() {
        report.count("unit_advance_panic");
    }
    // direct sanity oracle: a returned partition lies inside the ring
    if let Ok(Some(p)) = pf {
        if p < lo || p > hi {
            report.oracle_failure(0, "", "partition outside the ring", json!({"tracker": tracker_coq(&t), "epoch": epoch}));
        }
    }
    let term = format!("CUnit {} {} {} {}", tracker_coq(&t), epoch, pf_coq, adv_coq);
    report.case(&term, matches!(pf, Ok(Some(_))));
    term
}

/// Deterministic boundary family for the unit stream (identical for every seed): every comparison of
/// partition_for_expiry_epoch / advance at equality and one step on either side, the ring wrap, the
/// first/last partition, and every arithmetic panic.
fn unit_boundary_family(report: &mut Report) -> Vec<String> {
    let mut out = vec![];
    let mk = |se: u64, sp: u8, lo: u8, hi: u8, epp: u64| TransactionTrackerSubstateV1 {
        start_epoch: se,
        start_partition: sp,
        partition_range_start_inclusive: lo,
        partition_range_end_inclusive: hi,
        epochs_per_partition: epp,
    };
    let (lo, hi, epp) = (PARTITION_RANGE_START, PARTITION_RANGE_END, EPOCHS_PER_PARTITION);
    let n = (hi - lo) as u64 + 1;
    // real ring: start partition first / second / middle / last but one / last
    for sp in [lo, lo + 1, 160, hi - 1, hi] {
        for se in [0u64, 1000] {
            let to_wrap = (hi - sp) as u64; // partitions before the index wraps to `lo`
            let mut push = |class: &str, e: u64, out: &mut Vec<String>| out.push(run_unit(mk(se, sp, lo, hi, epp), e, report, Some(class)));
            if se > 0 {
                push("b_unit_below_start", se - 1, &mut out);
            }
            push("b_unit_at_start", se, &mut out);
            push("b_unit_partition_last_epoch", se + epp - 1, &mut out);
            push("b_unit_partition_boundary", se + epp, &mut out);
            push("b_unit_before_index_wrap", se + to_wrap * epp + epp - 1, &mut out);
            if to_wrap + 1 < n {
                push("b_unit_index_wrap", se + (to_wrap + 1) * epp, &mut out);
            }
            push("b_unit_window_last", se + n * epp - 1, &mut out);
            push("b_unit_window_end", se + n * epp, &mut out);
        }
    }
    // a tiny ring (3 partitions of 3 epochs), exhaustively: every start partition x every epoch around the window
    for sp in 10u8..=12 {
        for e in 49u64..=60 {
            out.push(run_unit(mk(50, sp, 10, 12, 3), e, report, Some("b_unit_tiny_ring")));
        }
    }
    // single-partition ring
    for e in 6u64..=13 {
        out.push(run_unit(mk(7, 9, 9, 9, 5), e, report, Some("b_unit_single_partition")));
    }
    // arithmetic edges: u8 partition count overflow (0..=255), empty range, epp 0, u64 overflows, asserts
    out.push(run_unit(mk(5, 0, 0, 255, 100), 5, report, Some("b_unit_panic")));        // 256 partitions: u8 overflow
    out.push(run_unit(mk(5, 0, 0, 254, 100), 5 + 255 * 100 - 1, report, Some("b_unit_u8_limit"))); // 255 partitions: ok
    out.push(run_unit(mk(5, 7, 8, 7, 100), 5, report, Some("b_unit_panic")));           // hi < lo
    out.push(run_unit(mk(5, 65, 65, 255, 0), 5, report, Some("b_unit_epp_zero")));      // empty window, no division
    out.push(run_unit(mk(u64::MAX - 19_100, 65, 65, 255, 100), u64::MAX, report, Some("b_unit_u64_edge"))); // max_excl = u64::MAX+? boundary
    out.push(run_unit(mk(u64::MAX - 19_099, 65, 65, 255, 100), u64::MAX, report, Some("b_unit_panic")));   // start + n*epp overflows
    out.push(run_unit(mk(u64::MAX - 99, 65, 65, 255, 100), u64::MAX - 50, report, Some("b_unit_panic")));   // advance: start + epp overflows
    out.push(run_unit(mk(0, 65, 65, 255, u64::MAX / 100), 1, report, Some("b_unit_panic")));               // n * epp overflows
    out.push(run_unit(mk(100, 60, 65, 255, 100), 150, report, Some("b_unit_sp_outside_ring")));  // below the ring: assert
    out.push(run_unit(mk(100, 255, 65, 200, 100), 150, report, Some("b_unit_sp_outside_ring"))); // above the ring; advance overflows u8
    out.push(run_unit(mk(100, 201, 65, 200, 100), 100 + 135 * 100, report, Some("b_unit_sp_outside_ring")));
    out
}

// ------------------------------------------------------------------------------------------------
// transactions
// ------------------------------------------------------------------------------------------------
#[derive(Clone, Copy, Debug, PartialEq)]
enum Want {
    Success,
    Failure,
    Reject,
}

#[derive(Clone, Debug)]
struct IntentInfo {
    sub: bool,
    id: usize,
    start: u64,
    end: u64,
}
fn intent_coq(i: &IntentInfo) -> String {
    format!("(mkIntent {} {} {} {})", if i.sub { "KSub" } else { "KTx" }, i.id, i.start, i.end)
}

#[derive(Clone)]
struct Tx {
    intents: Vec<IntentInfo>,
    want: Want,
    executable: Option<ExecutableTransaction>, // None = refused by the static validator
    overall: Option<(u64, u64, Vec<u64>)>,
}

struct Ids {
    by_hash: BTreeMap<Hash, usize>,
}
impl Ids {
    fn id(&mut self, h: Hash) -> usize {
        let n = self.by_hash.len();
        *self.by_hash.entry(h).or_insert(n)
    }
}

fn notary() -> Ed25519PrivateKey {
    Ed25519PrivateKey::from_u64(1337).unwrap()
}

fn root_manifest_v1(want: Want) -> TransactionManifestV1 {
    match want {
        Want::Success => ManifestBuilder::new().lock_fee_from_faucet().build(),
        Want::Failure => ManifestBuilder::new()
            .lock_fee_from_faucet()
            .assert_worktop_contains(XRD, dec!(1))
            .build(),
        Want::Reject => ManifestBuilder::new().drop_auth_zone_proofs().build(),
    }
}

fn build_v1(validator: &TransactionValidator, ids: &mut Ids, nonce: u32, start: u64, end: u64, want: Want) -> Tx {
    let tx = TransactionV1Builder::new()
        .header(TransactionHeaderV1 {
            network_id: NetworkDefinition::simulator().id,
            start_epoch_inclusive: Epoch::of(start),
            end_epoch_exclusive: Epoch::of(end),
            nonce,
            notary_public_key: notary().public_key().into(),
            notary_is_signatory: false,
            tip_percentage: 0,
        })
        .manifest(root_manifest_v1(want))
        .notarize(&notary())
        .build();
    let prepared = tx.prepare(validator.preparation_settings()).expect("prepare v1");
    let id = ids.id(prepared.transaction_intent_hash().0);
    let intents = vec![IntentInfo { sub: false, id, start, end }];
    match tx.prepare_and_validate(validator) {
        Ok(v) => {
            let ex = v.create_executable();
            let overall = overall_of(&ex);
            Tx { intents, want, executable: Some(ex), overall }
        }
        Err(_) => Tx { intents, want, executable: None, overall: None },
    }
}

fn overall_of(ex: &ExecutableTransaction) -> Option<(u64, u64, Vec<u64>)> {
    let r = ex.overall_epoch_range()?;
    let exp = ex
        .intent_hash_nullifications()
        .iter()
        .map(|n| match n {
            IntentHashNullification::TransactionIntent { expiry_epoch, .. } => expiry_epoch.number(),
            IntentHashNullification::Subintent { expiry_epoch, .. } => expiry_epoch.number(),
            _ => u64::MAX,
        })
        .collect();
    Some((r.start_epoch_inclusive.number(), r.end_epoch_exclusive.number(), exp))
}

#[derive(Clone)]
struct Child {
    signed: SignedPartialTransactionV2,
    info: IntentInfo,
}

fn build_child(ids: &mut Ids, disc: u64, start: u64, end: u64) -> Child {
    let mut b = PartialTransactionV2Builder::new()
        .intent_header(IntentHeaderV2 {
            network_id: NetworkDefinition::simulator().id,
            start_epoch_inclusive: Epoch::of(start),
            end_epoch_exclusive: Epoch::of(end),
            min_proposer_timestamp_inclusive: None,
            max_proposer_timestamp_exclusive: None,
            intent_discriminator: disc,
        })
        .manifest_builder(|b| b.yield_to_parent(()));
    let h = b.subintent_hash();
    let signed = b.build_minimal();
    Child { signed, info: IntentInfo { sub: true, id: ids.id(h.0), start, end } }
}

fn build_v2(
    validator: &TransactionValidator,
    ids: &mut Ids,
    disc: u64,
    start: u64,
    end: u64,
    want: Want,
    children: &[Child],
) -> Tx {
    let mut b = TransactionV2Builder::new()
        .intent_header(IntentHeaderV2 {
            network_id: NetworkDefinition::simulator().id,
            start_epoch_inclusive: Epoch::of(start),
            end_epoch_exclusive: Epoch::of(end),
            min_proposer_timestamp_inclusive: None,
            max_proposer_timestamp_exclusive: None,
            intent_discriminator: disc,
        })
        .transaction_header(TransactionHeaderV2 {
            notary_public_key: notary().public_key().into(),
            notary_is_signatory: false,
            tip_basis_points: 0,
        });
    for (i, c) in children.iter().enumerate() {
        b = b.add_signed_child(format!("c{}", i), c.signed.clone());
    }
    let n = children.len();
    let mut b = b.manifest_builder(|mut m| {
        if want != Want::Reject {
            m = m.lock_fee_from_faucet();
        }
        for i in 0..n {
            m = m.yield_to_child(format!("c{}", i), ());
        }
        if want == Want::Failure {
            m = m.assert_worktop_contains(XRD, dec!(1));
        }
        m
    });
    let root_hash = b.intent_hash();
    let tx = b.notarize(&notary()).build_minimal_no_validate();
    let mut intents = vec![IntentInfo { sub: false, id: ids.id(root_hash.0), start, end }];
    intents.extend(children.iter().map(|c| c.info.clone()));
    match tx.prepare_and_validate(validator) {
        Ok(v) => {
            let ex = v.create_executable();
            let overall = overall_of(&ex);
            Tx { intents, want, executable: Some(ex), overall }
        }
        Err(_) => Tx { intents, want, executable: None, overall: None },
    }
}

// ------------------------------------------------------------------------------------------------
// (ii) validator cases
// ------------------------------------------------------------------------------------------------
fn pick_window(rng: &mut Rng, base: u64, maxr: u64) -> (u64, u64) {
    let s = match rng.below(8) {
        0 => 0,
        1 => u64::MAX - rng.below(maxr + 3),
        _ => base.saturating_add(rng.below(50)).saturating_sub(rng.below(50)),
    };
    let e = match rng.below(10) {
        0 => s,
        1 => s.saturating_sub(1 + rng.below(3)),
        2 => s.saturating_add(maxr),
        3 => s.saturating_add(maxr + 1),
        4 => s.saturating_add(1),
        5 => s.saturating_add(maxr - 1),
        6 => u64::MAX,
        _ => s.saturating_add(1 + rng.below(maxr)),
    };
    (s, e)
}

fn valid_case(rng: &mut Rng, validator: &TransactionValidator, maxr: u64, report: &mut Report) -> String {
    let mut ids = Ids { by_hash: BTreeMap::new() };
    let base = 1000 + rng.below(100_000);
    let tx = if rng.chance(1, 2) {
        let (s, e) = pick_window(rng, base, maxr);
        build_v1(validator, &mut ids, rng.next_u32(), s, e, Want::Success)
    } else {
        let nchild = rng.range(0, 2) as usize;
        let mut children = vec![];
        for _ in 0..nchild {
            let (s, e) = if rng.chance(2, 3) {
                let s = base.saturating_sub(rng.below(30));
                (s, s + 1 + rng.below(maxr))
            } else {
                pick_window(rng, base, maxr)
            };
            children.push(build_child(&mut ids, rng.next_u64(), s, e));
        }
        let (s, e) = if rng.chance(2, 3) { (base, base + 1 + rng.below(maxr)) } else { pick_window(rng, base, maxr) };
        build_v2(validator, &mut ids, rng.next_u64(), s, e, Want::Success, &children)
    };
    run_valid(&tx, maxr, report, None)
}

fn run_valid(tx: &Tx, maxr: u64, report: &mut Report, class: Option<&str>) -> String {
    if let Some(c) = class {
        report.count(c);
        report.count(if tx.executable.is_some() { "b_valid_accepted" } else { "b_valid_refused" });
    }
    report.count(if tx.executable.is_some() { "valid_accepted" } else { "valid_refused" });
    // direct oracle: accepted => every intent window is non-empty and at most maxr long, and the overall
    // range is the intersection
    if let Some((s, e, exp)) = &tx.overall {
        let ok = tx.intents.iter().all(|i| i.start < i.end && i.end - i.start <= maxr && i.start <= *s && *e <= i.end)
            && s < e
            && exp.len() == tx.intents.len()
            && exp.iter().zip(tx.intents.iter()).all(|(x, i)| *x == i.end);
        if !ok {
            report.oracle_failure(0, "", "validator accepted an epoch window outside the limits", json!({"intents": tx.intents.iter().map(intent_coq).collect::<Vec<_>>() }));
        }
    }
    let o = match &tx.overall {
        Some((s, e, exp)) => format!("(Some ({}, {}, {}))", s, e, coq_list(exp.iter().map(|x| x.to_string()))),
        None => "None".to_string(),
    };
    let term = format!("CValid {} {} {}", maxr, coq_list(tx.intents.iter().map(intent_coq)), o);
    report.case(&term, tx.executable.is_some());
    term
}


/// Deterministic boundary family for the static validators (identical for every seed).
fn valid_boundary_family(validator: &TransactionValidator, maxr: u64, report: &mut Report) -> Vec<String> {
    let mut out = vec![];
    let s = 1000u64;
    // V1 header: empty / reversed / shortest / longest / one too long; u64 edge of start + max_epoch_range
    let v1: Vec<(&str, u64, u64)> = vec![
        ("b_valid_v1_empty_window", s, s),
        ("b_valid_v1_reversed_window", s, s - 1),
        ("b_valid_v1_one_epoch", s, s + 1),
        ("b_valid_v1_max_minus_1", s, s + maxr - 1),
        ("b_valid_v1_max", s, s + maxr),
        ("b_valid_v1_max_plus_1", s, s + maxr + 1),
        ("b_valid_v1_from_zero", 0, 1),
        ("b_valid_v1_u64_edge_ok", u64::MAX - maxr, u64::MAX),
        ("b_valid_v1_u64_edge_overflow", u64::MAX - maxr + 1, u64::MAX),
    ];
    for (i, (class, a, b)) in v1.iter().enumerate() {
        let mut ids = Ids { by_hash: BTreeMap::new() };
        let tx = build_v1(validator, &mut ids, 7000 + i as u32, *a, *b, Want::Success);
        out.push(run_valid(&tx, maxr, report, Some(class)));
    }
    // V2: root window [1000, 1010) against one or two children
    let v2: Vec<(&str, (u64, u64), Vec<(u64, u64)>)> = vec![
        ("b_valid_v2_no_child", (s, s + 10), vec![]),
        ("b_valid_v2_overlap_one_epoch_high", (s, s + 10), vec![(s + 9, s + 20)]),
        ("b_valid_v2_touching_high", (s, s + 10), vec![(s + 10, s + 20)]),
        ("b_valid_v2_overlap_one_epoch_low", (s, s + 10), vec![(s - 10, s + 1)]),
        ("b_valid_v2_touching_low", (s, s + 10), vec![(s - 10, s)]),
        ("b_valid_v2_child_inside", (s, s + 10), vec![(s + 3, s + 5)]),
        ("b_valid_v2_child_too_long", (s, s + 10), vec![(s, s + maxr + 1)]),
        ("b_valid_v2_child_max", (s, s + 10), vec![(s, s + maxr)]),
        ("b_valid_v2_child_empty", (s, s + 10), vec![(s + 2, s + 2)]),
        ("b_valid_v2_root_too_long", (s, s + maxr + 1), vec![(s, s + 5)]),
        ("b_valid_v2_two_children_disjoint", (s, s + 10), vec![(s, s + 4), (s + 4, s + 9)]),
        ("b_valid_v2_two_children_common_epoch", (s, s + 10), vec![(s, s + 5), (s + 4, s + 9)]),
    ];
    for (i, (class, root, kids)) in v2.iter().enumerate() {
        let mut ids = Ids { by_hash: BTreeMap::new() };
        let children: Vec<Child> = kids.iter().enumerate().map(|(j, (a, b))| build_child(&mut ids, 9000 + (i * 10 + j) as u64, *a, *b)).collect();
        let tx = build_v2(validator, &mut ids, 8000 + i as u64, root.0, root.1, Want::Success, &children);
        out.push(run_valid(&tx, maxr, report, Some(class)));
    }
    out
}

// ------------------------------------------------------------------------------------------------
// (iii) engine histories
// ------------------------------------------------------------------------------------------------
fn new_ledger() -> Ledger {
    let genesis = BabylonSettings::test_default().with_consensus_manager_config(
        ConsensusManagerConfig::test_default().with_epoch_change_condition(EpochChangeCondition {
            min_round_count: 1,
            max_round_count: 1,
            target_duration_millis: 0,
        }),
    );
    LedgerSimulatorBuilder::new()
        .with_custom_protocol(|b| b.configure_babylon(|_| genesis).from_bootstrap_to_latest())
        .without_kernel_trace()
        .build()
}

fn read_tracker(ledger: &Ledger) -> TransactionTrackerSubstateV1 {
    let t: FieldSubstate<TransactionTrackerSubstate> = ledger
        .substate_db()
        .get_substate(TRANSACTION_TRACKER, MAIN_BASE_PARTITION, TransactionTrackerField::TransactionTracker)
        .expect("tracker");
    t.into_payload().into_v1()
}

fn write_tracker(ledger: &mut Ledger, t: TransactionTrackerSubstateV1) {
    let updates = StateUpdates::empty().set_substate(
        TRANSACTION_TRACKER,
        MAIN_BASE_PARTITION,
        TransactionTrackerField::TransactionTracker,
        FieldSubstate::new_unlocked_field(TransactionTrackerSubstate::V1(t)),
    );
    ledger.substate_db_mut().commit(&updates.create_database_updates());
}

/// number of status records per tracker partition (non-empty partitions only), read from the database
fn store_counts(ledger: &Ledger) -> String {
    let mut v = vec![];
    for p in PARTITION_RANGE_START..=PARTITION_RANGE_END {
        let n = ledger.substate_db().list_raw_values(TRANSACTION_TRACKER, PartitionNumber(p), None::<SubstateKey>).count();
        if n > 0 {
            v.push(format!("({}, {})", p, n));
        }
    }
    coq_list(v.into_iter())
}
fn obs_str(ledger: &Ledger, o: &(u64, u64, u8)) -> String {
    format!("({}, {}, {}, {})", o.0, o.1, o.2, store_counts(ledger))
}

fn observe(ledger: &mut Ledger) -> (u64, u64, u8) {
    let c = ledger.get_consensus_manager_state().epoch.number();
    let t = read_tracker(ledger);
    (c, t.start_epoch, t.start_partition)
}

#[derive(Clone, Debug, PartialEq)]
enum Res {
    Invalid,
    Commit(bool),
    NotYetValid,
    NoLongerValid,
    PrevCommitted(bool, usize),
    PrevCancelled(bool, usize),
    ExecRejected,
    Panic,
}
fn res_coq(r: &Res) -> String {
    let k = |s: &bool| if *s { "KSub" } else { "KTx" };
    match r {
        Res::Invalid => "EInvalid".into(),
        Res::Commit(b) => format!("(ERes (RCommit {}))", coq_bool(*b)),
        Res::NotYetValid => "(ERes (RReject NotYetValid))".into(),
        Res::NoLongerValid => "(ERes (RReject NoLongerValid))".into(),
        Res::PrevCommitted(s, h) => format!("(ERes (RReject (PrevCommitted {} {})))", k(s), h),
        Res::PrevCancelled(s, h) => format!("(ERes (RReject (PrevCancelled {} {})))", k(s), h),
        Res::ExecRejected => "(ERes (RReject ExecRejected))".into(),
        Res::Panic => "(ERes RPanic)".into(),
    }
}

fn classify(receipt: &TransactionReceipt, ids: &mut Ids) -> Res {
    match &receipt.result {
        TransactionResult::Commit(c) => Res::Commit(matches!(c.outcome, TransactionOutcome::Success(_))),
        TransactionResult::Reject(r) => match &r.reason {
            RejectionReason::TransactionEpochNotYetValid { .. } => Res::NotYetValid,
            RejectionReason::TransactionEpochNoLongerValid { .. } => Res::NoLongerValid,
            RejectionReason::IntentHashPreviouslyCommitted(h) => match h {
                IntentHash::Transaction(h) => Res::PrevCommitted(false, ids.id(h.0)),
                IntentHash::Subintent(h) => Res::PrevCommitted(true, ids.id(h.0)),
            },
            RejectionReason::IntentHashPreviouslyCancelled(h) => match h {
                IntentHash::Transaction(h) => Res::PrevCancelled(false, ids.id(h.0)),
                IntentHash::Subintent(h) => Res::PrevCancelled(true, ids.id(h.0)),
            },
            _ => Res::ExecRejected,
        },
        TransactionResult::Abort(_) => Res::ExecRejected,
    }
}

fn submit(ledger: &mut Ledger, tx: &Tx, ids: &mut Ids) -> Res {
    match &tx.executable {
        None => Res::Invalid,
        Some(ex) => {
            let ex = ex.clone();
            let r = catch(std::panic::AssertUnwindSafe(|| {
                ledger.execute_transaction(ex, ExecutionConfig::for_notarized_transaction(NetworkDefinition::simulator()))
            }));
            match r {
                Ok(receipt) => classify(&receipt, ids),
                Err(_) => Res::Panic,
            }
        }
    }
}

struct Hist {
    steps: Vec<String>,
    committed: BTreeMap<usize, u64>, // oracle: intent id -> expiry
    n_replay_rejected: u64,
    n_commits: u64,
    n_epochs: u64,
    n_partition_rotations: u64,
    failures: Vec<String>,
}

fn do_submit(ledger: &mut Ledger, h: &mut Hist, tx: &Tx, ids: &mut Ids) -> Res {
    let (cur, _, _) = observe(ledger);
    let res = submit(ledger, tx, ids);
    let o = observe(ledger);
    // model input: what execution did
    let oc = match (&res, tx.want) {
        (Res::Commit(true), _) => "ExSuccess",
        (Res::Commit(false), _) => "ExFailure",
        (Res::ExecRejected, _) => "ExReject",
        (_, Want::Success) => "ExSuccess",
        (_, Want::Failure) => "ExFailure",
        (_, Want::Reject) => "ExReject",
    };
    // direct oracle
    if let Res::Commit(ok) = &res {
        for i in &tx.intents {
            if !(i.start <= cur && cur < i.end) {
                h.failures.push(format!("committed at epoch {} outside window [{},{}) of intent {}", cur, i.start, i.end, i.id));
            }
            if let Some(exp) = h.committed.get(&i.id) {
                if cur < *exp {
                    h.failures.push(format!("intent {} (expiry {}) committed again at epoch {}", i.id, exp, cur));
                }
            }
        }
        for i in &tx.intents {
            if !i.sub || *ok {
                h.committed.insert(i.id, i.end);
            }
        }
        h.n_commits += 1;
        let intended = match tx.want {
            Want::Success => *ok,
            Want::Failure => !*ok,
            Want::Reject => false,
        };
        if !intended {
            h.failures.push(format!("harness: transaction intended {:?} committed with success={}", tx.want, ok));
        }
    }
    if matches!(res, Res::PrevCommitted(..)) {
        h.n_replay_rejected += 1;
    }
    if res == Res::Panic {
        h.failures.push(format!("engine panicked on a submitted transaction at epoch {}", cur));
    }
    h.steps.push(format!(
        "(ESubmit {} {}, {}, {})",
        coq_list(tx.intents.iter().map(intent_coq)),
        oc,
        res_coq(&res),
        obs_str(ledger, &o)
    ));
    res
}

fn do_next(ledger: &mut Ledger, h: &mut Hist, k: u64) {
    let before = observe(ledger);
    for _ in 0..k {
        let receipt = ledger.advance_to_round(Round::of(1));
        receipt.expect_commit_success();
    }
    let o = observe(ledger);
    if o.0 != before.0 + k {
        h.failures.push(format!("harness: {} round updates moved the epoch from {} to {}", k, before.0, o.0));
    }
    h.n_epochs += k;
    h.n_partition_rotations += (o.1 - before.1) / EPOCHS_PER_PARTITION;
    h.steps.push(format!("(ENext {}, (ERes (RCommit true)), {})", k, obs_str(ledger, &o)));
}

fn do_sys(ledger: &mut Ledger, h: &mut Hist) {
    let _ = ledger.get_current_epoch();
    let o = observe(ledger);
    h.steps.push(format!("(ESys, (ERes (RCommit true)), {})", obs_str(ledger, &o)));
}

fn pick_want(rng: &mut Rng) -> Want {
    match rng.below(20) {
        0..=11 => Want::Success,
        12..=16 => Want::Failure,
        _ => Want::Reject,
    }
}

/// expiry choices biased to partition boundaries of the current ring position
fn pick_end(rng: &mut Rng, cur: u64, start_epoch: u64, s: u64, maxr: u64) -> u64 {
    let e = match rng.below(10) {
        0 => cur + 1,
        1 => cur + 2,
        2 | 3 => {
            // a partition boundary +-1
            let k = 1 + rng.below(4);
            start_epoch + k * EPOCHS_PER_PARTITION + rng.below(3) - 1
        }
        4 => s + maxr,
        5 => s + maxr - rng.below(100),
        6 => cur, // already expired
        _ => cur + 1 + rng.below(300),
    };
    e
}

// ------------------------------------------------------------------------------------------------
// scripted boundary histories (identical for every seed)
// ------------------------------------------------------------------------------------------------
struct Script {
    ledger: Ledger,
    validator: TransactionValidator,
    ids: Ids,
    h: Hist,
    disc: u64,
    init_coq: String,
}

impl Script {
    fn new(sp: u8, start_epoch: u64, off: u64) -> Script {
        let mut ledger = new_ledger();
        let validator = ledger.transaction_validator().clone();
        let real = read_tracker(&ledger);
        write_tracker(&mut ledger, TransactionTrackerSubstateV1 { start_epoch, start_partition: sp, ..real.clone() });
        ledger.set_current_epoch(Epoch::of(start_epoch + off));
        let init = observe(&mut ledger);
        let init_coq = format!(
            "(mkState {} (mkTracker {} {} {} {} {}) [])",
            init.0, init.1, init.2, real.partition_range_start_inclusive, real.partition_range_end_inclusive, real.epochs_per_partition
        );
        Script {
            ledger,
            validator,
            ids: Ids { by_hash: BTreeMap::new() },
            h: Hist { steps: vec![], committed: BTreeMap::new(), n_replay_rejected: 0, n_commits: 0, n_epochs: 0, n_partition_rotations: 0, failures: vec![] },
            disc: 500,
            init_coq,
        }
    }
    fn v1(&mut self, s: u64, e: u64, want: Want) -> Tx {
        self.disc += 1;
        build_v1(&self.validator, &mut self.ids, self.disc as u32, s, e, want)
    }
    fn child(&mut self, s: u64, e: u64) -> Child {
        self.disc += 1;
        build_child(&mut self.ids, self.disc, s, e)
    }
    fn v2(&mut self, s: u64, e: u64, want: Want, cs: &[Child]) -> Tx {
        self.disc += 1;
        build_v2(&self.validator, &mut self.ids, self.disc, s, e, want, cs)
    }
    /// submit and count the class when the receipt is the expected one (a class that is not reached
    /// fails its floor)
    fn submit(&mut self, report: &mut Report, class: &str, tx: &Tx, expect: &str) {
        let r = do_submit(&mut self.ledger, &mut self.h, tx, &mut self.ids);
        let got = match r {
            Res::Invalid => "invalid",
            Res::Commit(true) => "success",
            Res::Commit(false) => "failure",
            Res::NotYetValid => "not_yet_valid",
            Res::NoLongerValid => "no_longer_valid",
            Res::PrevCommitted(false, _) => "prev_tx",
            Res::PrevCommitted(true, _) => "prev_sub",
            Res::PrevCancelled(..) => "cancelled",
            Res::ExecRejected => "exec_rejected",
            Res::Panic => "panic",
        };
        if got == expect {
            report.count(class);
        } else {
            report.count("b_hist_unexpected_receipt");
            report.notes.push(format!("scripted step {}: expected {} got {}", class, expect, got));
        }
    }
    fn next(&mut self, report: &mut Report, class: &str, k: u64, expect_sp: u8) {
        do_next(&mut self.ledger, &mut self.h, k);
        let o = observe(&mut self.ledger);
        if o.2 == expect_sp {
            report.count(class);
        } else {
            report.count("b_hist_unexpected_receipt");
            report.notes.push(format!("scripted step {}: expected start partition {} got {}", class, expect_sp, o.2));
        }
    }
    fn finish(self, maxr: u64) -> (String, Vec<String>) {
        (format!("CHist {} {} {}", maxr, self.init_coq, coq_list(self.h.steps.iter().cloned())), self.h.failures)
    }
}

fn scripted_histories(maxr: u64, report: &mut Report) -> Vec<(String, Vec<String>)> {
    let (lo, hi, epp) = (PARTITION_RANGE_START, PARTITION_RANGE_END, EPOCHS_PER_PARTITION);
    let mut out = vec![];
    // ---- A: start partition = last partition of the ring, two epochs before the rotation ----
    {
        let s0 = 1000u64;
        let mut sc = Script::new(hi, s0, epp - 2); // epoch 1098
        let c = s0 + epp - 2;
        let t1 = sc.v1(c, s0 + epp, Want::Success); // expiry = first epoch of the next partition (index wraps)
        let t2 = sc.v1(c - 8, s0 + epp - 1, Want::Failure); // expiry = last epoch of the start partition
        let t3 = sc.v1(c + 1, c + 7, Want::Success);
        let tr = sc.v1(c, s0 + epp, Want::Reject);
        sc.submit(report, "b_hist_commit_expiry_on_partition_boundary", &t1, "success");
        sc.submit(report, "b_hist_commit_failure_expiry_last_epoch_of_partition", &t2, "failure");
        sc.submit(report, "b_hist_not_yet_valid_one_epoch_early", &t3, "not_yet_valid");
        sc.submit(report, "b_hist_replay_immediate", &t1, "prev_tx");
        sc.submit(report, "b_hist_replay_of_failed_transaction", &t2, "prev_tx");
        sc.submit(report, "b_hist_rejected_execution", &tr, "exec_rejected");
        sc.submit(report, "b_hist_rejected_not_recorded", &tr, "exec_rejected");
        sc.next(report, "b_hist_epoch_change_without_rotation", 1, hi); // 1099
        sc.submit(report, "b_hist_expired_exactly_at_expiry", &t2, "no_longer_valid");
        sc.submit(report, "b_hist_replay_in_last_valid_epoch", &t1, "prev_tx");
        sc.submit(report, "b_hist_valid_exactly_at_start", &t3, "success");
        sc.next(report, "b_hist_rotation_with_index_wrap", 1, lo); // 1100: partition 255 recycled
        sc.submit(report, "b_hist_expired_exactly_at_expiry", &t1, "no_longer_valid");
        sc.submit(report, "b_hist_replay_after_rotation", &t3, "prev_tx");
        let n0 = s0 + epp;
        let t4 = sc.v1(n0, n0 + maxr, Want::Success);
        let t5 = sc.v1(n0, n0 + maxr + 1, Want::Success);
        sc.submit(report, "b_hist_max_window_committed", &t4, "success");
        sc.submit(report, "b_hist_window_too_long_refused", &t5, "invalid");
        sc.submit(report, "b_hist_replay_max_window", &t4, "prev_tx");
        // subintents: not recorded when the transaction fails, recorded on success
        let c1 = sc.child(n0, n0 + epp);
        let r1 = sc.v2(n0, n0 + 10, Want::Failure, &[c1.clone()]);
        let r2 = sc.v2(n0, n0 + 10, Want::Success, &[c1.clone()]);
        let r3 = sc.v2(n0, n0 + 10, Want::Success, &[c1.clone()]);
        sc.submit(report, "b_hist_v2_failure_with_subintent", &r1, "failure");
        sc.submit(report, "b_hist_subintent_reusable_after_failure", &r2, "success");
        sc.submit(report, "b_hist_subintent_replay_rejected", &r3, "prev_sub");
        sc.submit(report, "b_hist_failed_root_replay_rejected", &r1, "prev_tx");
        do_sys(&mut sc.ledger, &mut sc.h);
        sc.next(report, "b_hist_epoch_changes_inside_partition", epp - 1, lo); // 1199
        sc.submit(report, "b_hist_root_expired", &r3, "no_longer_valid");
        let t6 = sc.v1(n0 + epp - 1, n0 + epp + 1, Want::Success);
        sc.submit(report, "b_hist_commit_last_epoch_before_rotation", &t6, "success");
        sc.next(report, "b_hist_rotation_without_index_wrap", 1, lo + 1); // 1200: partition 65 recycled
        sc.submit(report, "b_hist_replay_across_rotation", &t6, "prev_tx");
        sc.submit(report, "b_hist_replay_max_window", &t4, "prev_tx");
        sc.next(report, "b_hist_epoch_change_without_rotation", 1, lo + 1); // 1201
        sc.submit(report, "b_hist_expired_exactly_at_expiry", &t6, "no_longer_valid");
        out.push(sc.finish(maxr));
    }
    // ---- B: start partition = last but one: two rotations, the second one wraps the index ----
    {
        let s0 = 70_000u64;
        let mut sc = Script::new(hi - 1, s0, epp - 1);
        let c = s0 + epp - 1;
        let ta = sc.v1(c, s0 + 2 * epp + 50, Want::Success); // lands in partition lo (index wrap inside the lookup)
        let tb = sc.v1(c, s0 + 2 * epp, Want::Failure); // expiry exactly at the second rotation epoch
        sc.submit(report, "b_hist_commit_into_wrapped_partition", &ta, "success");
        sc.submit(report, "b_hist_commit_into_wrapped_partition", &tb, "failure");
        sc.next(report, "b_hist_rotation_without_index_wrap", 1, hi);
        sc.submit(report, "b_hist_replay_after_rotation", &ta, "prev_tx");
        sc.next(report, "b_hist_epoch_changes_inside_partition", epp - 1, hi);
        sc.submit(report, "b_hist_replay_in_last_valid_epoch", &tb, "prev_tx");
        sc.next(report, "b_hist_rotation_with_index_wrap", 1, lo);
        sc.submit(report, "b_hist_record_survives_wrapping_rotation", &ta, "prev_tx");
        sc.submit(report, "b_hist_expired_exactly_at_expiry", &tb, "no_longer_valid");
        sc.next(report, "b_hist_epoch_changes_inside_partition", 49, lo);
        sc.submit(report, "b_hist_replay_in_last_valid_epoch", &ta, "prev_tx");
        sc.next(report, "b_hist_epoch_change_without_rotation", 1, lo);
        sc.submit(report, "b_hist_expired_exactly_at_expiry", &ta, "no_longer_valid");
        out.push(sc.finish(maxr));
    }
    // ---- C: first partition, first epoch of the partition ----
    {
        let s0 = 5000u64;
        let mut sc = Script::new(lo, s0, 0);
        let t = sc.v1(s0, s0 + 1, Want::Success);
        let u = sc.v1(s0 - 1, s0, Want::Success); // window ended exactly now
        sc.submit(report, "b_hist_one_epoch_window", &t, "success");
        sc.submit(report, "b_hist_window_just_ended", &u, "no_longer_valid");
        sc.submit(report, "b_hist_replay_immediate", &t, "prev_tx");
        sc.next(report, "b_hist_epoch_change_without_rotation", 1, lo);
        sc.submit(report, "b_hist_expired_exactly_at_expiry", &t, "no_longer_valid");
        out.push(sc.finish(maxr));
    }
    out
}

fn history_case(rng: &mut Rng, maxr: u64, nsteps: usize, wrap: bool, report: &mut Report) -> (String, Vec<String>, bool) {
    let mut ledger = new_ledger();
    let validator = ledger.transaction_validator().clone();
    let mut ids = Ids { by_hash: BTreeMap::new() };
    // injected initial state
    let sp = match rng.below(6) {
        0 => PARTITION_RANGE_START,
        1 | 2 => PARTITION_RANGE_END,
        3 => PARTITION_RANGE_END - 1,
        _ => rng.range(PARTITION_RANGE_START as u64, PARTITION_RANGE_END as u64) as u8,
    };
    let start_epoch = 1000 + rng.below(1_000_000);
    let off = match rng.below(5) {
        0 => 0,
        1 | 2 => EPOCHS_PER_PARTITION - 1 - rng.below(3),
        _ => rng.below(EPOCHS_PER_PARTITION),
    };
    let real = read_tracker(&ledger);
    write_tracker(
        &mut ledger,
        TransactionTrackerSubstateV1 { start_epoch, start_partition: sp, ..real.clone() },
    );
    ledger.set_current_epoch(Epoch::of(start_epoch + off));
    let init = observe(&mut ledger);
    let init_coq = format!(
        "(mkState {} (mkTracker {} {} {} {} {}) [])",
        init.0, init.1, init.2, real.partition_range_start_inclusive, real.partition_range_end_inclusive, real.epochs_per_partition
    );
    let mut h = Hist {
        steps: vec![],
        committed: BTreeMap::new(),
        n_replay_rejected: 0,
        n_commits: 0,
        n_epochs: 0,
        n_partition_rotations: 0,
        failures: vec![],
    };
    let mut pool: Vec<Tx> = vec![];
    let mut children: Vec<Child> = vec![];
    let mut disc: u64 = 1;
    let mut remaining_wrap = if wrap { (PARTITION_RANGE_END as u64 - PARTITION_RANGE_START as u64 + 2) * EPOCHS_PER_PARTITION } else { 0 };
    for _ in 0..nsteps {
        let (cur, se, _) = observe(&mut ledger);
        let r = rng.below(100);
        if r < 30 {
            // new V1 transaction
            let s = match rng.below(6) {
                0 => cur + 1 + rng.below(2),
                1 => cur,
                _ => cur.saturating_sub(rng.below(200)),
            };
            let e = pick_end(rng, cur, se, s, maxr);
            disc += 1;
            let tx = build_v1(&validator, &mut ids, disc as u32, s, e, pick_want(rng));
            do_submit(&mut ledger, &mut h, &tx, &mut ids);
            pool.push(tx);
        } else if r < 45 {
            // new V2 transaction with children (new or shared)
            let nchild = rng.range(0, 2) as usize;
            let mut cs = vec![];
            for _ in 0..nchild {
                if !children.is_empty() && rng.chance(1, 2) {
                    cs.push(rng.pick(&children).clone());
                } else {
                    let s = cur.saturating_sub(rng.below(100));
                    let e = pick_end(rng, cur, se, s, maxr).max(s + 1);
                    disc += 1;
                    let c = build_child(&mut ids, disc, s, e);
                    children.push(c.clone());
                    cs.push(c);
                }
            }
            // the same child twice in one transaction is refused structurally; avoid it
            cs.dedup_by_key(|c| c.info.id);
            if cs.len() == 2 && cs[0].info.id == cs[1].info.id {
                cs.pop();
            }
            let s = cur.saturating_sub(rng.below(100));
            let e = pick_end(rng, cur, se, s, maxr);
            disc += 1;
            let tx = build_v2(&validator, &mut ids, disc, s, e, pick_want(rng), &cs);
            do_submit(&mut ledger, &mut h, &tx, &mut ids);
            pool.push(tx);
        } else if r < 75 && !pool.is_empty() {
            // replay (biased to recent transactions)
            let idx = if rng.chance(1, 2) { pool.len() - 1 - rng.usize_below(pool.len().min(3)) } else { rng.usize_below(pool.len()) };
            let tx = pool[idx].clone();
            do_submit(&mut ledger, &mut h, &tx, &mut ids);
        } else if r < 95 {
            let k = match rng.below(10) {
                0 => EPOCHS_PER_PARTITION,
                1 => EPOCHS_PER_PARTITION - 1,
                2 | 3 => (se + EPOCHS_PER_PARTITION - cur).max(1), // exactly to the rotation
                4 => (se + EPOCHS_PER_PARTITION - cur).max(2) - 1, // just before the rotation
                _ => 1 + rng.below(3),
            };
            // the wrap case walks the whole ring (191 partitions x 100 epochs) in large strides
            let k = if wrap && remaining_wrap > 0 { let k2 = k.max(rng.range(700, 1600)).min(remaining_wrap); remaining_wrap -= k2; k2 } else { k };
            do_next(&mut ledger, &mut h, k);
        } else {
            do_sys(&mut ledger, &mut h);
        }
    }
    // final sweep (oracle search): every committed, unexpired transaction is replayed once more
    let (cur, _, _) = observe(&mut ledger);
    let replays: Vec<Tx> = pool
        .iter()
        .filter(|t| t.executable.is_some() && t.intents.iter().any(|i| h.committed.get(&i.id).map_or(false, |e| cur < *e)))
        .take(12)
        .cloned()
        .collect();
    for tx in replays {
        do_submit(&mut ledger, &mut h, &tx, &mut ids);
    }
    if wrap && remaining_wrap > 0 {
        // not enough epoch-change steps were drawn: finish the wrap, then replay what is still effective
        do_next(&mut ledger, &mut h, remaining_wrap);
        let (cur, _, _) = observe(&mut ledger);
        let again: Vec<Tx> = pool
            .iter()
            .filter(|t| t.executable.is_some() && t.intents.iter().any(|i| h.committed.get(&i.id).map_or(false, |e| cur < *e)))
            .take(12)
            .cloned()
            .collect();
        for tx in again {
            do_submit(&mut ledger, &mut h, &tx, &mut ids);
        }
    }
    report.count_n("hist_steps", h.steps.len() as u64);
    report.count_n("hist_commits", h.n_commits);
    report.count_n("hist_replays_rejected", h.n_replay_rejected);
    report.count_n("hist_epoch_changes", h.n_epochs);
    report.count_n("hist_partition_rotations", h.n_partition_rotations);
    if h.n_partition_rotations >= (PARTITION_RANGE_END as u64 - PARTITION_RANGE_START as u64 + 1) {
        report.count("hist_full_ring_wrap_cases");
    }
    let nontrivial = h.n_replay_rejected > 0 && h.n_partition_rotations > 0;
    let term = format!("CHist {} {} {}", maxr, init_coq, coq_list(h.steps.iter().cloned()));
    (term, h.failures, nontrivial)
}

fn main() {
    let args = Args::parse();
    let mut report = Report::new(
        "C07",
        args.seed,
        "3 streams: (unit) random tracker values/epochs vs partition_for_expiry_epoch+advance; (valid) V1/V2 notarized \
         transactions with boundary epoch windows vs the static validators; (hist) LedgerSimulator histories from an injected \
         ring position with commits, failures, rejections, shared subintents, replays and real epoch changes. \
         non-trivial: unit = in-range partition; valid = accepted; hist = at least one replay rejected and one partition rotation",
    );
    let mut cw = CaseWriter::new("RV.Corr.C07_run RV.Model.C07_Tracker", "check");
    let root = Rng::new(args.seed);
    let thorough = args.tier == "thorough";
    let maxr = TransactionValidationConfig::latest().max_epoch_range;
    let validator = TransactionValidator::new_with_latest_config(&NetworkDefinition::simulator());
    // split of the case budget
    let n_hist = if thorough { (args.cases / 60).max(8) } else { (args.cases / 60).max(6) };
    let n_valid = args.cases / 5;
    let n_unit = args.cases.saturating_sub(n_hist + n_valid);
    let mut idx: u64 = 0;
    // ---- deterministic boundary families (identical for every seed), before the random streams ----
    for term in unit_boundary_family(&mut report) {
        cw.push(term);
        idx += 1;
    }
    for term in valid_boundary_family(&validator, maxr, &mut report) {
        cw.push(term);
        idx += 1;
    }
    for (term, failures) in scripted_histories(maxr, &mut report) {
        report.case(&term, true);
        for f in failures {
            report.oracle_failure(idx as usize, "", &f, json!({"scripted_history": term.chars().take(4000).collect::<String>()}));
        }
        cw.push(term);
        idx += 1;
    }
    let boundary_classes: Vec<String> = report.distribution.keys().filter(|k| k.starts_with("b_") && k.as_str() != "b_hist_unexpected_receipt").cloned().collect();
    // every class of the list below must be produced on every run (a class that stops being generated,
    // or whose scripted receipt changes, fails the run)
    const REQUIRED: &[&str] = &[
        "b_unit_below_start", "b_unit_at_start", "b_unit_partition_last_epoch", "b_unit_partition_boundary",
        "b_unit_before_index_wrap", "b_unit_index_wrap", "b_unit_window_last", "b_unit_window_end",
        "b_unit_tiny_ring", "b_unit_single_partition", "b_unit_panic", "b_unit_u8_limit", "b_unit_epp_zero",
        "b_unit_u64_edge", "b_unit_sp_outside_ring",
        "b_valid_v1_empty_window", "b_valid_v1_reversed_window", "b_valid_v1_one_epoch", "b_valid_v1_max_minus_1",
        "b_valid_v1_max", "b_valid_v1_max_plus_1", "b_valid_v1_from_zero", "b_valid_v1_u64_edge_ok",
        "b_valid_v1_u64_edge_overflow", "b_valid_v2_no_child", "b_valid_v2_overlap_one_epoch_high",
        "b_valid_v2_touching_high", "b_valid_v2_overlap_one_epoch_low", "b_valid_v2_touching_low",
        "b_valid_v2_child_inside", "b_valid_v2_child_too_long", "b_valid_v2_child_max", "b_valid_v2_child_empty",
        "b_valid_v2_root_too_long", "b_valid_v2_two_children_disjoint", "b_valid_v2_two_children_common_epoch",
        "b_valid_accepted", "b_valid_refused",
        "b_hist_commit_expiry_on_partition_boundary", "b_hist_commit_failure_expiry_last_epoch_of_partition",
        "b_hist_not_yet_valid_one_epoch_early", "b_hist_replay_immediate", "b_hist_replay_of_failed_transaction",
        "b_hist_rejected_execution", "b_hist_rejected_not_recorded", "b_hist_epoch_change_without_rotation",
        "b_hist_expired_exactly_at_expiry", "b_hist_replay_in_last_valid_epoch", "b_hist_valid_exactly_at_start",
        "b_hist_rotation_with_index_wrap", "b_hist_replay_after_rotation", "b_hist_max_window_committed",
        "b_hist_window_too_long_refused", "b_hist_replay_max_window", "b_hist_v2_failure_with_subintent",
        "b_hist_subintent_reusable_after_failure", "b_hist_subintent_replay_rejected",
        "b_hist_failed_root_replay_rejected", "b_hist_epoch_changes_inside_partition", "b_hist_root_expired",
        "b_hist_commit_last_epoch_before_rotation", "b_hist_rotation_without_index_wrap",
        "b_hist_replay_across_rotation", "b_hist_commit_into_wrapped_partition",
        "b_hist_record_survives_wrapping_rotation", "b_hist_one_epoch_window", "b_hist_window_just_ended",
    ];
    for c in REQUIRED {
        report.floor(c, 1);
    }
    report.floor("b_hist_expired_exactly_at_expiry", 6);
    report.floor("b_unit_tiny_ring", 36);
    report.extra.insert("boundary_classes".into(), json!(boundary_classes));
    for _ in 0..n_unit {
        let mut rng = root.fork(idx);
        idx += 1;
        let t = unit_case(&mut rng, &mut report);
        cw.push(t);
    }
    for _ in 0..n_valid {
        let mut rng = root.fork(idx);
        idx += 1;
        let t = valid_case(&mut rng, &validator, maxr, &mut report);
        cw.push(t);
    }
    let mut hist_nontrivial = 0u64;
    for j in 0..n_hist {
        let mut rng = root.fork(idx);
        let case_index = idx as usize;
        idx += 1;
        let wrap = thorough && j == 0 && !args.oracle_only;
        let nsteps = if wrap { 160 } else if thorough { 80 } else { 45 };
        let (term, failures, nontrivial) = history_case(&mut rng, maxr, nsteps, wrap, &mut report);
        report.case(&term, nontrivial);
        if nontrivial {
            hist_nontrivial += 1;
        }
        for f in failures {
            report.oracle_failure(case_index, "", &f, json!({"case": case_index, "history": term.chars().take(4000).collect::<String>()}));
        }
        if j == 0 {
            report.sample(json!({"history_head": term.chars().take(1500).collect::<String>()}));
        }
        cw.push(term);
    }
    report.count_n("hist_nontrivial_cases", hist_nontrivial);
    report.floor("unit_pf_some", (n_unit as u64) / 10);
    report.floor("unit_pf_panic", 1);
    report.floor("valid_accepted", (n_valid as u64) / 10);
    report.floor("valid_refused", (n_valid as u64) / 10);
    report.floor("hist_replays_rejected", n_hist as u64);
    report.floor("hist_partition_rotations", 1);
    if thorough && !args.oracle_only {
        report.floor("hist_full_ring_wrap_cases", 1);
    }
    cw.write(&args.out, args.shards).unwrap();
    report.write(&args.out).unwrap();
}
