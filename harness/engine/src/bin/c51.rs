//! C51 correspondence harness: lock-then-attack sequences on real objects, executed as transactions on
//! LedgerSimulator: metadata entries (set / remove / lock) and the owner role (set_owner_role /
//! lock_owner_role) of a fresh resource whose owner role is updatable by an owner badge, and the
//! component-royalty entries (set_royalty / lock_royalty) of a fresh Scrypto component; callers with
//! and without the owner badge(s). After every transaction the entry substates (value + lock
//! status), the owner-role field (rule, updater, lock status) are read back.
//! (Key-value entries of blueprints — non-fungible tombstones — are exercised by the C43 harness.)
//! The Coq model (coq/Model/C51_Locked.v) is evaluated on the same sequences.
//! Direct oracle: ghost set of locked items from committed lock calls; any later change of a locked
//! item, or a committed write/remove/lock on it, is a failure.
use radix_engine::object_modules::metadata::*;
use radix_engine::object_modules::role_assignment::*;
use radix_engine::object_modules::royalty::*;
use radix_engine::system::system_db_reader::*;
use radix_engine::system::system_substates::*;
use scrypto_test::prelude::*;
use serde_json::json;
use std::collections::BTreeSet;
use vh_common::*;

const NKEYS: u64 = 4;
const METHODS: [&str; 2] = ["free_method", "paid_method"];
const ROYALTY_DIR: &str = "/repo/radix-engine-tests/assets/blueprints/target/wasm32-unknown-unknown/release";

#[derive(Clone, Copy, PartialEq, Eq, Debug)]
enum Kind {
    Metadata,
    Royalty,
}
#[derive(Clone, Copy, PartialEq, Eq, Debug)]
enum SysOp {
    Write(u64),
    Remove,
    Lock,
}
#[derive(Clone, PartialEq, Eq, Debug)]
enum Op {
    Cell(Kind, u64, SysOp),
    SetOwner(usize), // new owner rule: require(badge i)
    LockOwner,
    ReservedRolePath(usize), // RoleAssignment.set(Main, "_owner_", require(badge i))
    OpenSetter,              // RoleAssignment.set(Metadata, "metadata_setter", allow_all)
}
#[derive(Clone, PartialEq, Eq, Debug)]
struct Obs {
    meta: Vec<(Option<u64>, bool)>,
    royalty: Vec<(Option<u64>, bool)>,
    owner_rule: usize,
    owner_updater: &'static str,
    owner_locked: bool,
}

struct World {
    ledger: DefaultLedgerSimulator,
    account: ComponentAddress,
    pk: Secp256k1PublicKey,
    badges: Vec<ResourceAddress>,
    royalty_package: Option<PackageAddress>,
}

impl World {
    fn new() -> World {
        let mut ledger = LedgerSimulatorBuilder::new().build();
        let (pk, _, account) = ledger.new_account(false);
        let badges = (0..3).map(|_| ledger.create_fungible_resource(dec!(100), 0, account)).collect();
        let royalty_package = match (
            std::fs::read(format!("{}/royalty.wasm", ROYALTY_DIR)),
            std::fs::read(format!("{}/royalty.rpd", ROYALTY_DIR)),
        ) {
            (Ok(code), Ok(rpd)) => {
                let def: PackageDefinition = manifest_decode::<ManifestPackageDefinition>(&rpd).expect("rpd decodes").try_into_typed().expect("rpd converts");
                Some(ledger.publish_package_simple((code, def)))
            }
            _ => None,
        };
        World { ledger, account, pk, badges, royalty_package }
    }
    /// The object under attack: a resource or an account (different native blueprints, same metadata and
    /// role-assignment modules); owner role updatable by badge 0 or fixed to it (= locked from creation);
    /// optionally metadata entries that are created locked (k3 with a value, k2 empty).
    fn new_object(&mut self, kind: u64, fixed_owner: bool, locked_at_creation: bool) -> GlobalAddress {
        let rule = rule!(require(self.badges[0]));
        let owner = if fixed_owner { OwnerRole::Fixed(rule) } else { OwnerRole::Updatable(rule) };
        if kind == 0 {
            let md = if locked_at_creation {
                metadata! { init { "k3" => 7u64, locked; "k1" => 3u64, updatable; } }
            } else {
                metadata!()
            };
            let manifest = ManifestBuilder::new()
                .lock_fee_from_faucet()
                .create_fungible_resource(owner, true, 0, FungibleResourceRoles::default(), md, None)
                .build();
            let receipt = self.ledger.execute_manifest(manifest, vec![]);
            receipt.expect_commit(true).new_resource_addresses()[0].into()
        } else {
            let manifest = ManifestBuilder::new().lock_fee_from_faucet().new_account_advanced(owner, None).build();
            let receipt = self.ledger.execute_manifest(manifest, vec![]);
            receipt.expect_commit(true).new_component_addresses()[0].into()
        }
    }
    fn new_component(&mut self) -> Option<ComponentAddress> {
        let pkg = self.royalty_package?;
        let manifest = ManifestBuilder::new()
            .lock_fee_from_faucet()
            .call_function(pkg, "RoyaltyTest", "create_component_with_royalty_enabled", manifest_args!())
            .build();
        let receipt = self.ledger.execute_manifest(manifest, vec![]);
        Some(receipt.expect_commit(true).new_component_addresses()[0])
    }
    fn owner_rule_index(&self, r: &AccessRule) -> usize {
        for (i, b) in self.badges.iter().enumerate() {
            if r == &rule!(require(*b)) {
                return i;
            }
        }
        panic!("unexpected owner rule {:?}", r)
    }
    fn observe(&self, res: GlobalAddress, comp: Option<ComponentAddress>) -> Obs {
        let db = self.ledger.substate_db();
        let reader = SystemDatabaseReader::new(db);
        let mpart = reader.get_partition_of_collection(res.as_node_id(), ModuleId::Metadata, MetadataCollection::EntryKeyValue.collection_index()).unwrap();
        let meta = (0..NKEYS)
            .map(|k| {
                let sub: Option<KeyValueEntrySubstate<MetadataEntryEntryPayload>> =
                    db.get_substate(res.as_node_id(), mpart, SubstateKey::Map(scrypto_encode(&format!("k{}", k)).unwrap()));
                match sub {
                    None => (None, false),
                    Some(s) => {
                        let locked = s.is_locked();
                        let v = s.into_value().map(|p| match p.fully_update_and_into_latest_version() {
                            MetadataValue::U64(x) => x,
                            other => panic!("unexpected metadata value {:?}", other),
                        });
                        (v, locked)
                    }
                }
            })
            .collect();
        let royalty = match comp {
            None => vec![],
            Some(c) => {
                let rpart = reader
                    .get_partition_of_collection(c.as_node_id(), ModuleId::Royalty, ComponentRoyaltyCollection::MethodAmountKeyValue.collection_index())
                    .unwrap();
                METHODS
                    .iter()
                    .map(|m| {
                        let sub: Option<KeyValueEntrySubstate<ComponentRoyaltyMethodAmountEntryPayload>> =
                            db.get_substate(c.as_node_id(), rpart, SubstateKey::Map(scrypto_encode(&m.to_string()).unwrap()));
                        match sub {
                            None => (None, false),
                            Some(s) => {
                                let locked = s.is_locked();
                                let v = s.into_value().map(|p| match p.fully_update_and_into_latest_version() {
                                    RoyaltyAmount::Free => 0,
                                    RoyaltyAmount::Xrd(d) => d.to_string().parse::<u64>().unwrap(),
                                    RoyaltyAmount::Usd(_) => panic!("usd royalty"),
                                });
                                (v, locked)
                            }
                        }
                    })
                    .collect()
            }
        };
        let owner: FieldSubstate<RoleAssignmentOwnerFieldPayload> = db
            .get_substate(
                res.as_node_id(),
                ROLE_ASSIGNMENT_BASE_PARTITION.at_offset(ROLE_ASSIGNMENT_FIELDS_PARTITION_OFFSET).unwrap(),
                SubstateKey::Field(0u8),
            )
            .expect("owner role field");
        let owner_locked = matches!(owner.lock_status(), LockStatus::Locked);
        let entry = owner.into_payload().fully_update_and_into_latest_version().owner_role_entry;
        Obs {
            meta,
            royalty,
            owner_rule: self.owner_rule_index(&entry.rule),
            owner_updater: match entry.updater {
                OwnerRoleUpdater::None => "UNone",
                OwnerRoleUpdater::Owner => "UOwner",
                OwnerRoleUpdater::Object => "UObject",
            },
            owner_locked,
        }
    }
    fn exec(&mut self, res: GlobalAddress, comp: Option<ComponentAddress>, proofs: &[usize], op: &Op) -> String {
        let mut b = ManifestBuilder::new().lock_fee_from_faucet();
        for p in proofs {
            b = b.create_proof_from_account_of_amount(self.account, self.badges[*p], dec!(1));
        }
        b = match op {
            Op::Cell(Kind::Metadata, k, SysOp::Write(v)) => b.set_metadata(res, format!("k{}", k), MetadataValue::U64(*v)),
            Op::Cell(Kind::Metadata, k, SysOp::Remove) => b.set_metadata(res, format!("k{}", k), None::<MetadataValue>),
            Op::Cell(Kind::Metadata, k, SysOp::Lock) => b.lock_metadata(res, format!("k{}", k)),
            Op::Cell(Kind::Royalty, k, SysOp::Write(v)) => {
                b.set_component_royalty(comp.unwrap(), METHODS[*k as usize], if *v == 0 { RoyaltyAmount::Free } else { RoyaltyAmount::Xrd(Decimal::from(*v)) })
            }
            Op::Cell(Kind::Royalty, k, SysOp::Lock) => b.lock_component_royalty(comp.unwrap(), METHODS[*k as usize]),
            Op::Cell(Kind::Royalty, _, SysOp::Remove) => unreachable!("royalty entries cannot be removed"),
            Op::SetOwner(i) => b.set_owner_role(res, rule!(require(self.badges[*i]))),
            Op::LockOwner => b.lock_owner_role(res),
            Op::ReservedRolePath(i) => b.set_role(res, ModuleId::Main, "_owner_", rule!(require(self.badges[*i]))),
            Op::OpenSetter => b.set_role(res, ModuleId::Metadata, "metadata_setter", AccessRule::AllowAll),
        };
        let receipt = self.ledger.execute_manifest(b.build(), [NonFungibleGlobalId::from_public_key(self.pk)]);
        match &receipt.result {
            TransactionResult::Commit(c) => match &c.outcome {
                TransactionOutcome::Success(_) => "Ok".into(),
                TransactionOutcome::Failure(e) => format!(
                    "(Fail {})",
                    match e {
                        RuntimeError::SystemError(SystemError::KeyValueEntryLocked) | RuntimeError::SystemError(SystemError::FieldLocked(..)) => "ELocked",
                        RuntimeError::SystemModuleError(SystemModuleError::AuthError(AuthError::Unauthorized(_))) => "EUnauthorized",
                        other => {
                            if std::env::var("C51_DEBUG").is_ok() {
                                eprintln!("EOther: {:?}", other);
                            }
                            "EOther"
                        }
                    }
                ),
            },
            other => panic!("not committed: {:?}", other),
        }
    }
}

fn opt_coq(v: &(Option<u64>, bool)) -> String {
    format!("(mkcell {} {})", coq_option(v.0.map(|x| x.to_string())), coq_bool(v.1))
}
fn obs_coq(o: &Obs) -> String {
    format!(
        "(mkobs {} {} {} {} {})",
        coq_list(o.meta.iter().map(opt_coq)),
        coq_list(o.royalty.iter().map(opt_coq)),
        o.owner_rule,
        o.owner_updater,
        coq_bool(o.owner_locked)
    )
}
fn op_coq(o: &Op) -> String {
    let so = |s: &SysOp| match s {
        SysOp::Write(v) => format!("(SWrite {})", v),
        SysOp::Remove => "SRemove".to_string(),
        SysOp::Lock => "SLock".to_string(),
    };
    match o {
        Op::Cell(Kind::Metadata, k, s) => format!("(OCell (KMetadata, {}) {})", k, so(s)),
        Op::Cell(Kind::Royalty, k, s) => format!("(OCell (KRoyalty, {}) {})", k, so(s)),
        Op::SetOwner(i) => format!("(OSetOwner {})", i),
        Op::LockOwner => "OLockOwner".into(),
        Op::ReservedRolePath(i) => format!("(OReservedRolePath {})", i),
        Op::OpenSetter => "OAuthConfig".into(),
    }
}

struct Step {
    proofs: Vec<usize>,
    auth: bool,
    op: Op,
    out: String,
    obs: Obs,
}
struct Case {
    init: Obs,
    steps: Vec<Step>,
}

type Script = (u64, bool, bool, Vec<(Vec<usize>, Op)>); // object kind, fixed owner, metadata locked at creation, calls

fn run_case(w: &mut World, rng: &mut Rng, len: usize, script: Option<Script>) -> Case {
    let (kind, fixed_owner, locked_at_creation) = match &script {
        Some((k, f, l, _)) => (*k, *f, *l),
        None => (rng.below(3) / 2, rng.chance(1, 5), rng.chance(1, 3)), // 2/3 resources, 1/3 accounts
    };
    let res = w.new_object(kind, fixed_owner, locked_at_creation);
    let comp = w.new_component();
    let init = w.observe(res, comp);
    let mut obs = init.clone();
    let mut steps = Vec::new();
    let hot = rng.below(NKEYS);
    let mut setter_open = false;
    let n = script.as_ref().map(|s| s.3.len()).unwrap_or(len);
    for step_no in 0..n {
        let r = rng.below(100);
        let op = if let Some(sc) = &script {
            sc.3[step_no].1.clone()
        } else if r < 52 || comp.is_none() && r < 78 {
            let k = if rng.chance(1, 2) { hot } else { rng.below(NKEYS) };
            let s = match rng.below(10) {
                0..=4 => SysOp::Write(rng.below(1000)),
                5 | 6 => SysOp::Remove,
                _ => SysOp::Lock,
            };
            Op::Cell(Kind::Metadata, k, s)
        } else if r < 78 {
            let s = if rng.chance(1, 3) { SysOp::Lock } else { SysOp::Write(rng.below(5)) };
            Op::Cell(Kind::Royalty, rng.below(METHODS.len() as u64), s)
        } else if r < 90 {
            Op::SetOwner(rng.usize_below(3))
        } else if r < 95 {
            Op::LockOwner
        } else if r < 98 {
            Op::ReservedRolePath(rng.usize_below(3))
        } else {
            Op::OpenSetter
        };
        // callers: mostly the holder of the current owner badge, sometimes nobody, sometimes everything
        let proofs: Vec<usize> = if let Some(sc) = &script {
            sc.3[step_no].0.clone()
        } else {
            match rng.below(10) {
                0 | 1 => vec![],
                2 => vec![rng.usize_below(3)],
                3 => vec![0, 1, 2],
                _ => vec![obs.owner_rule],
            }
        };
        let sat_owner = proofs.contains(&obs.owner_rule);
        let auth = match &op {
            Op::Cell(Kind::Royalty, ..) => true, // royalty_setter / royalty_locker are allow_all
            Op::Cell(Kind::Metadata, _, SysOp::Write(_)) | Op::Cell(Kind::Metadata, _, SysOp::Remove) => sat_owner || setter_open,
            _ => sat_owner,
        };
        let out = w.exec(res, comp, &proofs, &op);
        if op == Op::OpenSetter && out == "Ok" {
            setter_open = true;
        }
        obs = w.observe(res, comp);
        steps.push(Step { proofs, auth, op, out, obs: obs.clone() });
    }
    Case { init, steps }
}

/// Deterministic boundary family (identical for every seed)
fn boundary_scripts() -> Vec<(&'static str, Script)> {
    use SysOp::*;
    let m = |k: u64, s: SysOp| Op::Cell(Kind::Metadata, k, s);
    let ry = |k: u64, s: SysOp| Op::Cell(Kind::Royalty, k, s);
    let meta: Vec<(Vec<usize>, Op)> = vec![
        // write, remove, write again of a pre-existing key; lock by nobody / a stranger / the owner
        (vec![0], m(0, Write(5))),
        (vec![0], m(0, Remove)),
        (vec![0], m(0, Write(6))),
        (vec![], m(0, Lock)),
        (vec![1], m(0, Lock)),
        (vec![0], m(0, Lock)),
        (vec![0], m(0, Write(7))),
        (vec![0], m(0, Remove)),
        (vec![0], m(0, Lock)),
        (vec![0, 1, 2], m(0, Write(7))),
        (vec![], m(0, Write(7))),
        // locking an entry that was never set, and one that was set and removed
        (vec![0], m(1, Lock)),
        (vec![0], m(1, Write(1))),
        (vec![0], m(1, Remove)),
        (vec![0], m(2, Write(1))),
        (vec![0], m(2, Remove)),
        (vec![0], m(2, Lock)),
        (vec![0], m(2, Write(2))),
        // another path: the owner opens the metadata_setter role to everybody; locks still hold
        (vec![], Op::OpenSetter),
        (vec![0], Op::OpenSetter),
        (vec![], m(0, Write(9))),
        (vec![], m(0, Remove)),
        (vec![], m(3, Write(9))),
        (vec![], m(3, Remove)),
        (vec![], m(3, Write(8))),
        (vec![], m(3, Lock)),
        (vec![0], m(3, Lock)),
        (vec![], m(3, Write(1))),
        (vec![], m(3, Remove)),
    ];
    let owner_updatable: Vec<(Vec<usize>, Op)> = vec![
        (vec![], Op::SetOwner(1)),
        (vec![1], Op::SetOwner(1)),
        (vec![0], Op::SetOwner(1)),
        (vec![0], Op::SetOwner(2)),
        (vec![1], Op::SetOwner(1)),
        (vec![1], Op::ReservedRolePath(2)),
        (vec![0, 1, 2], Op::ReservedRolePath(2)),
        (vec![0], Op::LockOwner),
        (vec![], Op::LockOwner),
        (vec![1], Op::LockOwner),
        (vec![1], Op::SetOwner(0)),
        (vec![0, 1, 2], Op::SetOwner(0)),
        (vec![1], Op::LockOwner),
        (vec![0, 1, 2], Op::LockOwner),
        (vec![0, 1, 2], Op::ReservedRolePath(0)),
        (vec![1], m(0, Write(1))),
        (vec![0], m(0, Write(2))),
    ];
    let owner_fixed: Vec<(Vec<usize>, Op)> = vec![
        (vec![0], Op::SetOwner(1)),
        (vec![0], Op::LockOwner),
        (vec![0, 1, 2], Op::SetOwner(1)),
        (vec![0], Op::ReservedRolePath(1)),
        (vec![0], m(0, Write(1))),
        (vec![0], m(0, Lock)),
        (vec![0], m(0, Write(2))),
    ];
    let created_locked: Vec<(Vec<usize>, Op)> = vec![
        (vec![0], m(3, Write(1))),
        (vec![0], m(3, Remove)),
        (vec![0], m(3, Lock)),
        (vec![0, 1, 2], m(3, Write(1))),
        (vec![0], m(1, Write(4))),
        (vec![0], m(1, Lock)),
        (vec![0], m(1, Write(5))),
    ];
    let royalty: Vec<(Vec<usize>, Op)> = vec![
        (vec![], ry(0, Write(0))),
        (vec![], ry(1, Write(1))),
        (vec![], ry(1, Write(0))),
        (vec![], ry(1, Write(3))),
        (vec![], ry(1, Lock)),
        (vec![], ry(1, Write(2))),
        (vec![], ry(1, Lock)),
        (vec![0, 1, 2], ry(1, Write(2))),
        (vec![0], ry(0, Lock)),
        (vec![], ry(0, Write(1))),
        (vec![], ry(0, Lock)),
    ];
    vec![
        ("metadata_resource", (0, false, false, meta.clone())),
        ("metadata_account", (1, false, false, meta)),
        ("owner_updatable_resource", (0, false, false, owner_updatable.clone())),
        ("owner_updatable_account", (1, false, false, owner_updatable)),
        ("owner_fixed_resource", (0, true, false, owner_fixed.clone())),
        ("owner_fixed_account", (1, true, false, owner_fixed)),
        ("metadata_created_locked", (0, false, true, created_locked)),
        ("royalty", (0, false, false, royalty)),
    ]
}

fn oracle(c: &Case) -> Vec<String> {
    let mut fails = Vec::new();
    let mut locked_meta: BTreeSet<u64> = BTreeSet::new();
    let mut locked_roy: BTreeSet<u64> = BTreeSet::new();
    let mut owner_locked = false;
    let mut before = c.init.clone();
    for (i, s) in c.steps.iter().enumerate() {
        let ok = s.out == "Ok";
        for k in &locked_meta {
            if s.obs.meta[*k as usize] != before.meta[*k as usize] {
                fails.push(format!("step {}: locked metadata entry k{} changed from {:?} to {:?} by {:?} with proofs {:?}", i, k, before.meta[*k as usize], s.obs.meta[*k as usize], s.op, s.proofs));
            }
        }
        for k in &locked_roy {
            if s.obs.royalty[*k as usize] != before.royalty[*k as usize] {
                fails.push(format!("step {}: locked royalty entry {} changed by {:?}", i, METHODS[*k as usize], s.op));
            }
        }
        if owner_locked && (s.obs.owner_rule != before.owner_rule || s.obs.owner_updater != before.owner_updater || !s.obs.owner_locked) {
            fails.push(format!("step {}: locked owner role changed by {:?} with proofs {:?}", i, s.op, s.proofs));
        }
        match &s.op {
            Op::Cell(Kind::Metadata, k, so) => {
                if ok && locked_meta.contains(k) {
                    fails.push(format!("step {}: {:?} on locked metadata entry k{} committed", i, so, k));
                }
                if ok && *so == SysOp::Lock {
                    locked_meta.insert(*k);
                    if !s.obs.meta[*k as usize].1 {
                        fails.push(format!("step {}: committed lock did not lock k{}", i, k));
                    }
                }
            }
            Op::Cell(Kind::Royalty, k, so) => {
                if ok && locked_roy.contains(k) {
                    fails.push(format!("step {}: {:?} on locked royalty entry committed", i, so));
                }
                if ok && *so == SysOp::Lock {
                    locked_roy.insert(*k);
                }
            }
            Op::ReservedRolePath(_) => {
                if ok {
                    fails.push(format!("step {}: role-assignment set on the reserved owner role key committed (proofs {:?})", i, s.proofs));
                }
            }
            Op::OpenSetter => {}
            Op::SetOwner(_) | Op::LockOwner => {
                if ok && owner_locked {
                    fails.push(format!("step {}: {:?} on a locked owner role committed (proofs {:?})", i, s.op, s.proofs));
                }
                if ok && s.op == Op::LockOwner {
                    owner_locked = true;
                }
            }
        }
        before = s.obs.clone();
    }
    fails
}

fn main() {
    let args = Args::parse();
    let mut report = Report::new(
        "C51",
        args.seed,
        "per case a fresh resource or account (owner role updatable by a badge, or fixed = locked from creation; metadata roles = owner; \
         on a third of the resources metadata entries created locked) and a fresh royalty-enabled component: \
         10..40 calls of metadata set/remove/lock over 4 keys (one hot), set_royalty/lock_royalty over 2 methods, set_owner_role / \
         lock_owner_role, by callers proving the current owner badge, no badge, a random badge or all badges; \
         non-trivial = a committed lock followed by at least one refused write on the locked item; distinct by canonical text",
    );
    let mut cw = CaseWriter::new("RV.Corr.C51_run RV.Model.C51_Locked", "check");
    let root = Rng::new(args.seed);
    let mut w = World::new();
    if w.royalty_package.is_none() {
        report.count("royalty_package_missing");
    }
    let bf = boundary_scripts();
    for i in 0..args.cases.max(bf.len() + 4) {
        let mut rng = root.fork(i as u64);
        let len = rng.range(10, 40) as usize;
        let case = if i < bf.len() {
            report.count(&format!("bf.{}", bf[i].0));
            run_case(&mut w, &mut rng, 0, Some(bf[i].1.clone()))
        } else {
            run_case(&mut w, &mut rng, len, None)
        };
        let mut refused_locked = false;
        for s in &case.steps {
            let name = match &s.op {
                Op::Cell(Kind::Metadata, _, so) => format!("metadata.{:?}", so).split('(').next().unwrap().to_string(),
                Op::Cell(Kind::Royalty, _, so) => format!("royalty.{:?}", so).split('(').next().unwrap().to_string(),
                Op::SetOwner(_) => "owner.Set".to_string(),
                Op::LockOwner => "owner.Lock".to_string(),
                Op::ReservedRolePath(_) => "owner.ReservedPath".to_string(),
                Op::OpenSetter => "auth.OpenSetter".to_string(),
            };
            report.count(&format!("{}.{}", name, s.out.trim_matches(|c| c == '(' || c == ')').replace("Fail ", "")));
            if s.out == "(Fail ELocked)" {
                refused_locked = true;
                report.count("refused_on_locked");
            }
        }
        let canon = case.steps.iter().map(|s| format!("{:?}{}=>{}", s.proofs, op_coq(&s.op), s.out)).collect::<Vec<_>>().join(";");
        report.case(&canon, refused_locked);
        for what in oracle(&case) {
            report.oracle_failure(i, "", &what, json!({"steps": case.steps.iter().map(|s| format!("{:?} {} => {} ; {}", s.proofs, op_coq(&s.op), s.out, obs_coq(&s.obs))).collect::<Vec<_>>()}));
        }
        if i < 2 {
            report.sample(json!({"steps": case.steps.iter().take(12).map(|s| format!("{:?} {} => {}", s.proofs, op_coq(&s.op), s.out)).collect::<Vec<_>>()}));
        }
        cw.push(format!(
            "(mkcase {} {})",
            obs_coq(&case.init),
            coq_list(case.steps.iter().map(|s| format!(
                "(mkcaller {} {} false, {}, {}, {})",
                coq_bool(s.auth),
                coq_bool(s.proofs.contains(&before_owner(&case, s))),
                op_coq(&s.op),
                s.out,
                obs_coq(&s.obs)
            )))
        ));
    }
    for (name, _) in &bf {
        report.floor(&format!("bf.{}", name), 1);
    }
    for key in [
        "metadata.Write.Ok", "metadata.Write.ELocked", "metadata.Write.EUnauthorized", "metadata.Remove.Ok", "metadata.Remove.ELocked",
        "metadata.Lock.ELocked", "metadata.Lock.EUnauthorized", "owner.Set.Ok", "owner.Set.EUnauthorized", "owner.Lock.EUnauthorized",
        "owner.ReservedPath.EUnauthorized", "auth.OpenSetter.Ok", "auth.OpenSetter.EUnauthorized",
    ] {
        report.floor(key, 2);
    }
    if w.royalty_package.is_some() {
        for key in ["royalty.Write.Ok", "royalty.Write.ELocked", "royalty.Lock.Ok", "royalty.Lock.ELocked"] {
            report.floor(key, 2);
        }
    }
    report.floor("refused_on_locked", args.cases as u64);
    report.floor("metadata.Lock.Ok", (args.cases as u64) / 2);
    report.floor("owner.Lock.Ok", (args.cases as u64) / 8);
    cw.write(&args.out, args.shards).unwrap();
    report.write(&args.out).unwrap();
}

/// the owner rule in force before step `s` (the observation of the previous step)
fn before_owner(c: &Case, s: &Step) -> usize {
    let idx = c.steps.iter().position(|x| std::ptr::eq(x, s)).unwrap();
    if idx == 0 {
        c.init.owner_rule
    } else {
        c.steps[idx - 1].obs.owner_rule
    }
}
